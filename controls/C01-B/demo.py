import itertools
import math
import os
import random
import sys

sys.path.insert(0, os.getcwd())

import numpy as np  # noqa: E402
import numpy.random as rnd  # noqa: E402

from gym_gridverse.action import Action  # noqa: E402
from gym_gridverse.agent import Agent  # noqa: E402
from gym_gridverse.debugging import reset_gv_debug  # noqa: E402
from gym_gridverse.envs import observation_functions as obs_fs  # noqa: E402
from gym_gridverse.envs import reward_functions as rew_fs  # noqa: E402
from gym_gridverse.envs import terminating_functions as ter_fs  # noqa: E402
from gym_gridverse.envs import transition_functions as tr_fs  # noqa: E402
from gym_gridverse.envs.gridworld import GridWorld  # noqa: E402
from gym_gridverse.envs.utils import get_next_position  # noqa: E402
from gym_gridverse.geometry import (  # noqa: E402
    Orientation,
    Position,
    Shape,
)
from gym_gridverse.grid import Grid  # noqa: E402
from gym_gridverse.grid_object import (  # noqa: E402
    Beacon,
    Box,
    Color,
    Door,
    Exit,
    Floor,
    Hidden,
    Key,
    MovingObstacle,
    NoneGridObject,
    Telepod,
    Wall,
)
from gym_gridverse.observation import Observation  # noqa: E402
from gym_gridverse.spaces import (  # noqa: E402
    ActionSpace,
    ObservationSpace,
    StateSpace,
)
from gym_gridverse.state import State  # noqa: E402

reset_gv_debug(True)

# ---------------------------------------------------------------------------
# plain-data model of states, independent from the library classes
# ---------------------------------------------------------------------------
# objects are tuples: ('Floor',) ('Wall',) ('Exit',) ('MovingObstacle',)
# ('Door', status, color) ('Key', color) ('Telepod', color) ('Beacon', color)
# ('Box', content) ('None',) ('Hidden',)
# orientation is a compass index 0=N(up) 1=E 2=S 3=W;  N corresponds to the
# library's FORWARD orientation

ALL_ACTIONS = list(Action)
DELTAS = [(-1, 0), (0, 1), (1, 0), (0, -1)]
ORIENTATIONS = [Orientation.F, Orientation.R, Orientation.B, Orientation.L]
MOVE_TURNS = {
    'MOVE_FORWARD': 0,
    'MOVE_RIGHT': 1,
    'MOVE_BACKWARD': 2,
    'MOVE_LEFT': 3,
}
COLOR_BY_NAME = {color.name: color for color in Color}
STATUS_BY_NAME = {status.name: status for status in Door.Status}

DECLARED_TYPES = [
    Floor,
    Wall,
    Exit,
    Door,
    Key,
    MovingObstacle,
    Box,
    Telepod,
    Beacon,
]
DECLARED_TYPE_NAMES = {t.__name__ for t in DECLARED_TYPES}
DECLARED_COLORS = [Color.RED, Color.GREEN, Color.BLUE, Color.YELLOW]
DECLARED_COLOR_NAMES = {c.name for c in DECLARED_COLORS} | {'NONE'}


def build(t):
    """plain tuple -> library object"""
    kind = t[0]
    if kind == 'Floor':
        return Floor()
    if kind == 'Wall':
        return Wall()
    if kind == 'Exit':
        return Exit() if len(t) == 1 else Exit(COLOR_BY_NAME[t[1]])
    if kind == 'MovingObstacle':
        return MovingObstacle()
    if kind == 'Door':
        return Door(STATUS_BY_NAME[t[1]], COLOR_BY_NAME[t[2]])
    if kind == 'Key':
        return Key(COLOR_BY_NAME[t[1]])
    if kind == 'Telepod':
        return Telepod(COLOR_BY_NAME[t[1]])
    if kind == 'Beacon':
        return Beacon(COLOR_BY_NAME[t[1]])
    if kind == 'Box':
        return Box(build(t[1]))
    if kind == 'None':
        return NoneGridObject()
    if kind == 'Hidden':
        return Hidden()
    raise AssertionError(t)


def enc(obj):
    """library object -> plain tuple (by exact type)"""
    kind = type(obj).__name__
    if kind in ('Floor', 'Wall', 'MovingObstacle'):
        return (kind,)
    if kind == 'Exit':
        return ('Exit',) if obj.color is Color.NONE else ('Exit', obj.color.name)
    if kind == 'Door':
        return ('Door', obj.state.name, obj.color.name)
    if kind in ('Key', 'Telepod', 'Beacon'):
        return (kind, obj.color.name)
    if kind == 'Box':
        return ('Box', enc(obj.content))
    if kind == 'NoneGridObject':
        return ('None',)
    if kind == 'Hidden':
        return ('Hidden',)
    raise AssertionError(obj)


def color_of(t):
    if t[0] in ('Key', 'Telepod', 'Beacon'):
        return t[1]
    if t[0] == 'Door':
        return t[2]
    if t[0] == 'Exit' and len(t) == 2:
        return t[1]
    return 'NONE'


def blocks_movement(t):
    return t[0] in ('Wall', 'Box') or (t[0] == 'Door' and t[1] != 'OPEN')


def holdable(t):
    return t[0] == 'Key'


def build_state(m):
    grid = Grid([[build(t) for t in row] for row in m['grid']])
    agent = Agent(
        Position(*m['pos']), ORIENTATIONS[m['ori']], build(m['held'])
    )
    return State(grid, agent)


def enc_state(state):
    return {
        'grid': [[enc(obj) for obj in row] for row in state.grid.objects],
        'pos': (state.agent.position.y, state.agent.position.x),
        'ori': ORIENTATIONS.index(state.agent.orientation),
        'held': enc(state.agent.grid_object),
    }


def copy_model(m):
    return {
        'grid': [list(row) for row in m['grid']],
        'pos': m['pos'],
        'ori': m['ori'],
        'held': m['held'],
    }


def in_grid(m, p):
    return 0 <= p[0] < len(m['grid']) and 0 <= p[1] < len(m['grid'][0])


def front_of(m):
    d = DELTAS[m['ori']]
    return (m['pos'][0] + d[0], m['pos'][1] + d[1])


def cells(m):
    return [
        (y, x)
        for y in range(len(m['grid']))
        for x in range(len(m['grid'][0]))
    ]


# ---------------------------------------------------------------------------
# reference (independent) transition functions on the plain-data model
# ---------------------------------------------------------------------------


def ref_move_agent(m, action, rng):
    if action.name not in MOVE_TURNS:
        return
    d = DELTAS[(m['ori'] + MOVE_TURNS[action.name]) % 4]
    p = (m['pos'][0] + d[0], m['pos'][1] + d[1])
    if in_grid(m, p) and not blocks_movement(m['grid'][p[0]][p[1]]):
        m['pos'] = p


def ref_turn_agent(m, action, rng):
    if action.name == 'TURN_LEFT':
        m['ori'] = (m['ori'] + 3) % 4
    elif action.name == 'TURN_RIGHT':
        m['ori'] = (m['ori'] + 1) % 4


def ref_pickndrop(m, action, rng):
    if action.name != 'PICK_N_DROP':
        return
    p = front_of(m)
    if not in_grid(m, p):
        return
    front = m['grid'][p[0]][p[1]]
    if front[0] != 'Floor' and not holdable(front):
        return
    m['grid'][p[0]][p[1]] = ('Floor',) if m['held'] == ('None',) else m['held']
    m['held'] = front if holdable(front) else ('None',)


def ref_move_obstacles(m, action, rng):
    sources = [p for p in cells(m) if m['grid'][p[0]][p[1]][0] == 'MovingObstacle']
    for y, x in sources:
        targets = [
            q
            for q in [(y - 1, x), (y, x + 1), (y + 1, x), (y, x - 1)]
            if in_grid(m, q) and m['grid'][q[0]][q[1]] == ('Floor',)
        ]
        if targets:
            q = targets[int(rng.choice(len(targets)))]
            a, b = m['grid'][y][x], m['grid'][q[0]][q[1]]
            m['grid'][y][x], m['grid'][q[0]][q[1]] = b, a


def ref_actuate_door(m, action, rng):
    if action.name != 'ACTUATE':
        return
    p = front_of(m)
    if not in_grid(m, p):
        return
    front = m['grid'][p[0]][p[1]]
    if front[0] != 'Door':
        return
    _, status, color = front
    if status == 'CLOSED':
        status = 'OPEN'
    elif status == 'LOCKED' and m['held'] == ('Key', color):
        status = 'OPEN'
    m['grid'][p[0]][p[1]] = ('Door', status, color)


def ref_actuate_box(m, action, rng):
    if action.name != 'ACTUATE':
        return
    p = front_of(m)
    if not in_grid(m, p):
        return
    front = m['grid'][p[0]][p[1]]
    if front[0] == 'Box':
        m['grid'][p[0]][p[1]] = front[1]


def ref_teleport(m, action, rng):
    here = m['grid'][m['pos'][0]][m['pos'][1]]
    if here[0] != 'Telepod':
        return
    targets = [
        p for p in cells(m) if p != m['pos'] and m['grid'][p[0]][p[1]] == here
    ]
    if targets:
        m['pos'] = targets[int(rng.choice(len(targets)))]


REFS = {
    'move_agent': ref_move_agent,
    'turn_agent': ref_turn_agent,
    'pickndrop': ref_pickndrop,
    'move_obstacles': ref_move_obstacles,
    'actuate_door': ref_actuate_door,
    'actuate_box': ref_actuate_box,
    'teleport': ref_teleport,
}
LIBS = {name: getattr(tr_fs, name) for name in REFS}
for _name in REFS:
    assert tr_fs.transition_function_registry[_name] is LIBS[_name], _name


# ---------------------------------------------------------------------------
# reference space-membership predicates
# ---------------------------------------------------------------------------


def ref_state_in_space(m, shape, type_names, color_names):
    """independent version of StateSpace.contains for well-formed states"""
    if (len(m['grid']), len(m['grid'][0])) != shape:
        return False
    for row in m['grid']:
        for t in row:
            if t[0] not in type_names or color_of(t) not in color_names:
                return False
    if not in_grid(m, m['pos']):
        return False
    if m['held'][0] != 'None' and m['held'][0] not in type_names:
        return False
    return color_of(m['held']) in color_names


def ref_observation_in_space(om, shape, type_names, color_names):
    """independent version of ObservationSpace.contains

    `om` is a model with the same format of a state model
    """
    if (len(om['grid']), len(om['grid'][0])) != shape:
        return False
    for row in om['grid']:
        for t in row:
            if t[0] != 'Hidden' and t[0] not in type_names:
                return False
            if color_of(t) not in color_names:
                return False
    if not (0 <= om['pos'][0] < shape[0] and 0 <= om['pos'][1] < shape[1]):
        return False
    if om['held'][0] != 'None' and om['held'][0] not in type_names:
        return False
    return color_of(om['held']) in color_names


# ---------------------------------------------------------------------------
# state catalogues and generators
# ---------------------------------------------------------------------------

CELL_CATALOG = [
    ('Floor',),
    ('Wall',),
    ('Exit',),
    ('MovingObstacle',),
    ('Door', 'OPEN', 'RED'),
    ('Door', 'CLOSED', 'RED'),
    ('Door', 'LOCKED', 'RED'),
    ('Door', 'LOCKED', 'BLUE'),
    ('Door', 'CLOSED', 'NONE'),
    ('Key', 'RED'),
    ('Key', 'BLUE'),
    ('Telepod', 'RED'),
    ('Telepod', 'GREEN'),
    ('Beacon', 'YELLOW'),
    ('Box', ('Floor',)),
    ('Box', ('Key', 'RED')),
    ('Box', ('Wall',)),
    ('Box', ('Box', ('Telepod', 'RED'))),
    ('Box', ('Door', 'LOCKED', 'RED')),
]

HELD_CATALOG = [
    ('None',),
    ('Key', 'RED'),
    ('Key', 'BLUE'),
    ('Key', 'NONE'),
    # unusual but inside the declared state space
    ('Floor',),
    ('Wall',),
    ('Door', 'LOCKED', 'RED'),
    ('Telepod', 'RED'),
    ('Box', ('Key', 'RED')),
    ('MovingObstacle',),
]

SHAPES = [(1, 1), (1, 2), (2, 1), (1, 3), (2, 2), (2, 3), (3, 2), (3, 3), (4, 5)]


def random_model(pyrng, shape, weights=None):
    height, width = shape
    grid = [
        [
            pyrng.choices(CELL_CATALOG, weights=weights)[0]
            for _ in range(width)
        ]
        for _ in range(height)
    ]
    return {
        'grid': grid,
        'pos': (pyrng.randrange(height), pyrng.randrange(width)),
        'ori': pyrng.randrange(4),
        'held': pyrng.choice(HELD_CATALOG),
    }


# ---------------------------------------------------------------------------
# checking helpers
# ---------------------------------------------------------------------------

COUNTS = {}


def count(name, n=1):
    COUNTS[name] = COUNTS.get(name, 0) + n


def rng_fingerprint(rng):
    return repr(rng.bit_generator.state)


def check_transition(name, m, action, seed=0):
    """library in-place transition vs reference, incl. rng consumption

    returns (state_before_identities, state) for further identity checks
    """
    state = build_state(m)
    before = [list(row) for row in state.grid.objects]
    held_before = state.agent.grid_object

    lib_rng = rnd.default_rng(seed)
    ref_rng = rnd.default_rng(seed)
    expected = copy_model(m)
    REFS[name](expected, action, ref_rng)
    result = LIBS[name](state, action, rng=lib_rng)

    assert result is None, (name, m, action)
    got = enc_state(state)
    assert got == expected, (name, m, action, got, expected)
    assert rng_fingerprint(lib_rng) == rng_fingerprint(ref_rng), (
        name,
        m,
        action,
    )
    count(f'transition:{name}')
    return before, held_before, state


def make_spaces(shape, obs_shape=(3, 3)):
    state_space = StateSpace(Shape(*shape), DECLARED_TYPES, DECLARED_COLORS)
    observation_space = ObservationSpace(
        Shape(*obs_shape), DECLARED_TYPES, DECLARED_COLORS
    )
    return state_space, observation_space


REWARD_NAMES_FREE = [
    ('living_reward', {}),
    ('living_reward', {'reward': 0.25}),
    ('reach_exit', {}),
    ('bump_moving_obstacle', {}),
    ('bump_into_wall', {}),
    ('actuate_door', {}),
    ('pickndrop', {'object_type': Key}),
    ('overlap', {'object_type': Telepod, 'reward_on': 2.0}),
]
TERMINATING_NAMES_FREE = [
    ('reach_exit', {}),
    ('bump_moving_obstacle', {}),
    ('bump_into_wall', {}),
    ('overlap', {'object_type': Telepod}),
]
OBSERVATION_NAMES = [
    'fully_transparent',
    'partially_occluded',
    'raytracing',
    'stochastic_raytracing',
]


def make_env(shape, transition_names, variant, obs_shape=(3, 3), actions=None):
    """assemble a GridWorld out of built-in components (by factory name)"""
    state_space, observation_space = make_spaces(shape, obs_shape)
    action_space = ActionSpace(list(Action) if actions is None else actions)

    transition_function = tr_fs.factory(
        'chain',
        transition_functions=[
            tr_fs.factory(name) for name in transition_names
        ],
    )
    rewards = [
        rew_fs.factory(name, **kwargs)
        for i, (name, kwargs) in enumerate(REWARD_NAMES_FREE)
        if (i + variant) % 3 != 0
    ]
    reward_function = rew_fs.factory('reduce_sum', reward_functions=rewards)
    terminatings = [
        ter_fs.factory(name, **kwargs)
        for i, (name, kwargs) in enumerate(TERMINATING_NAMES_FREE)
        if (i + variant) % 2 == 0
    ]
    termination_function = ter_fs.factory(
        'reduce_any' if variant % 2 == 0 else 'reduce_all',
        terminating_functions=terminatings,
    )
    observation_function = obs_fs.factory(
        OBSERVATION_NAMES[variant % len(OBSERVATION_NAMES)],
        area=observation_space.area,
    )

    def reset_function(*, rng=None):
        raise AssertionError('reset is not used by this program')

    return GridWorld(
        state_space,
        action_space,
        observation_space,
        reset_function,
        transition_function,
        observation_function,
        reward_function,
        termination_function,
    )


def check_env_step(env, transition_names, m, action, seed):
    """closure/totality of functional_step + agreement with the reference"""
    shape = (len(m['grid']), len(m['grid'][0]))
    state = build_state(m)
    assert env.state_space.contains(state), m
    assert ref_state_in_space(
        m, shape, DECLARED_TYPE_NAMES, DECLARED_COLOR_NAMES
    )

    env.set_seed(seed)
    ref_rng = rnd.default_rng(seed)
    expected = copy_model(m)
    for name in transition_names:
        REFS[name](expected, action, ref_rng)

    next_state, reward, terminal = env.functional_step(state, action)

    # input state is untouched, next state is a different object
    assert enc_state(state) == m, (m, action)
    assert next_state is not state
    assert next_state.grid is not state.grid
    assert next_state.agent is not state.agent

    got = enc_state(next_state)
    assert got == expected, (transition_names, m, action, got, expected)
    assert rng_fingerprint(env._rng) == rng_fingerprint(ref_rng)

    # closure
    assert env.state_space.contains(next_state), (m, action)
    assert ref_state_in_space(
        got, shape, DECLARED_TYPE_NAMES, DECLARED_COLOR_NAMES
    ), (m, action)
    assert next_state.grid.shape == state.grid.shape
    assert isinstance(reward, float) and math.isfinite(reward), reward
    assert isinstance(terminal, bool), terminal

    # observation of the next state
    observation = env.functional_observation(next_state)
    assert isinstance(observation, Observation)
    assert env.observation_space.contains(observation)
    obs_shape = env.observation_space.grid_shape
    assert ref_observation_in_space(
        enc_state(observation),
        (obs_shape.height, obs_shape.width),
        DECLARED_TYPE_NAMES,
        DECLARED_COLOR_NAMES,
    )
    count('env_step')
    return next_state


def check_env_rejects(env, m, bad_actions):
    """actions outside the action space raise ValueError and change nothing"""
    state = build_state(m)
    env.set_seed(7)
    fingerprint = rng_fingerprint(env._rng)
    for bad in bad_actions:
        try:
            env.functional_step(state, bad)
        except ValueError:
            pass
        else:
            raise AssertionError(('not rejected', bad))
        assert enc_state(state) == m
        assert rng_fingerprint(env._rng) == fingerprint
        count('env_reject')


def report(title):
    print(title)
    for name in sorted(COUNTS):
        print(f'  {name}: {COUNTS[name]}')
    print('OK')


# ---------------------------------------------------------------------------
# program B: the space-membership predicates (StateSpace / ObservationSpace)
# ---------------------------------------------------------------------------

TYPE_SETS = [
    [Floor],
    [Floor, Wall],
    [Floor, Wall, Exit, Key, Door],
    [Wall, Telepod, Beacon, MovingObstacle],
    [Floor, Box, Key],
    DECLARED_TYPES,
]
COLOR_SETS = [
    [],
    [Color.RED],
    [Color.RED, Color.BLUE],
    [Color.NONE, Color.GREEN],
    DECLARED_COLORS,
]

# also objects which never belong to a state grid / hand
WIDE_CELLS = CELL_CATALOG + [
    ('Hidden',),
    ('None',),
    ('Exit', 'GREEN'),
    ('Key', 'NONE'),
    ('Key', 'YELLOW'),
    ('Beacon', 'RED'),
    ('Box', ('Exit',)),
]
WIDE_HELD = HELD_CATALOG + [
    ('Hidden',),
    ('Exit',),
    ('Key', 'GREEN'),
    ('Beacon', 'BLUE'),
]


class Weird:
    """not an orientation"""


def build_any(m):
    """like build_state, but tolerates invalid poses"""
    grid = Grid([[build(t) for t in row] for row in m['grid']])
    orientation = ORIENTATIONS[m['ori']] if m['ori'] is not None else Weird()
    agent = Agent(Position(*m['pos']), orientation, build(m['held']))
    return grid, agent


def ref_state_member(m, shape, type_names, color_names):
    if m['ori'] is None:
        # the only condition which the plain model does not express
        return False
    return ref_state_in_space(m, shape, type_names, color_names)


def wide_model(pyrng, shape, p_clean):
    """random model, possibly outside any space"""
    height, width = shape
    clean = pyrng.random() < p_clean
    cells_ = CELL_CATALOG if clean else WIDE_CELLS
    helds = HELD_CATALOG if clean else WIDE_HELD
    m = {
        'grid': [
            [pyrng.choice(cells_) for _ in range(width)]
            for _ in range(height)
        ],
        'pos': (pyrng.randrange(height), pyrng.randrange(width)),
        'ori': pyrng.randrange(4),
        'held': pyrng.choice(helds),
    }
    if not clean:
        roll = pyrng.random()
        if roll < 0.15:
            m['pos'] = pyrng.choice(
                [(-1, 0), (0, -1), (height, 0), (0, width), (height, width)]
            )
        elif roll < 0.25:
            m['ori'] = None
    return m


def restrict_model(pyrng, m, types, colors):
    """rewrites a model so that most of it fits the given declaration"""
    type_names = {t.__name__ for t in types}
    color_names = {c.name for c in colors} | {'NONE'}
    ok_cells = [
        t
        for t in WIDE_CELLS
        if t[0] in type_names and color_of(t) in color_names
    ]
    ok_held = [('None',)] + [
        t
        for t in WIDE_HELD
        if t[0] in type_names and color_of(t) in color_names
    ]
    out = copy_model(m)
    keep = pyrng.choice([0.0, 0.05, 0.3])
    for y, x in cells(out):
        if pyrng.random() >= keep:
            out['grid'][y][x] = pyrng.choice(ok_cells)
    if pyrng.random() >= keep:
        out['held'] = pyrng.choice(ok_held)
    return out


def check_state_space(pyrng):
    for types, colors in itertools.product(TYPE_SETS, COLOR_SETS):
        type_names = {t.__name__ for t in types}
        color_names = {c.name for c in colors} | {'NONE'}
        for shape in [(1, 1), (2, 3), (3, 3)]:
            space = StateSpace(Shape(*shape), types, colors)
            accepted = 0
            for i in range(120):
                model_shape = (
                    shape if i % 6 else pyrng.choice([(1, 2), (3, 2), (3, 3), (2, 3)])
                )
                m = wide_model(pyrng, model_shape, p_clean=0.4)
                m = restrict_model(pyrng, m, types, colors)
                grid, agent = build_any(m)
                got = space.contains(State(grid, agent))
                want = ref_state_member(m, shape, type_names, color_names)
                assert bool(got) == want, (types, colors, shape, m, got)
                assert isinstance(got, bool), (m, got)
                accepted += want
                count('state_space.contains')
            count('state_space.accepted', accepted)


def check_observation_space(pyrng):
    for types, colors in itertools.product(TYPE_SETS, COLOR_SETS):
        type_names = {t.__name__ for t in types}
        color_names = {c.name for c in colors} | {'NONE'}
        for shape in [(1, 1), (2, 3), (3, 3), (4, 5)]:
            space = ObservationSpace(Shape(*shape), types, colors)
            assert space.area.height == shape[0]
            assert space.area.width == shape[1]
            accepted = 0
            for i in range(100):
                model_shape = (
                    shape if i % 6 else pyrng.choice([(1, 3), (3, 1), (3, 3), (2, 3)])
                )
                m = wide_model(pyrng, model_shape, p_clean=0.4)
                m = restrict_model(pyrng, m, types, colors)
                # hidden cells are fine in observations
                for y, x in cells(m):
                    if pyrng.random() < 0.2:
                        m['grid'][y][x] = ('Hidden',)
                if i % 5 == 0:
                    # positions are relative to the space, not the grid
                    m['pos'] = (
                        pyrng.randrange(-1, shape[0] + 1),
                        pyrng.randrange(-1, shape[1] + 1),
                    )
                grid, agent = build_any(m)
                got = space.contains(Observation(grid, agent))
                want = ref_observation_in_space(
                    m, shape, type_names, color_names
                )
                assert isinstance(got, bool), (m, got)
                assert got == want, (types, colors, shape, m, got)
                accepted += want
                count('observation_space.contains')
            count('observation_space.accepted', accepted)


def check_evaluation_strategy():
    """StateSpace.contains short-circuits, ObservationSpace.contains does not"""

    class Broken:
        """has no color"""

    space = StateSpace(Shape(2, 2), DECLARED_TYPES, DECLARED_COLORS)
    good_grid = Grid([[Floor(), Wall()], [Key(Color.RED), Floor()]])
    bad_shape_grid = Grid([[Floor(), Wall()]])

    def broken_agent(position=Position(0, 0), orientation=Orientation.F):
        agent = Agent(position, orientation)
        agent.grid_object = Broken()
        return agent

    # a failing earlier condition hides the broken held object
    assert space.contains(State(bad_shape_grid, broken_agent())) is False
    assert not space.contains(State(good_grid, broken_agent(Position(5, 5))))
    assert (
        space.contains(State(good_grid, broken_agent(orientation='north')))
        is False
    )
    # type check comes before the colour lookup
    assert space.contains(State(good_grid, broken_agent())) is False
    # grid checks come before any agent check
    hidden_grid = Grid([[Floor(), Hidden()], [Floor(), Floor()]])
    assert space.contains(State(hidden_grid, broken_agent())) is False
    purple_grid = Grid([[Floor(), Key(Color.NONE)], [Floor(), Floor()]])
    space_red = StateSpace(Shape(2, 2), [Floor, Key], [Color.RED])
    assert space_red.contains(State(purple_grid, Agent(Position(0, 0), Orientation.F)))
    blue_grid = Grid([[Floor(), Key(Color.BLUE)], [Floor(), Floor()]])
    assert space_red.contains(State(blue_grid, broken_agent())) is False
    count('state_space.short_circuit', 7)

    # numpy integers as coordinates are tolerated
    agent = Agent(Position(np.int64(1), np.int64(1)), Orientation.B)
    assert space.contains(State(good_grid, agent))
    agent = Agent(Position(np.int64(2), np.int64(1)), Orientation.B)
    assert not space.contains(State(good_grid, agent))
    count('state_space.numpy_position', 2)

    # the observation space evaluates every condition
    obs_space = ObservationSpace(Shape(3, 3), DECLARED_TYPES, DECLARED_COLORS)
    obs_grid = Grid([[Floor(), Wall()]])  # wrong shape
    try:
        obs_space.contains(Observation(obs_grid, broken_agent()))
    except AttributeError:
        pass
    else:
        raise AssertionError('expected AttributeError')
    count('observation_space.eager', 1)


def check_properties():
    """the other members of the spaces are untouched"""
    for types, colors in itertools.product(TYPE_SETS, COLOR_SETS):
        state_space = StateSpace(Shape(3, 5), types, colors)
        observation_space = ObservationSpace(Shape(3, 5), types, colors)
        assert state_space.colors == set(colors) | {Color.NONE}
        assert state_space.object_types == list(types)
        assert state_space.can_be_represented is (Box not in types)
        assert isinstance(state_space.can_be_represented, bool)
        assert state_space.max_object_color == max(
            [c.value for c in colors] + [Color.NONE.value]
        )
        assert state_space.max_grid_object_type == max(
            t.type_index() for t in types
        )
        assert observation_space.max_grid_object_type == max(
            t.type_index() for t in list(types) + [Hidden]
        )
        assert state_space.grid_state_shape == Shape(3, 5)
        assert observation_space.agent_position == Position(2, 2)
        count('space_properties')
    for width in (2, 4):
        try:
            ObservationSpace(Shape(3, width), DECLARED_TYPES, DECLARED_COLORS)
        except ValueError:
            pass
        else:
            raise AssertionError('even width accepted')


def main():
    pyrng = random.Random(20240202)

    # 1. the predicates accept exactly the conforming states / observations
    check_state_space(pyrng)
    check_observation_space(pyrng)
    check_evaluation_strategy()
    check_properties()

    # 2. the transitions (unchanged) still agree with the reference
    for shape in [(1, 1), (1, 2), (2, 2), (3, 3)]:
        for i in range(40):
            m = random_model(pyrng, shape)
            for name, action in itertools.product(REFS, ALL_ACTIONS):
                check_transition(name, m, action, seed=i)

    # 3. closure/totality through GridWorld (debug mode: every step calls
    #    StateSpace.contains twice and ObservationSpace.contains once)
    orders = [
        [
            'move_agent',
            'turn_agent',
            'pickndrop',
            'actuate_door',
            'actuate_box',
            'move_obstacles',
            'teleport',
        ],
        ['teleport', 'move_agent', 'teleport', 'actuate_box', 'pickndrop'],
        ['move_obstacles', 'move_obstacles', 'turn_agent', 'move_agent'],
    ]
    variant = 0
    for shape in SHAPES:
        for order in orders:
            for obs_shape in [(3, 3), (2, 5), (1, 1)]:
                variant += 1
                env = make_env(shape, order, variant, obs_shape=obs_shape)
                for i in range(6 if shape != (4, 5) else 20):
                    m = random_model(pyrng, shape)
                    for action in ALL_ACTIONS:
                        check_env_step(env, order, m, action, seed=i)

    # 3b. rollouts
    for shape in [(2, 3), (3, 3), (4, 5)]:
        env = make_env(shape, orders[0], variant=7, obs_shape=(5, 7))
        for episode in range(10):
            m = random_model(pyrng, shape)
            for t in range(25):
                action = pyrng.choice(ALL_ACTIONS)
                next_state = check_env_step(
                    env, orders[0], m, action, 100 * episode + t
                )
                m = enc_state(next_state)

    # 3c. debug mode rejects states outside of the state space
    env = make_env((3, 3), orders[0], variant=2)
    for i in range(200):
        m = wide_model(pyrng, pyrng.choice([(3, 3), (3, 3), (2, 3)]), 0.3)
        if m['ori'] is None:
            continue
        member = ref_state_in_space(
            m, (3, 3), DECLARED_TYPE_NAMES, DECLARED_COLOR_NAMES
        )
        state = State(*build_any(m))
        assert env.state_space.contains(state) == member, m
        env.set_seed(i)
        if member:
            env.functional_step(state, Action.MOVE_FORWARD)
            count('debug.accepted')
        else:
            try:
                env.functional_step(state, Action.MOVE_FORWARD)
            except ValueError:
                count('debug.rejected')
            else:
                raise AssertionError(('invalid state accepted', m))

    # 4. actions outside the action space
    restricted = [Action.PICK_N_DROP, Action.ACTUATE, Action.MOVE_BACKWARD]
    env = make_env((2, 3), orders[0], variant=1, actions=restricted)
    for i in range(20):
        m = random_model(pyrng, (2, 3))
        check_env_rejects(
            env,
            m,
            [Action.MOVE_FORWARD, Action.TURN_LEFT, 6, 'ACTUATE', None],
        )
        for action in restricted:
            check_env_step(env, orders[0], m, action, i)

    report('program B (space-membership predicates)')


if __name__ == '__main__':
    main()
