"""Demo for change A (InnerEnv._set_state): C04 on the stateful interface.

Run from the worktree root:  /venv/bin/python _seed/A/demo.py

Exits 0 on the pristine tree and with the patch applied.  Everything is checked
against a reference embedded here: the trajectory obtained by threading states
through the functional interface (functional_reset / functional_step /
functional_observation) of a *separate* environment instance with the same
seed, plus a few hard-coded expectations on the smallest shipped layout.
"""
import collections
import os
import random
import sys
from functools import partial

import numpy as np

sys.path.insert(0, os.getcwd())  # the worktree root, not _seed/A

from gym_gridverse.action import Action
from gym_gridverse.envs import observation_functions as observation_fs
from gym_gridverse.envs import reset_functions as reset_fs
from gym_gridverse.envs import reward_functions as reward_fs
from gym_gridverse.envs import terminating_functions as terminating_fs
from gym_gridverse.envs import transition_functions as transition_fs
from gym_gridverse.envs.gridworld import GridWorld
from gym_gridverse.envs.inner_env import InnerEnv
from gym_gridverse.geometry import Area, Orientation, Position, Shape
from gym_gridverse.grid_object import (
    Beacon,
    Color,
    Door,
    Exit,
    Floor,
    Key,
    MovingObstacle,
    Telepod,
    Wall,
)
from gym_gridverse.observation import Observation
from gym_gridverse.outer_env import OuterEnv
from gym_gridverse.representations.observation_representations import (
    make_observation_representation,
)
from gym_gridverse.representations.state_representations import (
    make_state_representation,
)
from gym_gridverse.rng import reset_gv_rng
from gym_gridverse.spaces import ActionSpace, ObservationSpace, StateSpace
from gym_gridverse.state import State

# NOTE: no Box, which has no state representation
ALL_TYPES = [Floor, Wall, Exit, Door, Key, MovingObstacle, Telepod, Beacon]
ALL_COLORS = list(Color)
RESET = 'RESET'  # pseudo-action: reset the episode mid-way

n_checks = 0


def check(condition, message):
    global n_checks
    n_checks += 1
    if not condition:
        print('FAILED:', message)
        sys.exit(1)


def raises(exception_type, f):
    try:
        f()
    except exception_type:
        return True
    except Exception as e:  # wrong type
        print('unexpected exception', type(e), e)
        return False
    return False


class CountingGridWorld(GridWorld):
    """GridWorld which counts the calls reaching the functional interface"""

    def __init__(self, *args, **kwargs):
        super().__init__(*args, **kwargs)
        self.calls = collections.Counter()

    def functional_reset(self):
        self.calls['reset'] += 1
        return super().functional_reset()

    def functional_step(self, state, action):
        self.calls['step'] += 1
        return super().functional_step(state, action)

    def functional_observation(self, state):
        self.calls['observation'] += 1
        return super().functional_observation(state)


CONFIGS = {
    # name: (reset function, shape, observation function name, area, actions)
    'empty-4x4-fixed': (
        partial(reset_fs.empty, Shape(4, 4)),
        Shape(4, 4),
        'partially_occluded',
        Area((-6, 0), (-3, 3)),
        None,
    ),
    'empty-5x8-random-asymmetric-view': (
        partial(reset_fs.empty, Shape(5, 8), True, True),
        Shape(5, 8),
        'raytracing',
        Area((-4, 1), (-1, 3)),
        None,
    ),
    'dynamic-obstacles-6x7-stochastic-view': (
        partial(reset_fs.dynamic_obstacles, Shape(6, 7), 4, True),
        Shape(6, 7),
        'stochastic_raytracing',
        Area((-2, 2), (-2, 2)),
        None,
    ),
    'keydoor-5x9-tiny-view': (
        partial(reset_fs.keydoor, Shape(5, 9)),
        Shape(5, 9),
        'fully_transparent',
        Area((-1, 0), (0, 0)),
        None,
    ),
    'rooms-7x9': (
        partial(reset_fs.rooms, Shape(7, 9), (2, 2)),
        Shape(7, 9),
        'partially_occluded',
        Area((-3, 0), (-2, 2)),
        None,
    ),
    'teleport-5x6-stochastic-view': (
        partial(reset_fs.teleport, Shape(5, 6)),
        Shape(5, 6),
        'stochastic_raytracing',
        Area((-6, 0), (-3, 3)),
        None,
    ),
    'memory-5x7': (
        partial(
            reset_fs.memory, Shape(5, 7), {Color.RED, Color.GREEN, Color.BLUE}
        ),
        Shape(5, 7),
        'raytracing',
        Area((-2, 0), (-1, 1)),
        None,
    ),
    'crossing-7x5-two-actions': (
        partial(reset_fs.crossing, Shape(7, 5), 2, Wall),
        Shape(7, 5),
        'raytracing',
        Area((-6, 0), (-3, 3)),
        [Action.MOVE_FORWARD, Action.TURN_RIGHT],
    ),
}
STOCHASTIC_VIEW = {
    name for name, config in CONFIGS.items() if 'stochastic' in config[2]
}


def make_env(name, cls=GridWorld):
    reset_function, shape, observation_name, area, actions = CONFIGS[name]
    transition_function = partial(
        transition_fs.chain,
        transition_functions=[
            transition_fs.move_agent,
            transition_fs.turn_agent,
            transition_fs.actuate_door,
            transition_fs.pickndrop,
            transition_fs.move_obstacles,
            transition_fs.teleport,
        ],
    )
    reward_function = partial(
        reward_fs.reduce_sum,
        reward_functions=[
            partial(reward_fs.living_reward, reward=-0.1),
            partial(reward_fs.reach_exit, reward_on=5.0, reward_off=0.0),
            partial(reward_fs.bump_moving_obstacle, reward=-2.0),
        ],
    )
    terminating_function = partial(
        terminating_fs.reduce_any,
        terminating_functions=[
            terminating_fs.reach_exit,
            terminating_fs.bump_moving_obstacle,
        ],
    )
    observation_function = partial(
        getattr(observation_fs, observation_name), area=area
    )
    return cls(
        StateSpace(shape, ALL_TYPES, ALL_COLORS),
        ActionSpace(list(Action) if actions is None else actions),
        ObservationSpace(Shape(area.height, area.width), ALL_TYPES, ALL_COLORS),
        reset_function,
        transition_function,
        observation_function,
        reward_function,
        terminating_function,
    )


def rng_state(env):
    rng = env._rng  # GridWorld's own stream (None if never seeded)
    return None if rng is None else repr(rng.bit_generator.state)


# reference: the functional interface


def functional_trajectory(env, seed, actions, reads):
    """Threads states through the functional interface.

    `reads[t]` is the number of times the observation of the t-th state is
    read;  the reference generates the observation iff it is read at all."""
    env.set_seed(seed)
    trajectory = []
    state = env.functional_reset()
    observation = env.functional_observation(state) if reads[0] else None
    trajectory.append((state, None, None, observation))
    for t, action in enumerate(actions, start=1):
        if action == RESET:
            state, reward, done = env.functional_reset(), None, None
        else:
            state, reward, done = env.functional_step(state, action)
        observation = env.functional_observation(state) if reads[t] else None
        trajectory.append((state, reward, done, observation))
    return trajectory


def read_observation(env, n, what):
    """Reads the observation n times;  returns the first (None if n == 0)"""
    first = None
    for i in range(n):
        if i == 1:
            before = rng_state(env)
        observation = env.observation
        if i == 0:
            first = observation
        else:
            check(observation is first, f'{what}: repeated read, new object')
            check(rng_state(env) == before, f'{what}: repeated read used rng')
    return first


def stateful_trajectory(env, seed, actions, reads, what, state_reads=2):
    """Drives the environment with reset / step."""
    env.set_seed(seed)
    trajectory = []
    env.reset()
    for t in range(len(actions) + 1):
        if t == 0:
            reward, done = None, None
        elif actions[t - 1] == RESET:
            env.reset()
            reward, done = None, None
        else:
            reward, done = env.step(actions[t - 1])
        states = [env.state for _ in range(state_reads)]
        check(
            all(state is states[0] for state in states),
            f'{what}: state read returned different objects',
        )
        observation = read_observation(env, reads[t], f'{what} t={t}')
        # state reads after the observation do not disturb anything
        check(env.state is states[0], f'{what}: state changed by observing')
        trajectory.append((env.state, reward, done, observation))
    return trajectory


def same_trajectory(xs, ys):
    if len(xs) != len(ys):
        return False
    for (s1, r1, d1, o1), (s2, r2, d2, o2) in zip(xs, ys):
        if s1 != s2 or r1 != r2 or d1 != d2 or o1 != o2:
            return False
        if type(r1) is not type(r2) or type(d1) is not type(d2):
            return False
    return True


def random_scenario(env, prng, length):
    actions = [
        RESET if prng.random() < 0.08 else prng.choice(env.action_space.actions)
        for _ in range(length)
    ]
    pattern = prng.choice(['none', 'once', 'many', 'mixed'])
    reads = [
        {'none': 0, 'once': 1, 'many': 3, 'mixed': prng.choice([0, 0, 1, 2, 4])}[
            pattern
        ]
        for _ in range(length + 1)
    ]
    return actions, reads


# 1. before the first reset ------------------------------------------------

for name in CONFIGS:
    env = make_env(name, CountingGridWorld)
    action = env.action_space.actions[0]
    for seeded in (False, True):
        if seeded:
            env.set_seed(7)
        before = rng_state(env)
        check(raises(RuntimeError, lambda: env.state), f'{name}: state')
        check(
            raises(RuntimeError, lambda: env.observation), f'{name}: observation'
        )
        check(raises(RuntimeError, lambda: env.step(action)), f'{name}: step')
        check(
            sum(env.calls.values()) == 0,
            f'{name}: functional interface reached before reset',
        )
        check(rng_state(env) == before, f'{name}: rng used before reset')
        # still unset afterwards
        check(raises(RuntimeError, lambda: env.state), f'{name}: state (2)')

# 2. hard-coded expectations on the smallest layout -----------------------

env = make_env('empty-4x4-fixed', CountingGridWorld)
env.set_seed(0)
env.reset()
check(env.state.agent.position == Position(1, 1), 'empty: initial position')
check(env.state.agent.orientation == Orientation.R, 'empty: initial heading')
check(isinstance(env.state.grid[2, 2], Exit), 'empty: exit position')
o0 = env.observation
check(isinstance(o0, Observation), 'empty: observation type')
check(o0.grid.shape == Shape(7, 7), 'empty: observation shape')
check(o0.agent.position == Position(6, 3), 'empty: observation agent')
check(o0.agent.orientation == Orientation.F, 'empty: observation heading')
results = [
    env.step(Action.MOVE_FORWARD),
    env.step(Action.TURN_RIGHT),
    env.step(Action.MOVE_FORWARD),
]
check(
    [done for _, done in results] == [False, False, True], 'empty: done flags'
)
check(
    np.allclose([reward for reward, _ in results], [-0.1, -0.1, 4.9]),
    'empty: rewards',
)
check(env.state.agent.position == Position(2, 2), 'empty: final position')
check(env.state.agent.orientation == Orientation.B, 'empty: final heading')
o3 = env.observation
check(o3 is not o0 and o3 != o0, 'empty: stale observation after steps')
check(isinstance(o3.grid[o3.agent.position], Exit), 'empty: agent sees exit')
check(
    dict(env.calls) == {'reset': 1, 'step': 3, 'observation': 2},
    f'empty: call counts {env.calls}',
)
# a reset after the episode ended brings everything back
env.reset()
check(env.state.agent.position == Position(1, 1), 'empty: reset position')
check(env.observation == o0, 'empty: observation after reset')
check(env.observation is not o0, 'empty: observation regenerated after reset')

# 3. stateful == functional, arbitrary read patterns -----------------------

prng = random.Random(20240604)
n_scenarios = 0
for name in CONFIGS:
    for seed in (0, 1, 12345, 2**32 - 1):
        for repetition in range(3):
            functional_env = make_env(name)
            stateful_env = make_env(name, CountingGridWorld)
            actions, reads = random_scenario(
                stateful_env, prng, prng.choice([0, 1, 7, 25])
            )
            what = f'{name} seed={seed} #{repetition}'

            reference = functional_trajectory(
                functional_env, seed, actions, reads
            )
            trajectory = stateful_trajectory(
                stateful_env, seed, actions, reads, what
            )
            check(same_trajectory(reference, trajectory), f'{what}: differs')
            check(
                rng_state(functional_env) == rng_state(stateful_env),
                f'{what}: different amount of randomness consumed',
            )

            # every reset / step reaches the functional interface exactly
            # once, every observed state generates exactly one observation
            n_resets = 1 + actions.count(RESET)
            check(
                [
                    stateful_env.calls[key]
                    for key in ('reset', 'step', 'observation')
                ]
                == [
                    n_resets,
                    len(actions) - actions.count(RESET),
                    sum(1 for n in reads if n),
                ],
                f'{what}: call counts {stateful_env.calls}',
            )

            # the current observation belongs to the current state
            if name not in STOCHASTIC_VIEW:
                check(
                    stateful_env.observation
                    == functional_env.functional_observation(
                        stateful_env.state
                    ),
                    f'{what}: observation does not belong to state',
                )

            # re-seeding the same (used) environment replays the trajectory
            replay = stateful_trajectory(
                stateful_env, seed, actions, reads, what + ' replay'
            )
            check(same_trajectory(reference, replay), f'{what}: replay differs')
            n_scenarios += 1

# 4. several environments in one process, interleaved ------------------------

for names in (
    ('dynamic-obstacles-6x7-stochastic-view', 'teleport-5x6-stochastic-view'),
    ('rooms-7x9', 'rooms-7x9'),
    ('keydoor-5x9-tiny-view', 'empty-5x8-random-asymmetric-view'),
):
    envs = [make_env(name) for name in names]
    scenarios = [random_scenario(env, prng, 20) for env in envs]
    references = [
        functional_trajectory(make_env(name), 99, actions, reads)
        for name, (actions, reads) in zip(names, scenarios)
    ]
    trajectories = [[], []]
    for env in envs:
        env.set_seed(99)
        env.reset()
    for t in range(21):
        for i, env in enumerate(envs):
            actions, reads = scenarios[i]
            if t == 0:
                reward, done = None, None
            elif actions[t - 1] == RESET:
                env.reset()
                reward, done = None, None
            else:
                reward, done = env.step(actions[t - 1])
            observation = read_observation(env, reads[t], f'interleaved {i}')
            trajectories[i].append((env.state, reward, done, observation))
    for i in range(2):
        check(
            same_trajectory(references[i], trajectories[i]),
            f'interleaved {names}: env {i} differs',
        )

# 5. never seeded: the library-level stream is threaded the same way --------

for name in ('dynamic-obstacles-6x7-stochastic-view', 'rooms-7x9'):
    functional_env, stateful_env = make_env(name), make_env(name)
    actions, reads = random_scenario(stateful_env, prng, 15)

    def unseeded(f, env):
        env.set_seed = lambda seed=None: None  # keep env._rng None
        reset_gv_rng(4242)
        return f(env, None, actions, reads)

    reference = unseeded(functional_trajectory, functional_env)
    trajectory = unseeded(
        lambda env, seed, actions, reads: stateful_trajectory(
            env, seed, actions, reads, f'{name} unseeded'
        ),
        stateful_env,
    )
    check(stateful_env._rng is None, f'{name}: unexpectedly seeded')
    check(same_trajectory(reference, trajectory), f'{name}: unseeded differs')

# 6. failing calls leave the environment untouched -----------------------------

env = make_env('crossing-7x5-two-actions', CountingGridWorld)
env.set_seed(3)
env.reset()
s0, o0 = env.state, env.observation
before = rng_state(env)
for bad_action in (Action.PICK_N_DROP, Action.MOVE_LEFT, 'MOVE_FORWARD', None):
    check(
        raises(ValueError, lambda: env.step(bad_action)),
        f'illegal action {bad_action} accepted',
    )
    check(env.state is s0, 'failed step replaced the state')
    check(env.observation is o0, 'failed step dropped the observation')
    check(rng_state(env) == before, 'failed step consumed randomness')
check(env.calls['observation'] == 1, 'failed step regenerated the observation')
reward, done = env.step(Action.TURN_RIGHT)
check(env.state is not s0 and env.state != s0, 'legal step after failures')
check(env.observation is not o0, 'stale observation after legal step')
check(env.calls['observation'] == 2, 'observation count after legal step')


class FailingReset(CountingGridWorld):
    fail = False

    def functional_reset(self):
        if self.fail:
            raise ValueError('no reset today')
        return super().functional_reset()


env = make_env('empty-5x8-random-asymmetric-view', FailingReset)
env.set_seed(11)
env.fail = True
check(raises(ValueError, env.reset), 'failing reset did not raise')
check(raises(RuntimeError, lambda: env.state), 'state set by failed reset')
env.fail = False
env.reset()
s0, o0 = env.state, env.observation
env.fail = True
check(raises(ValueError, env.reset), 'failing reset did not raise (2)')
check(env.state is s0 and env.observation is o0, 'failed reset changed env')

# 7. a minimal InnerEnv subclass which is not a GridWorld --------------------


class Chain(InnerEnv):
    """States cycle through a list;  observations are drawn from a stream"""

    def __init__(self, states):
        space = make_env('empty-4x4-fixed')
        super().__init__(
            space.state_space, space.action_space, space.observation_space
        )
        self.states = states
        self.stream = iter(range(10**6))

    def set_seed(self, seed=None):
        self.stream = iter(range(seed or 0, 10**6))

    def functional_reset(self):
        return self.states[0]

    def functional_step(self, state, action):
        i = (self.states.index(state) + 1) % len(self.states)
        return self.states[i], float(i), i == 0

    def functional_observation(self, state):
        return (next(self.stream), state)


tokens = ['a', 'b', 'c']  # anything can stand for a state here
env = Chain(tokens)
check(raises(RuntimeError, lambda: env.state), 'chain: state before reset')
check(raises(RuntimeError, lambda: env.observation), 'chain: obs before reset')
env.set_seed(5)
env.reset()
check(env.state == 'a', 'chain: reset')
check(env.observation == (5, 'a') and env.observation == (5, 'a'), 'chain: o0')
check(env.step(Action.ACTUATE) == (1.0, False), 'chain: step 1')
check(env.step(Action.ACTUATE) == (2.0, False), 'chain: step 2 (no read)')
check(env.observation == (6, 'c'), 'chain: observation drawn lazily')
check(env.step(Action.ACTUATE) == (0.0, True), 'chain: step 3')
check(env.state == 'a' and env.observation == (7, 'a'), 'chain: wrapped')
env.reset()
check(env.observation == (8, 'a'), 'chain: reset regenerates the observation')
check(env.observation == (8, 'a'), 'chain: ... once')

# 8. the numeric outer environment shows the inner state and observation ---


def same_arrays(xs, ys):
    return xs.keys() == ys.keys() and all(
        xs[k].dtype == ys[k].dtype
        and xs[k].shape == ys[k].shape
        and np.array_equal(xs[k], ys[k])
        for k in xs
    )


for name in CONFIGS:
    for representation in ('default', 'no-overlap', 'compact'):
        inner = make_env(name, CountingGridWorld)
        reference_env = make_env(name)
        state_representation = make_state_representation(
            representation, inner.state_space
        )
        observation_representation = make_observation_representation(
            representation, inner.observation_space
        )
        outer = OuterEnv(
            inner,
            state_representation=state_representation,
            observation_representation=observation_representation,
        )
        actions, reads = random_scenario(inner, prng, 12)
        reference = functional_trajectory(reference_env, 17, actions, reads)
        check(raises(RuntimeError, lambda: outer.state), 'outer: before reset')
        check(
            raises(RuntimeError, lambda: outer.observation),
            'outer: observation before reset',
        )
        inner.set_seed(17)
        outer.reset()
        for t in range(len(actions) + 1):
            if t == 0:
                result = (None, None)
            elif actions[t - 1] == RESET:
                outer.reset()
                result = (None, None)
            else:
                result = outer.step(actions[t - 1])
            state, reward, done, observation = reference[t]
            check(result == (reward, done), f'outer {name}: step result')
            check(
                same_arrays(outer.state, state_representation.convert(state)),
                f'outer {name} {representation}: state',
            )
            for _ in range(reads[t]):
                check(
                    same_arrays(
                        outer.observation,
                        observation_representation.convert(observation),
                    ),
                    f'outer {name} {representation}: observation',
                )
        check(
            inner.calls['observation'] == sum(1 for n in reads if n),
            f'outer {name}: observations generated {inner.calls}',
        )
        check(
            rng_state(inner) == rng_state(reference_env),
            f'outer {name}: randomness consumed',
        )

print(f'OK: {n_checks} checks, {n_scenarios} random scenarios')
