"""Demo for change A (transition_functions.pickndrop clean-up).

Run from the worktree root:  /venv/bin/python _seed/A/demo.py

Exits 0 on the pristine tree and with the patch applied.  It checks, on a broad
family of states (non-square grids, agent in corners / on borders, all four
headings, every kind of object in front, every kind of held item including
boxes with nested content and doors in every status, colour NONE), that

* `pickndrop` computes exactly what the reference implementation embedded
  below (the pre-change text) computes, including *which instance* ends up
  where (the in-place transition moves objects, it does not copy them);
* the functional step (`transition_with_copy` and `GridWorld.functional_step`
  over the shipped chain of transition functions) never modifies its input,
  returns a state sharing no mutable component with the input, is repeatable
  after arbitrary intervening calls on other environments and after
  re-seeding, and that copies equal and hash like their originals.
"""
import copy
import itertools as itt
import os
import sys
from functools import partial

# the worktree root (two levels above this file) provides `gym_gridverse`
sys.path.insert(
    0, os.path.dirname(os.path.dirname(os.path.dirname(os.path.abspath(__file__))))
)

from gym_gridverse.action import Action  # noqa: E402
from gym_gridverse.agent import Agent
from gym_gridverse.envs import observation_functions as observation_fs
from gym_gridverse.envs import reward_functions as reward_fs
from gym_gridverse.envs import terminating_functions as terminating_fs
from gym_gridverse.envs import transition_functions as transition_fs
from gym_gridverse.envs.gridworld import GridWorld
from gym_gridverse.geometry import Area, Orientation, Position, Shape
from gym_gridverse.grid import Grid
from gym_gridverse.grid_object import (
    Beacon,
    Box,
    Color,
    Door,
    Exit,
    Floor,
    GridObject,
    Hidden,
    Key,
    MovingObstacle,
    NoneGridObject,
    Telepod,
    Wall,
)
from gym_gridverse.spaces import ActionSpace, ObservationSpace, StateSpace
from gym_gridverse.state import State
from gym_gridverse.utils.fast_copy import fast_copy

CHECKS = 0


def check(condition, message):
    global CHECKS
    CHECKS += 1
    if not condition:
        print('FAIL:', message)
        sys.exit(1)


# ---------------------------------------------------------------------------
# structural fingerprints (GridObject.__eq__ ignores box content, so equality
# of results is decided on a full structural description instead)


def fp_object(obj):
    extra = ()
    if isinstance(obj, Door):
        extra = (obj.state.name,)
    if isinstance(obj, Box):
        extra = (fp_object(obj.content),)
    return (type(obj).__name__, obj.color.name, obj.state_index) + extra


def fp_grid(grid):
    return tuple(tuple(fp_object(obj) for obj in row) for row in grid.objects)


def fp_agent(agent):
    return (
        agent.position.y,
        agent.position.x,
        agent.orientation.name,
        fp_object(agent.grid_object),
    )


def fp_state(state):
    return (fp_grid(state.grid), fp_agent(state.agent))


def _object_ids(obj, ids):
    ids.add(id(obj))
    if isinstance(obj, Box):
        _object_ids(obj.content, ids)


def mutable_ids(state):
    """identities of every mutable component reachable from the state"""
    ids = {
        id(state.grid),
        id(state.grid.objects),
        id(state.agent),
        id(state.agent.transform),
    }
    for row in state.grid.objects:
        ids.add(id(row))
        for obj in row:
            _object_ids(obj, ids)
    _object_ids(state.agent.grid_object, ids)
    return ids


def identity_layout(state):
    """which instance sits where (cells and hand)"""
    return (
        tuple(tuple(id(obj) for obj in row) for row in state.grid.objects),
        id(state.agent.grid_object),
    )


# ---------------------------------------------------------------------------
# reference implementation: the text of `pickndrop` before the change


def reference_pickndrop(state, action, *, rng=None):
    if action is not Action.PICK_N_DROP:
        return

    position_front = state.agent.front()

    if not state.grid.area.contains(position_front):
        return

    obj_front = state.grid[position_front]
    can_be_dropped = isinstance(obj_front, Floor) or obj_front.holdable

    if not can_be_dropped:
        return

    state.grid[position_front] = (
        state.agent.grid_object
        if not isinstance(state.agent.grid_object, NoneGridObject)
        and can_be_dropped
        else Floor()  # We know we are picking up if not dropping
    )

    state.agent.grid_object = (
        obj_front if obj_front.holdable else NoneGridObject()
    )


# ---------------------------------------------------------------------------
# scenario construction


class HoldableRock(GridObject, register=True):
    """a user-defined holdable object with a colour, as users may register"""

    state_index = 0
    color = Color.NONE
    blocks_movement = True
    blocks_vision = False
    holdable = True

    def __init__(self, color=Color.NONE):
        self.color = color

    @classmethod
    def can_be_represented_in_state(cls):
        return True

    @classmethod
    def num_states(cls):
        return 1


FRONT_FACTORIES = [
    Floor,
    Wall,
    Exit,
    lambda: Exit(Color.GREEN),
    lambda: Key(Color.NONE),
    lambda: Key(Color.RED),
    lambda: Key(Color.YELLOW),
    lambda: Door(Door.Status.OPEN, Color.NONE),
    lambda: Door(Door.Status.CLOSED, Color.BLUE),
    lambda: Door(Door.Status.LOCKED, Color.RED),
    MovingObstacle,
    lambda: Telepod(Color.GREEN),
    lambda: Beacon(Color.YELLOW),
    lambda: Box(Floor()),
    lambda: Box(Key(Color.RED)),
    lambda: Box(Box(Key(Color.BLUE))),
    lambda: HoldableRock(Color.GREEN),
]

HELD_FACTORIES = [
    lambda: None,  # Agent default: NoneGridObject
    NoneGridObject,
    lambda: Key(Color.NONE),
    lambda: Key(Color.RED),
    lambda: Key(Color.BLUE),
    lambda: HoldableRock(Color.NONE),
    # not reachable by picking up, but legal to construct
    lambda: Box(Box(Key(Color.GREEN))),
    lambda: Door(Door.Status.LOCKED, Color.YELLOW),
]

BACKGROUND_FACTORIES = [
    Floor,
    Floor,
    Wall,
    lambda: Key(Color.GREEN),
    lambda: Door(Door.Status.CLOSED, Color.GREEN),
    lambda: Box(Box(Exit())),
    Floor,
    lambda: Telepod(Color.RED),
    MovingObstacle,
    lambda: Telepod(Color.RED),
    Floor,
]

SHAPES = [(1, 1), (1, 4), (4, 1), (2, 3), (3, 5), (5, 3)]


def interesting_positions(height, width):
    ys = sorted({0, height // 2, height - 1})
    xs = sorted({0, width // 2, width - 1})
    return [Position(y, x) for y in ys for x in xs]


def make_state(shape, position, orientation, front_factory, held_factory):
    height, width = shape
    background = itt.cycle(BACKGROUND_FACTORIES)
    objects = [[next(background)() for _ in range(width)] for _ in range(height)]
    grid = Grid(objects)
    # the agent stands on something it can stand on
    grid[position] = Floor()
    agent = Agent(position, orientation, held_factory())
    front = agent.front()
    if grid.area.contains(front) and front_factory is not None:
        grid[front] = front_factory()
    return State(grid, agent)


def scenarios():
    for shape in SHAPES:
        for position in interesting_positions(*shape):
            for orientation in Orientation:
                agent = Agent(position, orientation)
                front_inside = (
                    0 <= agent.front().y < shape[0]
                    and 0 <= agent.front().x < shape[1]
                )
                front_factories = FRONT_FACTORIES if front_inside else [None]
                for front_factory in front_factories:
                    for held_factory in HELD_FACTORIES:
                        yield partial(
                            make_state,
                            shape,
                            position,
                            orientation,
                            front_factory,
                            held_factory,
                        )


# ---------------------------------------------------------------------------
# part 1: pickndrop alone


def scramble(state):
    """mutates everything mutable in a state"""
    for row in state.grid.objects:
        for obj in row:
            if isinstance(obj, Door):
                obj.state = (
                    Door.Status.OPEN
                    if obj.state is not Door.Status.OPEN
                    else Door.Status.LOCKED
                )
            if isinstance(obj, Box):
                obj.content = Wall()
            if isinstance(obj, (Key, Telepod, Exit, HoldableRock)):
                obj.color = (
                    Color.YELLOW if obj.color is not Color.YELLOW else Color.RED
                )
    held = state.agent.grid_object
    if isinstance(held, (Key, HoldableRock)):
        held.color = Color.GREEN if held.color is not Color.GREEN else Color.RED
    if isinstance(held, Box):
        held.content = Wall()
    if isinstance(held, Door):
        held.state = Door.Status.OPEN
    state.grid.objects[0][0] = Beacon(Color.BLUE)
    state.grid.objects[-1].reverse()
    state.agent.position = Position(0, 0)
    state.agent.orientation = state.agent.orientation * Orientation.R
    state.agent.grid_object = Beacon(Color.RED)


def expected_after_pickndrop(state, action):
    """hard-coded expectation table, written from the docstring of pickndrop

    Returns None when nothing may change, otherwise a pair
    (what sits in front afterwards, what is held afterwards) where each entry
    is either an existing instance or a type of which a *fresh* instance is
    expected.
    """
    if action is not Action.PICK_N_DROP:
        return None
    front = state.agent.front()
    if not state.grid.area.contains(front):
        return None
    obj_front = state.grid[front]
    obj_held = state.agent.grid_object
    holding = not isinstance(obj_held, NoneGridObject)
    if obj_front.holdable:
        # pick up (and swap if holding)
        return (obj_held if holding else Floor, obj_front)
    if isinstance(obj_front, Floor):
        # drop if holding, nothing visible otherwise
        return (obj_held if holding else Floor, NoneGridObject)
    return None


def part_pickndrop():
    n = 0
    for index, make in enumerate(scenarios()):
        for action in Action:
            # PICK_N_DROP on every scenario, every other action on a regular
            # sample of them (they must leave the state alone)
            if action is not Action.PICK_N_DROP and index % 8 != action.value:
                continue
            n += 1
            state = make()
            fp0 = fp_state(state)
            ids0 = mutable_ids(state)
            layout0 = identity_layout(state)
            hash0 = hash(state)

            # --- functional (copying) use
            next_state = transition_fs.transition_with_copy(
                transition_fs.pickndrop, state, action
            )
            check(fp_state(state) == fp0, f'input modified {fp0} {action}')
            check(mutable_ids(state) == ids0, 'input rewired')
            check(identity_layout(state) == layout0, 'input objects moved')
            check(hash(state) == hash0, 'input hash changed')
            check(
                not (mutable_ids(next_state) & ids0),
                f'next state shares a mutable component {fp0} {action}',
            )

            reference = copy.deepcopy(state)
            reference_pickndrop(reference, action)
            check(
                fp_state(next_state) == fp_state(reference),
                f'differs from reference {fp0} {action}: '
                f'{fp_state(next_state)} vs {fp_state(reference)}',
            )

            # --- asking again gives an equal answer
            again = transition_fs.transition_with_copy(
                transition_fs.pickndrop, state, action
            )
            check(fp_state(again) == fp_state(next_state), 'not repeatable')
            check(again == next_state, 'repeat not equal')
            check(hash(again) == hash(next_state), 'repeat hashes differently')
            check(
                not (mutable_ids(again) & mutable_ids(next_state)),
                'two answers share a mutable component',
            )

            # --- copies equal and hash like their originals
            clone = fast_copy(state)
            check(clone == state and hash(clone) == hash0, 'copy differs')
            check(fp_state(clone) == fp0, 'copy differs structurally')

            # --- in-place use: which instance ends up where
            inplace = make()
            expected = expected_after_pickndrop(inplace, action)
            layout_before = identity_layout(inplace)
            ids_before = mutable_ids(inplace)
            fp_before = fp_state(inplace)
            front = inplace.agent.front()
            result = transition_fs.pickndrop(inplace, action)
            check(result is None, 'transition functions return None')
            if expected is None:
                check(identity_layout(inplace) == layout_before, 'moved objects')
                check(fp_state(inplace) == fp_before, 'changed state')
                check(mutable_ids(inplace) == ids_before, 'rewired state')
            else:
                expected_front, expected_held = expected
                for (what, wanted) in [
                    (inplace.grid[front], expected_front),
                    (inplace.agent.grid_object, expected_held),
                ]:
                    if isinstance(wanted, type):
                        check(type(what) is wanted, f'{what} not a {wanted}')
                        check(id(what) not in ids_before, 'instance not fresh')
                    else:
                        check(what is wanted, f'{what} is not the instance')
                check(
                    inplace.grid[front] is not inplace.agent.grid_object,
                    'same instance in the cell and in hand',
                )
                # everything else stayed where it was
                rows_before, _ = layout_before
                rows_after, _ = identity_layout(inplace)
                for y, (row_b, row_a) in enumerate(zip(rows_before, rows_after)):
                    for x, (b, a) in enumerate(zip(row_b, row_a)):
                        if (y, x) != front.yx:
                            check(a == b, f'cell {(y, x)} changed')
                check(
                    fp_agent(inplace.agent)[:3] == fp_before[1][:3],
                    'agent pose changed',
                )
            check(
                fp_state(inplace) == fp_state(reference),
                'in-place result differs from reference',
            )

            # --- changing either afterwards cannot affect the other
            fp_next = fp_state(next_state)
            scramble(state)
            check(fp_state(next_state) == fp_next, 'next follows input')
            check(fp_state(again) == fp_next, 'second answer follows input')
            state = make()
            next_state = transition_fs.transition_with_copy(
                transition_fs.pickndrop, state, action
            )
            scramble(next_state)
            check(fp_state(state) == fp0, 'input follows next')
    return n


# ---------------------------------------------------------------------------
# part 2: the shipped composition, through GridWorld.functional_step

OBJECT_TYPES = [
    Floor,
    Wall,
    Exit,
    Door,
    Key,
    MovingObstacle,
    Box,
    Telepod,
    Beacon,
    HoldableRock,
]


def make_env(shape, pickndrop_function, observation_name, area, seed):
    transition_function = partial(
        transition_fs.chain,
        transition_functions=[
            transition_fs.move_agent,
            transition_fs.turn_agent,
            transition_fs.actuate_door,
            transition_fs.actuate_box,
            pickndrop_function,
            transition_fs.move_obstacles,
            transition_fs.teleport,
        ],
    )
    reward_function = partial(
        reward_fs.reduce_sum,
        reward_functions=[
            partial(reward_fs.living_reward, reward=-0.25),
            partial(reward_fs.reach_exit, reward_on=5.0),
            partial(reward_fs.bump_moving_obstacle, reward=-3.0),
            partial(reward_fs.bump_into_wall, reward=-0.5),
            partial(reward_fs.actuate_door, reward_open=2.0),
            partial(reward_fs.pickndrop, object_type=Key, reward_pick=0.75),
            partial(
                reward_fs.pickndrop,
                object_type=HoldableRock,
                reward_pick=0.125,
                reward_drop=-0.0625,
            ),
        ],
    )
    termination_function = partial(
        terminating_fs.reduce_any,
        terminating_functions=[
            terminating_fs.reach_exit,
            terminating_fs.bump_moving_obstacle,
            terminating_fs.bump_into_wall,
        ],
    )
    observation_function = partial(
        observation_fs.observation_function_registry[observation_name],
        area=area,
    )
    env = GridWorld(
        StateSpace(Shape(*shape), OBJECT_TYPES, list(Color)),
        ActionSpace(list(Action)),
        ObservationSpace(
            Shape(area.height, area.width), OBJECT_TYPES + [Hidden], list(Color)
        ),
        lambda *, rng=None: make_state(
            shape, Position(0, 0), Orientation.F, None, lambda: None
        ),
        transition_function,
        observation_function,
        reward_function,
        termination_function,
    )
    env.set_seed(seed)
    return env


def fp_observation(observation):
    return (fp_grid(observation.grid), fp_agent(observation.agent))


def part_gridworld():
    n = 0
    view_areas = [
        ('fully_transparent', Area((-4, 1), (-1, 3))),  # asymmetric
        ('partially_occluded', Area((-3, 0), (-1, 1))),
        ('raytracing', Area((-2, 2), (-3, 1))),
    ]
    all_makers = list(scenarios())
    for shape in SHAPES:
        makers = [
            make for make in all_makers if make.args[0] == shape
        ]
        # a regular sample of the scenarios of this shape
        makers = makers[:: max(1, len(makers) // 40)]
        envs = {}
        for name, area in view_areas:
            if area.width % 2 == 0:
                continue
            envs[name] = (
                make_env(shape, transition_fs.pickndrop, name, area, 7),
                make_env(shape, reference_pickndrop, name, area, 7),
                make_env(shape, transition_fs.pickndrop, name, area, 1234),
            )
        for index, make in enumerate(makers):
            name = list(envs)[index % len(envs)]
            env, env_reference, env_other = envs[name]
            for action in Action:
                n += 1
                state = make()
                fp0 = fp_state(state)
                ids0 = mutable_ids(state)
                hash0 = hash(state)
                seed = 100 + index

                env.set_seed(seed)
                next_state, reward, done = env.functional_step(state, action)
                observation = env.functional_observation(state)
                check(fp_state(state) == fp0, 'step/observation modified input')
                check(mutable_ids(state) == ids0, 'step rewired input')
                check(hash(state) == hash0, 'input hash changed')
                check(
                    not (mutable_ids(next_state) & ids0),
                    f'next state aliases input {fp0} {action}',
                )

                # the same question to the reference composition
                env_reference.set_seed(seed)
                ref_state, ref_reward, ref_done = env_reference.functional_step(
                    copy.deepcopy(state), action
                )
                check(
                    fp_state(next_state) == fp_state(ref_state),
                    f'step differs from reference {fp0} {action}',
                )
                check(reward == ref_reward and done == ref_done, 'r/d differ')
                check(type(reward) is type(ref_reward), 'reward type differs')

                # intervening calls: other environments, other states, the
                # resulting state, resets, library-level rng
                env_other.reset()
                for other_action in (Action.PICK_N_DROP, Action.ACTUATE):
                    env_other.step(other_action)
                    env_other.observation
                env_other.functional_step(next_state, Action.PICK_N_DROP)
                env_reference.functional_observation(next_state)
                transition_fs.pickndrop(fast_copy(state), Action.PICK_N_DROP)
                transition_fs.teleport(fast_copy(state), action)
                check(fp_state(state) == fp0, 'intervening calls modified input')
                fp_next = fp_state(next_state)

                # ask again (re-seeded: the chain contains stochastic parts)
                env.set_seed(seed)
                again_state, again_reward, again_done = env.functional_step(
                    state, action
                )
                again_observation = env.functional_observation(state)
                check(fp_state(again_state) == fp_next, 'step not repeatable')
                check(again_state == next_state, 'repeat not equal')
                check(hash(again_state) == hash(next_state), 'repeat hash')
                check(
                    (again_reward, again_done) == (reward, done),
                    'reward/termination not repeatable',
                )
                check(
                    fp_observation(again_observation)
                    == fp_observation(observation),
                    'observation not repeatable',
                )
                check(fp_state(state) == fp0, 'second call modified input')

                # reward and termination on their own are pure as well
                fp_pair = (fp_state(state), fp_state(next_state))
                r = env._reward_function(state, action, next_state)
                t = env._termination_function(state, action, next_state)
                check((r, t) == (reward, done), 'reward/termination differ')
                check(
                    (fp_state(state), fp_state(next_state)) == fp_pair,
                    'reward/termination modified a state',
                )

                # copies
                clone = fast_copy(next_state)
                check(
                    clone == next_state and hash(clone) == hash(next_state),
                    'copy of next state differs',
                )

                # independence under later mutation, both directions
                scramble(state)
                check(fp_state(next_state) == fp_next, 'next follows input')
                check(fp_state(again_state) == fp_next, 'again follows input')
                state = make()
                env.set_seed(seed)
                next_state, _, _ = env.functional_step(state, action)
                scramble(next_state)
                check(fp_state(state) == fp0, 'input follows next')
    return n


def main():
    n1 = part_pickndrop()
    n2 = part_gridworld()
    print(
        f'OK: {n1} pickndrop scenarios, {n2} functional_step scenarios, '
        f'{CHECKS} checks'
    )


if __name__ == '__main__':
    main()
