"""Demo for change A (table-driven ``get_next_position`` in ``envs/utils.py``).

Runs on the pristine tree and on the patched tree alike;  exits 0 when

1. ``get_next_position`` agrees with a reference implementation embedded here
   (the pre-change spelling) and with a hard-coded displacement table, on
   every heading (aliases included), every action, and positions inside,
   on the border of, and outside of the grid (negative ones included);
2. the consumers of ``get_next_position`` (``move_agent``, the
   ``bump_into_wall`` reward / terminating functions) behave as expected on
   hand-built states with the agent on every border cell facing every way;
3. closure and totality (property C01) hold on random walks through
   environments assembled from the built-in components, and on hand-built
   awkward states (non-square grids without a wall boundary, held items,
   unpaired telepods), with a fixed digest of the deterministic trajectories.
"""
import hashlib
import itertools as itt
import math
import os
import sys

import numpy as np

# run from the worktree root:  make `import gym_gridverse` pick up that tree
sys.path.insert(0, os.getcwd())

from gym_gridverse.action import Action
from gym_gridverse.agent import Agent
from gym_gridverse.envs import observation_functions as observation_fs
from gym_gridverse.envs import reset_functions as reset_fs
from gym_gridverse.envs import reward_functions as reward_fs
from gym_gridverse.envs import terminating_functions as terminating_fs
from gym_gridverse.envs import transition_functions as transition_fs
from gym_gridverse.envs.gridworld import GridWorld
from gym_gridverse.envs.utils import get_next_position
from gym_gridverse.geometry import Area, Orientation, Position, Shape
from gym_gridverse.grid import Grid
from gym_gridverse.grid_object import (
    Beacon,
    Box,
    Color,
    Door,
    Exit,
    Floor,
    Key,
    MovingObstacle,
    NoneGridObject,
    Telepod,
    Wall,
)
from gym_gridverse.spaces import ActionSpace, ObservationSpace, StateSpace
from gym_gridverse.state import State
from gym_gridverse.utils.fast_copy import fast_copy

CHECKS = 0


def check(condition, message):
    global CHECKS
    CHECKS += 1
    if not condition:
        print(f'FAIL: {message}')
        sys.exit(1)


# --------------------------------------------------------------------------
# 1. get_next_position against a reference and a hard-coded table
# --------------------------------------------------------------------------

_REFERENCE_MOVE_ORIENTATION = {
    Action.MOVE_FORWARD: Orientation.F,
    Action.MOVE_LEFT: Orientation.L,
    Action.MOVE_RIGHT: Orientation.R,
    Action.MOVE_BACKWARD: Orientation.B,
}


def reference_get_next_position(position, orientation, action):
    """the pre-change spelling, copied verbatim"""
    try:
        move_orientation = _REFERENCE_MOVE_ORIENTATION[action]
    except KeyError:
        return position

    return position + Position.from_orientation(orientation * move_orientation)


# (dy, dx) for every heading and movement action;  y grows downward, the
# agent's "forward" is up when its orientation is F(ORWARD)
EXPECTED_DISPLACEMENTS = {
    (Orientation.F, Action.MOVE_FORWARD): (-1, 0),
    (Orientation.F, Action.MOVE_BACKWARD): (1, 0),
    (Orientation.F, Action.MOVE_LEFT): (0, -1),
    (Orientation.F, Action.MOVE_RIGHT): (0, 1),
    (Orientation.B, Action.MOVE_FORWARD): (1, 0),
    (Orientation.B, Action.MOVE_BACKWARD): (-1, 0),
    (Orientation.B, Action.MOVE_LEFT): (0, 1),
    (Orientation.B, Action.MOVE_RIGHT): (0, -1),
    (Orientation.L, Action.MOVE_FORWARD): (0, -1),
    (Orientation.L, Action.MOVE_BACKWARD): (0, 1),
    (Orientation.L, Action.MOVE_LEFT): (1, 0),
    (Orientation.L, Action.MOVE_RIGHT): (-1, 0),
    (Orientation.R, Action.MOVE_FORWARD): (0, 1),
    (Orientation.R, Action.MOVE_BACKWARD): (0, -1),
    (Orientation.R, Action.MOVE_LEFT): (-1, 0),
    (Orientation.R, Action.MOVE_RIGHT): (1, 0),
}

ALL_ORIENTATIONS = [
    Orientation.FORWARD,
    Orientation.BACKWARD,
    Orientation.LEFT,
    Orientation.RIGHT,
    Orientation.F,
    Orientation.B,
    Orientation.L,
    Orientation.R,
]


def check_get_next_position():
    coordinates = list(range(-4, 9)) + [-1000, 1000, 2**40]
    for y, x in itt.product(coordinates, repeat=2):
        for orientation in ALL_ORIENTATIONS:
            for action in Action:
                position = Position(y, x)
                result = get_next_position(position, orientation, action)
                expected = reference_get_next_position(
                    position, orientation, action
                )
                check(
                    type(result) is Position and result == expected,
                    f'get_next_position({position}, {orientation}, {action}) '
                    f'= {result}, expected {expected}',
                )
                # the argument is never changed
                check(position == Position(y, x), 'argument mutated')

                if action.is_move():
                    dy, dx = EXPECTED_DISPLACEMENTS[orientation, action]
                    check(
                        result.yx == (y + dy, x + dx),
                        f'table mismatch for {orientation} {action}',
                    )
                else:
                    check(result is position, 'non-move returns the argument')

    # repeated calls do not accumulate anything (shared table entries)
    position = Position(2, 3)
    for _ in range(1000):
        position = get_next_position(
            position, Orientation.R, Action.MOVE_FORWARD
        )
    check(position == Position(2, 1003), 'repeated calls')
    check(
        get_next_position(Position(0, 0), Orientation.R, Action.MOVE_FORWARD)
        == Position(0, 1),
        'shared displacement corrupted by repeated calls',
    )
    # the result is a fresh, independent value
    a = get_next_position(Position(0, 0), Orientation.F, Action.MOVE_LEFT)
    b = get_next_position(Position(5, 5), Orientation.F, Action.MOVE_LEFT)
    check(a == Position(0, -1) and b == Position(5, 4), 'independent results')

    # hashable non-actions are treated as "no movement", as before
    for weird in [None, 0, 'MOVE_FORWARD', Orientation.F]:
        check(
            get_next_position(Position(1, 1), Orientation.F, weird)
            == Position(1, 1),
            f'non-action {weird!r}',
        )


# --------------------------------------------------------------------------
# 2. consumers of get_next_position on border states
# --------------------------------------------------------------------------


def open_grid(height, width):
    """grid without a wall boundary:  the agent can stand on the very edge"""
    return Grid.from_shape((height, width))


def check_consumers():
    reward_bump = reward_fs.factory('bump_into_wall', reward=-3.0)
    for height, width in [(1, 1), (1, 4), (4, 1), (2, 3), (3, 5), (5, 3)]:
        for y, x in itt.product(range(height), range(width)):
            for orientation in ALL_ORIENTATIONS[:4]:
                for action in Action:
                    for wall_ahead in [False, True]:
                        grid = open_grid(height, width)
                        state = State(
                            grid, Agent(Position(y, x), orientation)
                        )
                        target = reference_get_next_position(
                            Position(y, x), orientation, action
                        )
                        inside = grid.area.contains(target)
                        if wall_ahead and inside and action.is_move():
                            grid[target] = Wall()

                        next_state = fast_copy(state)
                        transition_fs.move_agent(next_state, action)

                        expected_position = (
                            target
                            if action.is_move()
                            and inside
                            and not isinstance(grid[target], Wall)
                            else Position(y, x)
                        )
                        check(
                            next_state.agent.position == expected_position,
                            f'move_agent {height}x{width} {(y, x)} '
                            f'{orientation} {action}',
                        )
                        check(
                            next_state.agent.orientation is orientation,
                            'move_agent changed orientation',
                        )
                        check(
                            next_state.grid == state.grid,
                            'move_agent changed grid',
                        )
                        check(
                            grid.area.contains(next_state.agent.position),
                            'agent left the grid',
                        )

                        bumps = (
                            action.is_move()
                            and inside
                            and isinstance(grid[target], Wall)
                        )
                        terminal = terminating_fs.bump_into_wall(
                            state, action, next_state
                        )
                        check(
                            terminal is bumps,
                            f'terminating bump_into_wall {terminal!r} '
                            f'!= {bumps!r}',
                        )
                        reward = reward_bump(state, action, next_state)
                        check(
                            isinstance(reward, float)
                            and reward == (-3.0 if bumps else 0.0),
                            f'reward bump_into_wall {reward!r}',
                        )

    # agent standing *on* a wall (legal state):  non-move actions leave the
    # tentative position on the agent's own (wall) cell
    grid = open_grid(3, 3)
    grid[1, 1] = Wall()
    state = State(grid, Agent(Position(1, 1), Orientation.L))
    for action in Action:
        expected = not action.is_move()
        check(
            terminating_fs.bump_into_wall(state, action, state) is expected,
            f'agent on wall, {action}',
        )


# --------------------------------------------------------------------------
# 3. closure and totality on assembled environments
# --------------------------------------------------------------------------

ALL_ACTIONS = list(Action)
MOVE_TURN_ACTIONS = [
    Action.MOVE_FORWARD,
    Action.MOVE_BACKWARD,
    Action.MOVE_LEFT,
    Action.MOVE_RIGHT,
    Action.TURN_LEFT,
    Action.TURN_RIGHT,
]


def make_env(
    shape,
    objects,
    colors,
    actions,
    reset,
    transitions,
    rewards,
    observation,
    terminating,
    view=Area((-6, 0), (-3, 3)),
):
    transition_functions = [
        transition_fs.factory(name, **kwargs) for name, kwargs in transitions
    ]
    reward_functions = [
        reward_fs.factory(name, **kwargs) for name, kwargs in rewards
    ]
    reset_name, reset_kwargs = reset
    observation_name, observation_kwargs = observation
    terminating_name, terminating_kwargs = terminating
    return GridWorld(
        StateSpace(shape, objects, colors),
        ActionSpace(actions),
        ObservationSpace(Shape(view.height, view.width), objects, colors),
        reset_fs.factory(reset_name, shape=shape, **reset_kwargs),
        transition_fs.factory(
            'chain', transition_functions=transition_functions
        ),
        observation_fs.factory(
            observation_name, area=view, **observation_kwargs
        ),
        reward_fs.factory('reduce_sum', reward_functions=reward_functions),
        terminating_fs.factory(terminating_name, **terminating_kwargs),
    )


def tf(name, **kwargs):
    return terminating_fs.factory(name, **kwargs)


COMMON_REWARDS = [
    ('reach_exit', dict(reward_on=5.0, reward_off=0.0)),
    (
        'getting_closer',
        dict(
            distance_function=Position.manhattan_distance,
            object_type=Exit,
            reward_closer=0.2,
            reward_further=-0.2,
        ),
    ),
    ('bump_into_wall', dict(reward=-1.0)),
    ('living_reward', dict(reward=-0.05)),
]


def make_envs():
    envs = {}

    envs['empty_4x7'] = make_env(
        Shape(4, 7),
        [Wall, Floor, Exit],
        [Color.NONE],
        MOVE_TURN_ACTIONS,
        ('empty', dict(random_agent=True, random_exit=True)),
        [('move_agent', {}), ('turn_agent', {})],
        COMMON_REWARDS,
        ('fully_transparent', {}),
        ('reach_exit', {}),
    )

    envs['keydoor_5x8'] = make_env(
        Shape(5, 8),
        [Wall, Floor, Exit, Door, Key],
        [Color.NONE, Color.YELLOW],
        ALL_ACTIONS,
        ('keydoor', {}),
        [
            ('move_agent', {}),
            ('turn_agent', {}),
            ('actuate_door', {}),
            ('pickndrop', {}),
        ],
        COMMON_REWARDS
        + [
            (
                'pickndrop',
                dict(object_type=Key, reward_pick=1.0, reward_drop=-1.0),
            ),
            ('actuate_door', dict(reward_open=1.0, reward_close=-1.0)),
        ],
        ('raytracing', {}),
        ('reach_exit', {}),
        view=Area((-4, 1), (-1, 3)),  # asymmetric, sees behind the agent
    )

    envs['dynamic_obstacles_6x5'] = make_env(
        Shape(6, 5),
        [Wall, Floor, Exit, MovingObstacle],
        [Color.NONE],
        MOVE_TURN_ACTIONS,
        ('dynamic_obstacles', dict(num_obstacles=2, random_agent=True)),
        [('move_agent', {}), ('turn_agent', {}), ('move_obstacles', {})],
        COMMON_REWARDS + [('bump_moving_obstacle', dict(reward=-1.0))],
        ('raytracing', {}),
        (
            'reduce_any',
            dict(
                terminating_functions=[
                    tf('reach_exit'),
                    tf('bump_moving_obstacle'),
                    tf('bump_into_wall'),
                ]
            ),
        ),
    )

    envs['teleport_5x7'] = make_env(
        Shape(5, 7),
        [Wall, Floor, Exit, Telepod],
        [Color.NONE, Color.RED],
        MOVE_TURN_ACTIONS,
        ('teleport', {}),
        [('move_agent', {}), ('turn_agent', {}), ('teleport', {})],
        COMMON_REWARDS,
        ('partially_occluded', {}),
        (
            'reduce_all',
            dict(
                terminating_functions=[
                    tf('reach_exit'),
                    tf('overlap', object_type=Exit),
                ]
            ),
        ),
    )

    envs['memory_5x7'] = make_env(
        Shape(5, 7),
        [Wall, Floor, Exit, Beacon],
        [Color.NONE, Color.RED, Color.GREEN, Color.BLUE],
        MOVE_TURN_ACTIONS,
        ('memory', dict(colors=[Color.RED, Color.GREEN, Color.BLUE])),
        [('move_agent', {}), ('turn_agent', {})],
        [
            ('reach_exit_memory', dict(reward_good=5.0, reward_bad=-5.0)),
            ('living_reward', dict(reward=-0.05)),
        ],
        ('partially_occluded', {}),
        ('reach_exit', {}),
        view=Area((-2, 0), (-1, 1)),
    )

    envs['crossing_7x9'] = make_env(
        Shape(7, 9),
        [Wall, Floor, Exit],
        [Color.NONE],
        MOVE_TURN_ACTIONS,
        ('crossing', dict(num_rivers=2, object_type=Wall)),
        [('move_agent', {}), ('turn_agent', {})],
        COMMON_REWARDS,
        ('partially_occluded', {}),
        (
            'reduce_any',
            dict(terminating_functions=[tf('reach_exit'), tf('bump_into_wall')]),
        ),
    )

    envs['four_rooms_7x9'] = make_env(
        Shape(7, 9),
        [Wall, Floor, Exit],
        [Color.NONE],
        ALL_ACTIONS,
        ('rooms', dict(layout=(2, 2))),
        [('move_agent', {}), ('turn_agent', {})],
        COMMON_REWARDS,
        ('raytracing', {}),
        ('reach_exit', {}),
    )

    return envs


def state_signature(state):
    return repr(
        (
            [
                [repr(state.grid[y, x]) for x in range(state.grid.shape.width)]
                for y in range(state.grid.shape.height)
            ],
            state.agent.position.yx,
            state.agent.orientation.name,
            repr(state.agent.grid_object),
        )
    )


def check_transition(env, name, state, action):
    """one step from `state`;  returns (next_state, reward, done)"""
    before = fast_copy(state)
    next_state, reward, done = env.functional_step(state, action)

    check(state == before, f'{name}: input state was mutated')
    check(
        env.state_space.contains(next_state),
        f'{name}: next state outside the state space ({action})',
    )
    check(
        next_state.grid.shape == env.state_space.grid_shape,
        f'{name}: grid shape changed',
    )
    check(
        next_state.grid.area.contains(next_state.agent.position),
        f'{name}: agent outside the grid',
    )
    check(
        type(next_state.agent.grid_object)
        in set(env.state_space.object_types) | {NoneGridObject},
        f'{name}: undeclared held item',
    )
    check(
        isinstance(reward, float) and math.isfinite(reward),
        f'{name}: reward {reward!r}',
    )
    check(isinstance(done, bool), f'{name}: done flag {done!r}')

    observation = env.functional_observation(next_state)
    check(
        env.observation_space.contains(observation),
        f'{name}: observation outside the observation space',
    )
    return next_state, reward, done


def check_invalid_actions(env, name, state):
    before = fast_copy(state)
    invalid = [a for a in Action if not env.action_space.contains(a)]
    for action in invalid + [None, 3, 'MOVE_FORWARD']:
        try:
            env.functional_step(state, action)
        except ValueError:
            pass
        else:
            check(False, f'{name}: invalid action {action!r} accepted')
        check(state == before, f'{name}: rejected action changed the state')


def check_random_walks(envs):
    digest = hashlib.sha256()
    for name, env in envs.items():
        for seed in [0, 1, 2]:
            env.set_seed(seed)
            walk_rng = np.random.default_rng(1000 + seed)
            env.reset()
            check(
                env.state_space.contains(env.state),
                f'{name}: reset state outside the state space',
            )
            check(
                env.observation_space.contains(env.observation),
                f'{name}: reset observation outside the observation space',
            )
            check_invalid_actions(env, name, env.state)

            for _ in range(120):
                actions = env.action_space.actions
                action = actions[walk_rng.integers(len(actions))]
                state = env.state
                next_state, reward, done = check_transition(
                    env, name, state, action
                )
                digest.update(state_signature(next_state).encode())
                digest.update(repr((action.name, reward, done)).encode())
                if done:
                    env.reset()
                else:
                    # continue the walk from the checked next state
                    env._state = next_state
                    env._observation = None

        # every action from the reset state, twice (repeated calls)
        env.set_seed(7)
        env.reset()
        for action in env.action_space.actions * 2:
            check_transition(env, name, env.state, action)

    return digest.hexdigest()


def check_awkward_states():
    """hand-built states:  no wall boundary, agent on edges facing outward"""
    objects = [Wall, Floor, Exit, Door, Key, Box, Telepod, MovingObstacle]
    colors = [Color.NONE, Color.RED, Color.BLUE]
    count = 0
    for shape in [Shape(1, 1), Shape(1, 5), Shape(4, 1), Shape(3, 4)]:
        view = Area((-3, 1), (-2, 2))
        env = GridWorld(
            StateSpace(shape, objects, colors),
            ActionSpace(ALL_ACTIONS),
            ObservationSpace(Shape(view.height, view.width), objects, colors),
            lambda *, rng=None: State(
                Grid.from_shape(shape), Agent(Position(0, 0), Orientation.F)
            ),
            transition_fs.factory(
                'chain',
                transition_functions=[
                    transition_fs.factory(name)
                    for name in [
                        'move_agent',
                        'turn_agent',
                        'actuate_door',
                        'actuate_box',
                        'pickndrop',
                        'teleport',
                        'move_obstacles',
                    ]
                ],
            ),
            observation_fs.factory('raytracing', area=view),
            reward_fs.factory(
                'reduce_sum',
                reward_functions=[
                    reward_fs.factory('bump_into_wall', reward=-1.0),
                    reward_fs.factory('living_reward', reward=-0.1),
                    reward_fs.factory('bump_moving_obstacle', reward=-1.0),
                ],
            ),
            terminating_fs.factory(
                'reduce_any',
                terminating_functions=[
                    tf('reach_exit'),
                    tf('bump_into_wall'),
                    tf('bump_moving_obstacle'),
                ],
            ),
        )
        env.set_seed(3)

        def decorate(grid, variant):
            cells = list(grid.area.positions())
            fillers = [
                [],
                [Telepod(Color.RED)],  # unpaired telepod
                [Wall(), Key(Color.BLUE), Exit()],
                [
                    Door(Door.Status.LOCKED, Color.BLUE),
                    Box(Key(Color.RED)),
                    MovingObstacle(),
                    Telepod(Color.RED),
                    Telepod(Color.RED),
                ],
            ][variant]
            for cell, obj in zip(reversed(cells), fillers):
                grid[cell] = obj

        for variant in range(4):
            for y, x in itt.product(range(shape.height), range(shape.width)):
                for orientation in ALL_ORIENTATIONS[:4]:
                    for held in [None, Key(Color.BLUE), Key(Color.RED)]:
                        grid = Grid.from_shape(shape)
                        decorate(grid, variant)
                        state = State(
                            grid, Agent(Position(y, x), orientation, held)
                        )
                        if not env.state_space.contains(state):
                            continue
                        for action in ALL_ACTIONS:
                            check_transition(
                                env, f'awkward {shape}', state, action
                            )
                            count += 1
    check(count > 2000, f'too few awkward transitions ({count})')


# sha256 over the seeded random walks (recorded on the pristine tree)
EXPECTED_DIGEST = (
    '426b9d61962c60ea5cc1f57c339f2668082a0988502d17c9f9b8a28c79784c68'
)


def main():
    check_get_next_position()
    check_consumers()

    # two independently built sets of environments in one process
    envs = make_envs()
    digest = check_random_walks(envs)
    digest_again = check_random_walks(make_envs())
    check(digest == digest_again, 're-seeded walks are not reproducible')
    if EXPECTED_DIGEST is not None:
        check(
            digest == EXPECTED_DIGEST,
            f'trajectory digest changed: {digest}',
        )

    check_awkward_states()
    print(f'OK ({CHECKS} checks, digest {digest})')


if __name__ == '__main__':
    main()
