"""C02 demo (change B): off-grid-guarded object lookup in transition /
reward / terminating functions.

Exits 0 on the pristine tree and with the patch applied.  Checks

1. ``move_agent``, ``pickndrop``, ``move_obstacles``, ``actuate_door``,
   ``actuate_box`` (transitions), ``bump_into_wall`` (terminating and reward)
   and ``actuate_door`` (reward) against reference implementations embedded
   here (the pre-refactoring spelling): same resulting state, same return
   value (and type), same generator state, same object identities (no copy
   where there was an alias), on random states with the agent on borders and
   in corners, all headings, all actions, non-square (down to 1x1) grids and
   every object type;
2. env-level reproducibility of seeded GridWorlds (keydoor, dynamic
   obstacles), alone / interleaved / re-seeded / across PYTHONHASHSEED / -O,
   and isolation from the library-level generator, ``numpy.random``, ``random``.
"""
import copy
import hashlib
import os
import random
import subprocess
import sys
from functools import partial

sys.path.insert(0, os.getcwd())

import numpy as np
import numpy.random as rnd

import gym_gridverse.rng as gv_rng
from gym_gridverse.action import Action
from gym_gridverse.agent import Agent
from gym_gridverse.envs import observation_functions as observation_fs
from gym_gridverse.envs import reset_functions as reset_fs
from gym_gridverse.envs import reward_functions as reward_fs
from gym_gridverse.envs import terminating_functions as terminating_fs
from gym_gridverse.envs import transition_functions as transition_fs
from gym_gridverse.envs.gridworld import GridWorld
from gym_gridverse.envs.utils import get_next_position
from gym_gridverse.geometry import (
    Area,
    Orientation,
    Position,
    Shape,
    get_manhattan_boundary,
)
from gym_gridverse.grid import Grid
from gym_gridverse.grid_object import (
    Beacon,
    Box,
    Color,
    Door,
    Exit,
    Floor,
    Key,
    MovingObstacle,
    NoneGridObject,
    Telepod,
    Wall,
)
from gym_gridverse.spaces import ActionSpace, ObservationSpace, StateSpace
from gym_gridverse.state import State

# ---------------------------------------------------------------- utilities


def obj_key(obj):
    key = (type(obj).__name__, int(obj.state_index), obj.color.name)
    if isinstance(obj, Box):
        key += (obj_key(obj.content),)
    return key


def state_key(state):
    grid = tuple(
        obj_key(state.grid[Position(y, x)])
        for y in range(state.grid.shape.height)
        for x in range(state.grid.shape.width)
    )
    agent = (
        state.agent.position.y,
        state.agent.position.x,
        state.agent.orientation.name,
        obj_key(state.agent.grid_object),
    )
    return (state.grid.shape.height, state.grid.shape.width, grid, agent)


def identity_key(state, universe):
    """where (by identity) each of the original objects is now"""
    index = {id(obj): i for i, obj in enumerate(universe)}
    cells = tuple(
        index.get(id(state.grid[Position(y, x)]), -1)
        for y in range(state.grid.shape.height)
        for x in range(state.grid.shape.width)
    )
    return cells, index.get(id(state.agent.grid_object), -1)


def rng_key(rng):
    return repr(rng.bit_generator.state)


# ------------------------------------------- reference (old) implementations


def ref_move_agent(state, action, *, rng=None):
    if not action.is_move():
        return
    next_position = get_next_position(
        state.agent.position, state.agent.orientation, action
    )
    if not state.grid.area.contains(next_position):
        return
    obj = state.grid[next_position]
    if not obj.blocks_movement:
        state.agent.position = next_position


def ref_pickndrop(state, action, *, rng=None):
    if action is not Action.PICK_N_DROP:
        return
    position_front = state.agent.front()
    if not state.grid.area.contains(position_front):
        return
    obj_front = state.grid[position_front]
    can_be_dropped = isinstance(obj_front, Floor) or obj_front.holdable
    if not can_be_dropped:
        return
    state.grid[position_front] = (
        state.agent.grid_object
        if not isinstance(state.agent.grid_object, NoneGridObject)
        and can_be_dropped
        else Floor()
    )
    state.agent.grid_object = (
        obj_front if obj_front.holdable else NoneGridObject()
    )


def ref_move_obstacles(state, action, *, rng):
    positions = [
        position
        for position in state.grid.area.positions()
        if isinstance(state.grid[position], MovingObstacle)
    ]
    for position in positions:
        next_positions = [
            next_position
            for next_position in get_manhattan_boundary(position, distance=1)
            if state.grid.area.contains(next_position)
            and isinstance(state.grid[next_position], Floor)
        ]
        try:
            i = rng.choice(len(next_positions))
        except ValueError:
            pass
        else:
            state.grid.swap(position, next_positions[i])


def ref_actuate_door(state, action, *, rng=None):
    if action is not Action.ACTUATE:
        return
    position = state.agent.front()
    if not state.grid.area.contains(position):
        return
    door = state.grid[position]
    if not isinstance(door, Door):
        return
    if door.is_open:
        pass
    elif not door.is_locked:
        door.state = Door.Status.OPEN
    else:
        if (
            isinstance(state.agent.grid_object, Key)
            and state.agent.grid_object.color == door.color
        ):
            door.state = Door.Status.OPEN


def ref_actuate_box(state, action, *, rng=None):
    if action is not Action.ACTUATE:
        return
    position = state.agent.front()
    if not state.grid.area.contains(position):
        return
    box = state.grid[position]
    if isinstance(box, Box):
        state.grid[position] = box.content


def ref_term_bump_into_wall(state, action, next_state):
    next_position = get_next_position(
        state.agent.position, state.agent.orientation, action
    )
    return state.grid.area.contains(next_position) and isinstance(
        state.grid[next_position], Wall
    )


def ref_reward_bump_into_wall(state, action, next_state, *, reward=-1.0):
    next_position = get_next_position(
        state.agent.position, state.agent.orientation, action
    )
    return (
        reward
        if state.grid.area.contains(next_position)
        and isinstance(state.grid[next_position], Wall)
        else 0.0
    )


def ref_reward_actuate_door(
    state, action, next_state, *, reward_open=1.0, reward_close=-1.0
):
    if action is not Action.ACTUATE:
        return 0.0
    position = state.agent.front()
    if not state.grid.area.contains(position):
        return 0.0
    door = state.grid[position]
    if not isinstance(door, Door):
        return 0.0
    next_door = next_state.grid[position]
    if not isinstance(next_door, Door):
        return 0.0
    return (
        reward_open
        if not door.is_open and next_door.is_open
        else reward_close
        if door.is_open and not next_door.is_open
        else 0.0
    )


TRANSITIONS = [
    ('move_agent', transition_fs.move_agent, ref_move_agent),
    ('pickndrop', transition_fs.pickndrop, ref_pickndrop),
    ('move_obstacles', transition_fs.move_obstacles, ref_move_obstacles),
    ('actuate_door', transition_fs.actuate_door, ref_actuate_door),
    ('actuate_box', transition_fs.actuate_box, ref_actuate_box),
]

# ------------------------------------------------------------ random states

COLORS = [Color.NONE, Color.RED, Color.YELLOW]


def random_object(gen, depth=0):
    makers = [
        lambda: Floor(),
        lambda: Floor(),
        lambda: Wall(),
        lambda: Exit(),
        lambda: Door(gen.choice(list(Door.Status)), gen.choice(COLORS)),
        lambda: Key(gen.choice(COLORS)),
        lambda: MovingObstacle(),
        lambda: Telepod(gen.choice(COLORS)),
        lambda: Beacon(gen.choice(COLORS)),
    ]
    if depth < 2:
        makers.append(lambda: Box(random_object(gen, depth + 1)))
    return gen.choice(makers)()


def random_state(gen, height, width):
    objects = [
        [random_object(gen) for _ in range(width)] for _ in range(height)
    ]
    # bias the agent towards borders and corners
    y = gen.choice([0, height - 1, gen.randrange(height)])
    x = gen.choice([0, width - 1, gen.randrange(width)])
    held = gen.choice(
        [NoneGridObject(), NoneGridObject(), Key(gen.choice(COLORS))]
    )
    agent = Agent(Position(y, x), gen.choice(list(Orientation)), held)
    return State(Grid(objects), agent)


def universe_of(state):
    objs = [obj for row in state.grid.objects for obj in row]
    objs += [obj.content for obj in objs if isinstance(obj, Box)]
    objs.append(state.agent.grid_object)
    return objs


def twin(state):
    """deep copy + the list of its objects in the same order as the original"""
    other = copy.deepcopy(state)
    return other, universe_of(other)


def test_reference_equivalence():
    gen = random.Random(2026_09_27)
    shapes = [(1, 1), (1, 4), (4, 1), (2, 2), (2, 5), (5, 3), (6, 6)]
    n = 0
    for height, width in shapes:
        for _ in range(30):
            base = random_state(gen, height, width)
            seed = gen.randrange(2 ** 32)
            for action in Action:
                for name, lib_f, ref_f in TRANSITIONS:
                    s_lib, u_lib = twin(base)
                    s_ref, u_ref = twin(base)
                    r_lib, r_ref = rnd.default_rng(seed), rnd.default_rng(seed)
                    before = twin(base)[0]
                    out_lib = lib_f(s_lib, action, rng=r_lib)
                    out_ref = ref_f(s_ref, action, rng=r_ref)
                    ctx = (name, action, state_key(base))
                    assert out_lib is None and out_ref is None, ctx
                    assert state_key(s_lib) == state_key(s_ref), ctx
                    assert rng_key(r_lib) == rng_key(r_ref), ctx
                    assert identity_key(s_lib, u_lib) == identity_key(
                        s_ref, u_ref
                    ), ctx
                    # door opened in place (alias, not copy)
                    if name == 'actuate_door':
                        assert all(o >= 0 for o in identity_key(s_lib, u_lib)[0])

                    # rewards / terminations on (state, action, next_state)
                    for s, ns in ((before, s_lib), (s_lib, before)):
                        t_lib = terminating_fs.bump_into_wall(s, action, ns)
                        t_ref = ref_term_bump_into_wall(s, action, ns)
                        assert t_lib is t_ref and type(t_lib) is bool, ctx
                        for reward in (-1.0, 0.25, 3):
                            w_lib = reward_fs.bump_into_wall(
                                s, action, ns, reward=reward
                            )
                            w_ref = ref_reward_bump_into_wall(
                                s, action, ns, reward=reward
                            )
                            assert w_lib == w_ref, ctx
                            assert type(w_lib) is type(w_ref), ctx
                        d_lib = reward_fs.actuate_door(
                            s, action, ns, reward_open=2.0, reward_close=-3.0
                        )
                        d_ref = ref_reward_actuate_door(
                            s, action, ns, reward_open=2.0, reward_close=-3.0
                        )
                        assert d_lib == d_ref and type(d_lib) is float, ctx
                        assert state_key(s) == state_key(
                            before if s is before else s_ref
                        ), ctx
                    n += 1

    # hand-made: 1x1 grid, every heading, every action -- everything is off-grid
    for orientation in Orientation:
        for action in Action:
            state = State(
                Grid([[Floor()]]),
                Agent(Position(0, 0), orientation, Key(Color.RED)),
            )
            key = state_key(state)
            for _, lib_f, _ in TRANSITIONS:
                lib_f(state, action, rng=rnd.default_rng(0))
            assert state_key(state) == key
            assert terminating_fs.bump_into_wall(state, action, state) is False
            assert reward_fs.bump_into_wall(state, action, state) == 0.0
            assert reward_fs.actuate_door(state, action, state) == 0.0

    # hand-made: wrap-around must not happen.  Agent in the top-left corner
    # facing up / left, with walls, a door and a box on the opposite borders
    # (where negative indices would land)
    for orientation, action in [
        (Orientation.F, Action.MOVE_FORWARD),
        (Orientation.F, Action.MOVE_LEFT),
        (Orientation.L, Action.MOVE_FORWARD),
        (Orientation.F, Action.ACTUATE),
        (Orientation.L, Action.ACTUATE),
        (Orientation.F, Action.PICK_N_DROP),
        (Orientation.L, Action.PICK_N_DROP),
    ]:
        objects = [
            [Floor(), Floor(), Door(Door.Status.CLOSED, Color.RED)],
            [Floor(), Floor(), Wall()],
            [Box(Key(Color.RED)), Wall(), Key(Color.YELLOW)],
        ]
        state = State(Grid(objects), Agent(Position(0, 0), orientation))
        key = state_key(state)
        for _, lib_f, _ in TRANSITIONS:
            lib_f(state, action, rng=rnd.default_rng(0))
        assert state_key(state) == key, (orientation, action)
        assert terminating_fs.bump_into_wall(state, action, state) is False
        assert reward_fs.bump_into_wall(state, action, state) == 0.0
        assert reward_fs.actuate_door(state, action, state) == 0.0

    # hand-made: picked-up key is the grid's key object; dropped one too
    key_obj = Key(Color.RED)
    state = State(
        Grid([[Floor(), key_obj]]), Agent(Position(0, 0), Orientation.R)
    )
    transition_fs.pickndrop(state, Action.PICK_N_DROP)
    assert state.agent.grid_object is key_obj
    assert type(state.grid[Position(0, 1)]) is Floor
    transition_fs.pickndrop(state, Action.PICK_N_DROP)
    assert state.grid[Position(0, 1)] is key_obj
    assert isinstance(state.agent.grid_object, NoneGridObject)
    return n


# ------------------------------------------------------------- environments


def make_env(kind, shape, area):
    if kind == 'dynamic_obstacles':
        reset = partial(
            reset_fs.dynamic_obstacles,
            shape,
            num_obstacles=4,
            random_agent=True,
        )
        object_types = [Floor, Wall, Exit, MovingObstacle]
        colors = [Color.NONE]
    else:
        reset = partial(reset_fs.keydoor, shape)
        object_types = [Floor, Wall, Exit, Door, Key]
        colors = [Color.NONE, Color.YELLOW]

    transition = partial(
        transition_fs.chain,
        transition_functions=[
            transition_fs.turn_agent,
            transition_fs.move_agent,
            transition_fs.actuate_door,
            transition_fs.actuate_box,
            transition_fs.pickndrop,
            transition_fs.move_obstacles,
        ],
    )
    reward = partial(
        reward_fs.reduce_sum,
        reward_functions=[
            partial(reward_fs.living_reward, reward=-0.1),
            partial(reward_fs.bump_into_wall, reward=-0.5),
            partial(
                reward_fs.actuate_door, reward_open=1.5, reward_close=-1.5
            ),
            partial(reward_fs.bump_moving_obstacle, reward=-1.0),
            partial(reward_fs.reach_exit, reward_on=5.0, reward_off=0.0),
        ],
    )
    terminating = partial(
        terminating_fs.reduce_any,
        terminating_functions=[
            terminating_fs.reach_exit,
            terminating_fs.bump_moving_obstacle,
        ]
        + ([terminating_fs.bump_into_wall] if shape.width > 7 else []),
    )
    observation = partial(
        observation_fs.partially_occluded
        if area.ymax == 0 and area.xmin == -area.xmax
        else observation_fs.stochastic_raytracing,
        area=area,
    )

    return GridWorld(
        StateSpace(shape, object_types, colors),
        ActionSpace(list(Action)),
        ObservationSpace(Shape(area.height, area.width), object_types, colors),
        reset,
        transition,
        observation,
        reward,
        terminating,
    )


CONFIGS = [
    ('keydoor', Shape(5, 7), Area((-4, 0), (-2, 2))),
    ('keydoor', Shape(9, 6), Area((-2, 1), (-1, 3))),
    ('keydoor', Shape(4, 9), Area((-6, 0), (-3, 3))),
    ('dynamic_obstacles', Shape(7, 9), Area((-3, 0), (-1, 1))),
    ('dynamic_obstacles', Shape(5, 5), Area((-1, 1), (-3, 1))),
]


def actions_for(seed, n):
    gen = random.Random(seed)
    return [gen.choice(list(Action)) for _ in range(n)]


def step_record(env, action):
    reward, done = env.step(action)
    rec = (
        state_key(env.state),
        state_key(env.observation),
        float(reward),
        bool(done),
    )
    if done:
        env.reset()
        rec += (state_key(env.state), state_key(env.observation))
    return rec


def start(env, seed):
    env.set_seed(seed)
    env.reset()
    return (state_key(env.state), state_key(env.observation))


def rollout(env, seed, actions):
    return [start(env, seed)] + [step_record(env, a) for a in actions]


def global_sources_key():
    return (
        rng_key(gv_rng.get_gv_rng()),
        repr(np.random.get_state()),
        repr(random.getstate()),
    )


def test_envs():
    digest = hashlib.sha256()
    np.random.seed(99)
    random.seed(77)
    envs = {i: [make_env(*c) for _ in range(3)] for i, c in enumerate(CONFIGS)}
    gv_rng.reset_gv_rng(1234)
    globals_before = global_sources_key()

    for i, config in enumerate(CONFIGS):
        a, b, c = envs[i]
        for seed in (0, 3, 2 ** 32 - 1):
            actions = actions_for(seed + i, 50)
            other_actions = actions_for(seed + i + 1000, 50)
            t_a = rollout(a, seed, actions)
            t_b = [start(b, seed)]
            start(c, seed + 1)
            for action, other in zip(actions, other_actions):
                step_record(c, other)
                t_b.append(step_record(b, action))
                step_record(c, other)
                c.observation
            assert t_a == t_b, (config, seed)
            assert rollout(a, seed, actions) == t_a
            digest.update(repr(t_a).encode())

    assert global_sources_key() == globals_before, 'global rng perturbed'
    return digest.hexdigest()


EXPECTED_DIGEST_PREFIX = '4c616130e8cb5fe9'  # same before and after the patch


def main():
    if len(sys.argv) > 1 and sys.argv[1] == '--digest':
        print(test_envs())
        return

    n = test_reference_equivalence()
    here = test_envs()
    runs = [
        (['-O'], {}),
        ([], {'PYTHONHASHSEED': '0'}),
        ([], {'PYTHONHASHSEED': '4242'}),
    ]
    for flags, env in runs:
        out = subprocess.run(
            [sys.executable, *flags, os.path.abspath(__file__), '--digest'],
            env={**os.environ, **env},
            cwd=os.getcwd(),
            check=True,
            capture_output=True,
            text=True,
        )
        assert out.stdout.strip().splitlines()[-1] == here, (flags, env)
    if EXPECTED_DIGEST_PREFIX is not None:
        assert here.startswith(EXPECTED_DIGEST_PREFIX), here
    print(f'OK: {n} transition checks vs reference; env digest {here[:16]}')


if __name__ == '__main__':
    main()
