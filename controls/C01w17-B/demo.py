"""Demo for change B (registry helper `get_nonprotocol_keys` used by the six
`factory(name, **kwargs)` functions).

Runs on the pristine tree and with the patch applied; exits 0 on both.

It embeds a reference implementation of the factories (``ref_factory``, a
verbatim copy of the pristine code, parameterized by the registry) and checks

* for every registered function of the six registries, and for a set of custom
  functions with awkward signatures, that the library factory binds exactly the
  same keyword arguments (same function object, same keys, same order, same
  values), drops the same foreign keys, raises the same errors with the same
  messages, and never touches the given kwargs;
* that environments assembled through the library factories behave exactly as
  environments assembled through the reference factories, and satisfy the
  property C01 (closure and totality of step), also on awkward states.
"""
import functools
import inspect
import itertools
import math
import os
import sys
import types
import warnings

sys.path.insert(0, os.getcwd())  # run from the worktree root
warnings.filterwarnings('ignore')

import numpy.random as rnd  # noqa: E402

from gym_gridverse.action import Action  # noqa: E402
from gym_gridverse.debugging import reset_gv_debug  # noqa: E402
from gym_gridverse.envs import (  # noqa: E402
    observation_functions as observation_fs,
    reset_functions as reset_fs,
    reward_functions as reward_fs,
    terminating_functions as terminating_fs,
    transition_functions as transition_fs,
    visibility_functions as visibility_fs,
)
from gym_gridverse.envs.gridworld import GridWorld  # noqa: E402
from gym_gridverse.geometry import (  # noqa: E402
    Area,
    Orientation,
    Position,
    Shape,
)
from gym_gridverse.grid_object import (  # noqa: E402
    Beacon,
    Box,
    Color,
    Door,
    Exit,
    Floor,
    Key,
    MovingObstacle,
    NoneGridObject,
    Telepod,
    Wall,
)
from gym_gridverse.observation import Observation  # noqa: E402
from gym_gridverse.rng import make_rng, reset_gv_rng  # noqa: E402
from gym_gridverse.spaces import (  # noqa: E402
    ActionSpace,
    ObservationSpace,
    StateSpace,
)
from gym_gridverse.state import State  # noqa: E402
from gym_gridverse.utils.custom import import_if_custom  # noqa: E402
from gym_gridverse.utils.fast_copy import fast_copy  # noqa: E402
from gym_gridverse.utils.functions import (  # noqa: E402
    checkraise_kwargs,
    select_kwargs,
)

n_checks = 0


def check(condition, *message):
    global n_checks
    n_checks += 1
    if not condition:
        print('FAILED:', *message)
        sys.exit(1)


def outcome(f, *args, **kwargs):
    try:
        return ('ok', f(*args, **kwargs))
    except Exception as error:  # pylint: disable=broad-except
        return ('raise', type(error), str(error))


# --------------------------------------------------------------------------
# reference: verbatim copy of the pristine factories
# --------------------------------------------------------------------------

KINDS = {
    # kind: (module, registry, word used in the error message)
    'reset': (reset_fs, reset_fs.reset_function_registry, 'reset'),
    'transition': (
        transition_fs,
        transition_fs.transition_function_registry,
        'transition',
    ),
    'reward': (reward_fs, reward_fs.reward_function_registry, 'reward'),
    'terminating': (
        terminating_fs,
        terminating_fs.terminating_function_registry,
        'terminating',
    ),
    'observation': (
        observation_fs,
        observation_fs.observation_function_registry,
        'observation',
    ),
    'visibility': (
        visibility_fs,
        visibility_fs.visibility_function_registry,
        'visibility',
    ),
}


def ref_split(registry, function):
    signature = inspect.signature(function)
    required_keys = [
        parameter.name
        for parameter in registry.get_nonprotocol_parameters(signature)
        if parameter.default is inspect.Parameter.empty
    ]
    optional_keys = [
        parameter.name
        for parameter in registry.get_nonprotocol_parameters(signature)
        if parameter.default is not inspect.Parameter.empty
    ]
    return required_keys, optional_keys


def ref_factory(kind, name, **kwargs):
    _, registry, word = KINDS[kind]
    name = import_if_custom(name)

    try:
        function = registry[name]
    except KeyError as error:
        raise ValueError(f'invalid {word} function name {name}') from error

    required_keys, optional_keys = ref_split(registry, function)

    checkraise_kwargs(kwargs, required_keys)
    kwargs = select_kwargs(kwargs, required_keys + optional_keys)
    return functools.partial(function, **kwargs)


def lib_factory(kind, name, **kwargs):
    return KINDS[kind][0].factory(name, **kwargs)


# hard-coded expectations for the built-in functions: required / optional keys
EXPECTED_KEYS = {
    'reset': {
        'empty': (['shape'], ['random_agent', 'random_exit']),
        'rooms': (['shape', 'layout'], []),
        'dynamic_obstacles': (['shape', 'num_obstacles'], ['random_agent']),
        'keydoor': (['shape'], []),
        'crossing': (['shape', 'num_rivers', 'object_type'], []),
        'teleport': (['shape'], []),
        'memory': (['shape', 'colors'], []),
        'memory_rooms': (
            ['shape', 'layout', 'colors', 'num_beacons', 'num_exits'],
            [],
        ),
    },
    'transition': {
        'chain': (['transition_functions'], []),
        'move_agent': ([], []),
        'turn_agent': ([], []),
        'pickndrop': ([], []),
        'move_obstacles': ([], []),
        'actuate_door': ([], []),
        'actuate_box': ([], []),
        'teleport': ([], []),
    },
    'reward': {
        'reduce': (['reward_functions', 'reduction'], []),
        'reduce_sum': (['reward_functions'], []),
        'overlap': (['object_type'], ['reward_on', 'reward_off']),
        'living_reward': ([], ['reward']),
        'reach_exit': ([], ['reward_on', 'reward_off']),
        'bump_moving_obstacle': ([], ['reward']),
        'bump_into_wall': ([], ['reward']),
        'actuate_door': ([], ['reward_open', 'reward_close']),
        'pickndrop': (['object_type'], ['reward_pick', 'reward_drop']),
        'reach_exit_memory': ([], ['reward_good', 'reward_bad']),
    },
    'terminating': {
        'reduce': (['terminating_functions', 'reduction'], []),
        'reduce_any': (['terminating_functions'], []),
        'reduce_all': (['terminating_functions'], []),
        'overlap': (['object_type'], []),
        'reach_exit': ([], []),
        'bump_moving_obstacle': ([], []),
        'bump_into_wall': ([], []),
    },
    'observation': {
        'from_visibility': (['area', 'visibility_function'], []),
        'fully_transparent': (['area'], []),
        'partially_occluded': (['area'], []),
        'raytracing': (['area'], []),
        'stochastic_raytracing': (['area'], []),
    },
    'visibility': {
        'fully_transparent': ([], []),
        'partially_occluded': ([], []),
        'raytracing': ([], ['absolute_counts', 'threshold']),
        'stochastic_raytracing': ([], []),
    },
}


# --------------------------------------------------------------------------
# custom functions with awkward signatures (registered under unique names)
# --------------------------------------------------------------------------

CUSTOM_MODULE = 'c01_demo_b_custom_module'


def register_custom_functions():
    """registers custom functions, reachable as `<module>:<name>`"""
    sys.modules[CUSTOM_MODULE] = types.ModuleType(CUSTOM_MODULE)

    def c01b_transition_mixed(
        state, action, first, second=2, *, third, fourth=None, rng=None
    ):
        """required and optional, positional and keyword-only, interleaved"""
        c01b_transition_mixed.calls.append((first, second, third, fourth, rng))

    c01b_transition_mixed.calls = []

    def c01b_transition_var(state, action, *args, rng=None, **kwargs):
        """variadic parameters: they count as required keys named as such"""

    def c01b_transition_none_default(state, action, *, x=None, y, rng=None):
        """a default of None is still a default"""

    def c01b_transition_empty_default(
        state, action, *, x=inspect.Parameter.empty, rng=None
    ):
        """pathological: the default *is* the `empty` marker"""

    def c01b_reward(state, action, next_state, scale, *, offset=0.5, rng=None):
        return scale * 2.0 + offset

    def c01b_terminating(state, action, next_state, *, flag, rng=None):
        return bool(flag)

    def c01b_reset(shape, other=3, *, rng=None, more):
        return reset_fs.empty(shape, rng=rng)

    def c01b_observation(state, *, area, extra=None, rng=None):
        return observation_fs.fully_transparent(state, area=area, rng=rng)

    def c01b_visibility(grid, position, scale=1, *, rng=None):
        return visibility_fs.fully_transparent(grid, position, rng=rng)

    registrations = {
        'transition': [
            c01b_transition_mixed,
            c01b_transition_var,
            c01b_transition_none_default,
            c01b_transition_empty_default,
        ],
        'reward': [c01b_reward],
        'terminating': [c01b_terminating],
        'reset': [c01b_reset],
        'observation': [c01b_observation],
        'visibility': [c01b_visibility],
    }
    for kind, functions in registrations.items():
        registry = KINDS[kind][1]
        for function in functions:
            check(registry.register(function) is function, 'register returns')
            check(registry[function.__name__] is function, 'registered')
    return registrations


EXPECTED_CUSTOM_KEYS = {
    'c01b_transition_mixed': (['first', 'third'], ['second', 'fourth']),
    'c01b_transition_var': (['args', 'kwargs'], []),
    'c01b_transition_none_default': (['y'], ['x']),
    'c01b_transition_empty_default': (['x'], []),
    'c01b_reward': (['scale'], ['offset']),
    'c01b_terminating': (['flag'], []),
    'c01b_reset': (['shape', 'more'], ['other']),
    'c01b_observation': (['area'], ['extra']),
    'c01b_visibility': ([], ['scale']),
}


# --------------------------------------------------------------------------
# part 1: the factories bind the same things as the reference factories
# --------------------------------------------------------------------------


def same_partial(a, b):
    return (
        isinstance(a, functools.partial)
        and isinstance(b, functools.partial)
        and a.func is b.func
        and a.args == b.args == ()
        and list(a.keywords.items()) == list(b.keywords.items())
        and all(
            x is y for x, y in zip(a.keywords.values(), b.keywords.values())
        )
    )


def compare_factories(kind, name, kwargs, label):
    kwargs_before = dict(kwargs)
    order_before = list(kwargs)
    lib = outcome(lib_factory, kind, name, **kwargs)
    ref = outcome(ref_factory, kind, name, **kwargs)
    check(lib[0] == ref[0], label, 'same outcome kind', lib, ref)
    if ref[0] == 'raise':
        check(lib == ref, label, 'same error', lib, ref)
    else:
        check(same_partial(lib[1], ref[1]), label, 'same partial', lib, ref)
    check(
        kwargs == kwargs_before and list(kwargs) == order_before,
        label,
        'kwargs untouched',
    )
    return lib


def part_factories(custom):
    sentinel = object()

    for kind, (module, registry, word) in KINDS.items():
        expected = dict(EXPECTED_KEYS[kind])
        for function in custom[kind]:
            expected[function.__name__] = EXPECTED_CUSTOM_KEYS[
                function.__name__
            ]

        # every built-in function has an expectation
        for name in registry:
            if not name.startswith('c01b_'):
                check(
                    name in EXPECTED_KEYS[kind]
                    or name
                    in (
                        'proportional_to_distance',
                        'getting_closer',
                        'getting_closer_shortest_path',
                    ),
                    kind,
                    name,
                    'unexpected registered function',
                )

        for name, function in list(registry.items()):
            label = f'[{kind} {name}]'
            required, optional = ref_split(registry, function)
            if name in expected:
                check(
                    (required, optional) == expected[name],
                    label,
                    'expected keys',
                    required,
                    optional,
                )
            check(not set(required) & set(optional), label, 'disjoint keys')
            check('rng' not in required + optional, label, 'rng is protocol')

            # the new helper, when it exists
            helper = getattr(registry, 'get_nonprotocol_keys', None)
            if helper is not None:
                for _ in range(2):  # repeated calls, fresh lists
                    result = helper(function)
                    check(
                        result == (required, optional),
                        label,
                        'helper keys',
                        result,
                    )
                    result[0].append('junk')
                    result[1].append('junk')

            names = [name]
            if name.startswith('c01b_'):
                names.append(f'{CUSTOM_MODULE}:{name}')

            for factory_name in names:
                full = {key: object() for key in required + optional}
                # all keys, in signature order / reversed / with foreign keys
                compare_factories(kind, factory_name, full, label)
                compare_factories(
                    kind,
                    factory_name,
                    dict(reversed(list(full.items()))),
                    label,
                )
                foreign = dict(full)
                foreign.update(
                    {'random_agent': True, 'Name': 'x', 'zzz': sentinel}
                )
                foreign = dict(sorted(foreign.items(), key=lambda kv: kv[0]))
                result = compare_factories(kind, factory_name, foreign, label)
                check(result[0] == 'ok', label, result)
                check(
                    set(result[1].keywords)
                    == set(required + optional)
                    | ({'random_agent'} & set(required + optional)),
                    label,
                    'foreign keys dropped',
                )
                check(result[1].func is function, label, 'registered function')

                # only the required keys / only the optional ones / nothing
                compare_factories(
                    kind, factory_name, {k: full[k] for k in required}, label
                )
                result = compare_factories(
                    kind, factory_name, {k: full[k] for k in optional}, label
                )
                if required:
                    check(
                        result
                        == (
                            'raise',
                            ValueError,
                            f'missing keyword argument `{required[0]}`',
                        ),
                        label,
                        'first missing key (signature order) is reported',
                        result,
                    )
                compare_factories(kind, factory_name, {}, label)

                # each required key missing in turn; None / falsy values bound
                for missing in required:
                    kwargs = {k: v for k, v in full.items() if k != missing}
                    result = compare_factories(
                        kind, factory_name, kwargs, label
                    )
                    check(
                        result
                        == (
                            'raise',
                            ValueError,
                            f'missing keyword argument `{missing}`',
                        ),
                        label,
                        result,
                    )
                falsy = {key: None for key in required}
                falsy.update({key: 0 for key in optional})
                result = compare_factories(kind, factory_name, falsy, label)
                check(
                    result[0] == 'ok' and dict(result[1].keywords) == falsy,
                    label,
                    'falsy values are bound',
                )

                # repeated calls give independent partials
                a = lib_factory(kind, factory_name, **full)
                b = lib_factory(kind, factory_name, **full)
                check(a is not b and a.keywords is not b.keywords, label)
                check(same_partial(a, b), label, 'repeated calls')

        # unknown names
        for bad in ('', 'nope', 'Chain', 'chain ', f'{CUSTOM_MODULE}:nope'):
            result = compare_factories(kind, bad, {'shape': 1}, f'[{kind}]')
            stripped = bad.split(':')[-1]
            check(
                result
                == (
                    'raise',
                    ValueError,
                    f'invalid {word} function name {stripped}',
                ),
                kind,
                bad,
                result,
            )
        # custom name with a module which does not exist
        result = compare_factories(
            kind, 'c01_demo_b_no_such_module:chain', {}, f'[{kind}]'
        )
        check(result[:2] == ('raise', ModuleNotFoundError), kind, result)

    # the bound custom function receives exactly what was configured
    function = custom['transition'][0]
    rng = make_rng(0)
    for factory in (lib_factory, ref_factory):
        function.calls.clear()
        f = factory(
            'transition',
            f'{CUSTOM_MODULE}:c01b_transition_mixed',
            fourth=4,
            third=3,
            first=1,
            ignored=0,
        )
        f('state', 'action', rng=rng)
        f('state', 'action')
        check(
            function.calls == [(1, 2, 3, 4, rng), (1, 2, 3, 4, None)],
            'bound arguments',
            function.calls,
        )
        chained = factory('transition', 'chain', transition_functions=[f, f])
        function.calls.clear()
        chained('state', 'action', rng=rng)
        check(function.calls == [(1, 2, 3, 4, rng)] * 2, 'chain of customs')
        chained = factory('transition', 'chain', transition_functions=[])
        check(chained('state', 'action', rng=rng) is None, 'empty chain')

    reward = lib_factory('reward', 'c01b_reward', scale=2, junk=1)
    check(reward(None, None, None) == 4.5, 'custom reward')
    reward = lib_factory('reward', 'c01b_reward', scale=2, offset=-1.0)
    check(reward(None, None, None) == 3.0, 'custom reward, optional key')


# --------------------------------------------------------------------------
# part 2: environments assembled through the factories
# --------------------------------------------------------------------------

ALL_ACTIONS = list(Action)
MOVE_TURN = ALL_ACTIONS[:6]
MANHATTAN = Position.manhattan_distance
MEMORY_COLORS = {Color.RED, Color.GREEN, Color.BLUE, Color.YELLOW}


def make_configs(F):
    """F(kind, name, **kwargs) is the factory in use (library or reference)"""

    def standard_rewards():
        return [
            F('reward', 'reach_exit', reward_on=5.0, reward_off=0.0),
            F(
                'reward',
                'getting_closer',
                distance_function=MANHATTAN,
                object_type=Exit,
                reward_closer=0.2,
                reward_further=-0.2,
            ),
            F('reward', 'living_reward', reward=-0.05),
        ]

    def move_turn():
        return [F('transition', 'move_agent'), F('transition', 'turn_agent')]

    return {
        'empty.4x7': dict(
            objects=[Wall, Floor, Exit],
            colors=[Color.NONE],
            actions=MOVE_TURN,
            reset=F('reset', 'empty', shape=Shape(4, 7), random_agent=True),
            transitions=move_turn(),
            rewards=standard_rewards(),
            terminating=F('terminating', 'reach_exit'),
            observation=F(
                'observation',
                'partially_occluded',
                area=Area((-6, 0), (-3, 3)),
            ),
        ),
        'keydoor.7x9': dict(
            objects=[Wall, Floor, Exit, Door, Key],
            colors=[Color.NONE, Color.YELLOW],
            actions=ALL_ACTIONS,
            reset=F('reset', 'keydoor', shape=Shape(7, 9)),
            transitions=move_turn()
            + [F('transition', 'actuate_door'), F('transition', 'pickndrop')],
            rewards=standard_rewards()
            + [
                F(
                    'reward',
                    'pickndrop',
                    object_type=Key,
                    reward_pick=1.0,
                    reward_drop=-1.0,
                ),
                F(
                    'reward',
                    'actuate_door',
                    reward_open=1.0,
                    reward_close=-1.0,
                ),
                F(
                    'reward',
                    'getting_closer_shortest_path',
                    object_type=Exit,
                ),
                F('reward', 'overlap', object_type=Exit, reward_on=2.0),
            ],
            terminating=F('terminating', 'overlap', object_type=Exit),
            # optional keys of the visibility function: one given, one not
            observation=F(
                'observation',
                'from_visibility',
                area=Area((-4, 1), (-2, 2)),
                visibility_function=F(
                    'visibility', 'raytracing', threshold=2, shape=None
                ),
            ),
        ),
        'dynamic_obstacles.7x7': dict(
            objects=[Wall, Floor, Exit, MovingObstacle],
            colors=[Color.NONE],
            actions=MOVE_TURN,
            reset=F(
                'reset',
                'dynamic_obstacles',
                shape=Shape(7, 7),
                num_obstacles=3,
                random_agent=False,
            ),
            transitions=move_turn() + [F('transition', 'move_obstacles')],
            rewards=standard_rewards()
            + [
                F('reward', 'bump_moving_obstacle', reward=-1.0),
                F('reward', 'bump_into_wall', reward=-1.0),
            ],
            terminating=F(
                'terminating',
                'reduce_any',
                terminating_functions=[
                    F('terminating', 'reach_exit'),
                    F('terminating', 'bump_moving_obstacle'),
                    F('terminating', 'bump_into_wall'),
                ],
            ),
            observation=F(
                'observation',
                'stochastic_raytracing',
                area=Area((-6, 0), (-3, 3)),
            ),
        ),
        'teleport.7x8': dict(
            objects=[Wall, Floor, Exit, Telepod],
            colors=[Color.NONE, Color.RED],
            actions=MOVE_TURN,
            # NOTE: `random_agent` is not a parameter of `teleport` (as in the
            # shipped YAML): the factory drops it
            reset=F('reset', 'teleport', shape=Shape(7, 8), random_agent=True),
            transitions=move_turn() + [F('transition', 'teleport')],
            rewards=standard_rewards(),
            terminating=F(
                'terminating',
                'reduce',
                terminating_functions=[F('terminating', 'reach_exit')],
                reduction=any,
            ),
            observation=F(
                'observation',
                'fully_transparent',
                area=Area((-2, 2), (-1, 1)),
            ),
        ),
        'memory_four_rooms.7x7': dict(
            objects=[Wall, Floor, Exit, Beacon],
            colors=[Color.NONE] + sorted(MEMORY_COLORS, key=lambda c: c.value),
            actions=MOVE_TURN,
            reset=F(
                'reset',
                'memory_rooms',
                shape=Shape(7, 7),
                layout=(2, 2),
                colors=MEMORY_COLORS,
                num_beacons=1,
                num_exits=2,
            ),
            transitions=move_turn(),
            rewards=[
                F(
                    'reward',
                    'reach_exit_memory',
                    reward_good=5.0,
                    reward_bad=-5.0,
                ),
                F('reward', 'living_reward'),  # optional key left out
            ],
            terminating=F('terminating', 'reach_exit'),
            observation=F(
                'observation',
                'raytracing',
                area=Area((-6, 0), (-3, 3)),
            ),
        ),
        'everything.6x9': dict(
            objects=[
                Wall,
                Floor,
                Exit,
                Door,
                Key,
                MovingObstacle,
                Box,
                Telepod,
            ],
            colors=list(Color),
            actions=ALL_ACTIONS,
            reset=F('reset', 'keydoor', shape=Shape(6, 9)),
            transitions=move_turn()
            + [
                F('transition', 'actuate_door'),
                F('transition', 'actuate_box'),
                F('transition', 'pickndrop'),
                F('transition', 'move_obstacles'),
                F('transition', 'teleport'),
            ],
            rewards=standard_rewards()
            + [
                F(
                    'reward',
                    'reduce',
                    reward_functions=[
                        F('reward', 'bump_moving_obstacle', reward=-1.0),
                        F('reward', 'bump_into_wall', reward=-1.0),
                    ],
                    reduction=min,
                ),
            ],
            terminating=F(
                'terminating',
                'reduce_all',
                terminating_functions=[
                    F('terminating', 'reach_exit'),
                    F('terminating', 'bump_into_wall'),
                ],
            ),
            observation=F(
                'observation',
                'from_visibility',
                area=Area((-3, 0), (-3, 3)),
                visibility_function=F('visibility', 'partially_occluded'),
            ),
        ),
    }


def make_env(F, config):
    transition_function = F(
        'transition', 'chain', transition_functions=config['transitions']
    )
    reward_function = F(
        'reward', 'reduce_sum', reward_functions=config['rewards']
    )
    reset_function = config['reset']
    observation_function = config['observation']

    reset_gv_rng(0)
    state = reset_function()
    observation = observation_function(state)
    return GridWorld(
        StateSpace(state.grid.shape, config['objects'], config['colors']),
        ActionSpace(config['actions']),
        ObservationSpace(
            observation.grid.shape, config['objects'], config['colors']
        ),
        reset_function,
        transition_function,
        observation_function,
        reward_function,
        config['terminating'],
    )


def rng_state(rng):
    return None if rng is None else repr(rng.bit_generator.state)


def check_property_step(env, state, action, result, label):
    next_state, reward, terminal = result
    check(isinstance(next_state, State), label, 'next state type')
    check(next_state is not state, label, 'next state is a new object')
    check(env.state_space.contains(next_state), label, 'next state in space')
    check(
        next_state.grid.shape == state.grid.shape, label, 'same grid shape'
    )
    check(
        next_state.grid.area.contains(next_state.agent.position),
        label,
        'agent in grid',
    )
    check(
        type(next_state.agent.grid_object)
        in set(env.state_space.object_types) | {NoneGridObject},
        label,
        'held item declared',
    )
    check(
        isinstance(reward, float) and math.isfinite(reward),
        label,
        'finite float reward',
        reward,
    )
    check(isinstance(terminal, bool), label, 'boolean terminal', terminal)


def awkward_states(env, state, rng):
    """border / corner agents, all headings, held items, unpaired telepods"""
    shape = state.grid.shape
    ys = sorted({0, 1, shape.height // 2, shape.height - 1})
    xs = sorted({0, 1, shape.width // 2, shape.width - 1})
    object_types = env.state_space.object_types
    held = [None]
    if Key in object_types:
        held += [Key(Color.YELLOW), Key(Color.NONE)]
    if Box in object_types:
        held += [Box(Floor())]
    if Telepod in object_types:
        held += [Telepod(Color.RED)]

    for y, x, orientation in itertools.product(ys, xs, Orientation):
        if not (y in (0, shape.height - 1) or x in (0, shape.width - 1)):
            continue
        for item in held:
            s = fast_copy(state)
            s.agent.position = Position(y, x)
            s.agent.orientation = orientation
            s.agent.grid_object = (
                NoneGridObject() if item is None else fast_copy(item)
            )
            yield s

    # a mix of declared objects sprinkled in the interior
    makers = {
        Wall: Wall,
        Floor: Floor,
        Door: lambda: Door(Door.Status.LOCKED, Color.YELLOW),
        Key: lambda: Key(Color.YELLOW),
        MovingObstacle: MovingObstacle,
        Box: lambda: Box(Key(Color.YELLOW)),
    }
    # NOTE: exits and beacons are left alone (the reward functions document
    # that they need exactly one exit / beacon-exit colours that match)
    for _ in range(3):
        s = fast_copy(state)
        for position in s.grid.area.positions():
            if isinstance(s.grid[position], (Exit, Beacon)):
                continue
            if rng.random() < 0.3:
                object_type = object_types[rng.integers(len(object_types))]
                if object_type in makers:
                    s.grid[position] = makers[object_type]()
        floors = [
            position
            for position in s.grid.area.positions()
            if isinstance(s.grid[position], Floor)
        ]
        if Telepod in object_types and len(floors) >= 3:
            # a pair of telepods, and an unpaired one with the agent on it
            s.grid[floors[0]] = Telepod(Color.RED)
            s.grid[floors[-1]] = Telepod(Color.RED)
            s.grid[floors[1]] = Telepod(Color.NONE)
            yield s
            s = fast_copy(s)
            s.agent.position = floors[1]
            yield s
            s = fast_copy(s)
            s.agent.position = floors[0]
        yield s


def part_environments(debug):
    reset_gv_debug(debug)
    lib_configs = make_configs(lib_factory)
    ref_configs = make_configs(ref_factory)

    for name in lib_configs:
        env = make_env(lib_factory, lib_configs[name])
        ref = make_env(ref_factory, ref_configs[name])
        other = make_env(lib_factory, lib_configs[name])  # same process

        for seed in (0, 12345):
            label = f'[{name} debug={debug} seed={seed}]'
            env.set_seed(seed)
            ref.set_seed(seed)
            other.set_seed(seed + 1)
            aux = make_rng(seed)

            reset_gv_rng(seed)
            state = env.functional_reset()
            reset_gv_rng(seed)
            ref_state = ref.functional_reset()
            check(state == ref_state, label, 'reset state')
            check(env.state_space.contains(state), label, 'reset in space')
            other.functional_reset()

            for t in range(40):
                action = env.action_space.actions[
                    aux.integers(env.action_space.num_actions)
                ]
                before = fast_copy(state)
                reset_gv_rng(t)
                result = outcome(env.functional_step, state, action)
                reset_gv_rng(t)
                ref_result = outcome(ref.functional_step, ref_state, action)
                check(result == ref_result, label, t, action, 'step result')
                check(state == before, label, 'input state untouched')
                check(result[0] == 'ok', label, t, action, result)
                check_property_step(env, state, action, result[1], label)
                check(
                    rng_state(env._rng) == rng_state(ref._rng),
                    label,
                    'rng after step',
                )

                observation = outcome(env.functional_observation, state)
                ref_observation = outcome(ref.functional_observation, state)
                check(observation == ref_observation, label, 'observation')
                check(observation[0] == 'ok', label, observation)
                check(
                    isinstance(observation[1], Observation)
                    and env.observation_space.contains(observation[1]),
                    label,
                    'observation in space',
                )
                check(
                    rng_state(env._rng) == rng_state(ref._rng),
                    label,
                    'rng after observation',
                )

                other.functional_step(other.functional_reset(), action)
                state, _, terminal = result[1]
                ref_state = ref_result[1][0]
                if terminal:
                    state = env.functional_reset()
                    ref_state = ref.functional_reset()
                    check(state == ref_state, label, 'reset after terminal')

            for s in awkward_states(env, state, aux):
                if not env.state_space.contains(s):
                    continue
                for action in env.action_space.actions:
                    before = fast_copy(s)
                    reset_gv_rng(7)
                    result = outcome(env.functional_step, s, action)
                    reset_gv_rng(7)
                    ref_result = outcome(ref.functional_step, s, action)
                    check(result == ref_result, label, action, 'awkward step')
                    check(s == before, label, 'awkward input untouched')
                    check(result[0] == 'ok', label, s.agent, action, result)
                    check_property_step(env, s, action, result[1], label)
                observation = outcome(env.functional_observation, s)
                ref_observation = outcome(ref.functional_observation, s)
                check(observation == ref_observation, label, 'awkward obs')
                check(
                    observation[0] == 'ok'
                    and env.observation_space.contains(observation[1]),
                    label,
                    'awkward observation in space',
                )

            for action in list(Action) + [None, 0, 'MOVE_FORWARD']:
                if action in env.action_space.actions:
                    continue
                before = fast_copy(state)
                result = outcome(env.functional_step, state, action)
                check(
                    result[:2] == ('raise', ValueError), label, action, result
                )
                check(state == before, label, 'state after bad action')

            # re-seeding replays the same trajectory
            runs = []
            for _ in range(2):
                env.set_seed(seed)
                reset_gv_rng(seed)
                s = env.functional_reset()
                run = [s]
                for action in env.action_space.actions * 2:
                    s, reward, terminal = env.functional_step(s, action)
                    run.append((s, reward, terminal))
                    run.append(env.functional_observation(s))
                runs.append(run)
            check(runs[0] == runs[1], label, 're-seeding')


def main():
    check(isinstance(make_rng(0), rnd.Generator), 'rng')
    custom = register_custom_functions()
    part_factories(custom)
    for debug in (True, False):
        part_environments(debug)
    reset_gv_debug(None)
    print(f'OK ({n_checks} checks)')


if __name__ == '__main__':
    main()
