"""C18 demo (change B): the tentative-next-position helper agrees with the pose
algebra and with an embedded reference implementation.

Exits 0 on the pristine tree and with the patch applied.
"""
import itertools as itt
import os
import sys

sys.path.insert(0, os.getcwd())

from gym_gridverse.action import Action  # noqa: E402
from gym_gridverse.agent import Agent  # noqa: E402
from gym_gridverse.envs import utils as env_utils  # noqa: E402
from gym_gridverse.envs.utils import get_next_position  # noqa: E402
from gym_gridverse.geometry import (  # noqa: E402
    Area,
    Orientation,
    Position,
    Transform,
)
from gym_gridverse.grid import Grid  # noqa: E402
from gym_gridverse.grid_object import Floor, Wall  # noqa: E402
from gym_gridverse.state import State  # noqa: E402
from gym_gridverse.envs.transition_functions import move_agent  # noqa: E402
from gym_gridverse.envs.reward_functions import bump_into_wall  # noqa: E402
from gym_gridverse.envs.terminating_functions import (  # noqa: E402
    bump_into_wall as terminating_bump_into_wall,
)

O = Orientation
ORIENTATIONS = [O.F, O.R, O.B, O.L]
MOVES = [
    Action.MOVE_FORWARD,
    Action.MOVE_BACKWARD,
    Action.MOVE_LEFT,
    Action.MOVE_RIGHT,
]
NON_MOVES = [a for a in Action if a not in MOVES]
assert len(list(Action)) == len(MOVES) + len(NON_MOVES) and NON_MOVES
assert all(a.is_move() for a in MOVES)
assert not any(a.is_move() for a in NON_MOVES)

# hard-coded (dy, dx) for every heading x move action
EXPECTED = {
    (O.F, Action.MOVE_FORWARD): (-1, 0),
    (O.F, Action.MOVE_BACKWARD): (1, 0),
    (O.F, Action.MOVE_LEFT): (0, -1),
    (O.F, Action.MOVE_RIGHT): (0, 1),
    (O.R, Action.MOVE_FORWARD): (0, 1),
    (O.R, Action.MOVE_BACKWARD): (0, -1),
    (O.R, Action.MOVE_LEFT): (-1, 0),
    (O.R, Action.MOVE_RIGHT): (1, 0),
    (O.B, Action.MOVE_FORWARD): (1, 0),
    (O.B, Action.MOVE_BACKWARD): (-1, 0),
    (O.B, Action.MOVE_LEFT): (0, 1),
    (O.B, Action.MOVE_RIGHT): (0, -1),
    (O.L, Action.MOVE_FORWARD): (0, -1),
    (O.L, Action.MOVE_BACKWARD): (0, 1),
    (O.L, Action.MOVE_LEFT): (1, 0),
    (O.L, Action.MOVE_RIGHT): (-1, 0),
}
MOVE_ORIENTATION = {
    Action.MOVE_FORWARD: O.F,
    Action.MOVE_BACKWARD: O.B,
    Action.MOVE_LEFT: O.L,
    Action.MOVE_RIGHT: O.R,
}


def ref_next_position(position, orientation, action):
    """verbatim pristine spelling"""
    try:
        move_orientation = MOVE_ORIENTATION[action]
    except KeyError:
        return position
    return position + Position.from_orientation(orientation * move_orientation)


COORDS = [-(10**15), -8, -1, 0, 1, 3, 10**15 + 1]
POSITIONS = [Position(y, x) for y in COORDS for x in COORDS]
checks = 0

# 1. helper == hard-coded table == reference == pose algebra, all positions
for p, o, a in itt.product(POSITIONS, ORIENTATIONS, MOVES):
    r = get_next_position(p, o, a)
    dy, dx = EXPECTED[o, a]
    assert type(r) is Position
    assert type(r.y) is int and type(r.x) is int
    assert r == Position(p.y + dy, p.x + dx)
    assert r == ref_next_position(p, o, a)
    # pose algebra: move in the agent frame, then map through the agent pose
    assert r == Transform(p, o) * Position.from_orientation(MOVE_ORIENTATION[a])
    assert r == p + o * Position.from_orientation(MOVE_ORIENTATION[a])
    assert r is not p
    # a step is a unit step and is undone by the opposite action
    assert Position.manhattan_distance(p, r) == 1
    back = {
        Action.MOVE_FORWARD: Action.MOVE_BACKWARD,
        Action.MOVE_BACKWARD: Action.MOVE_FORWARD,
        Action.MOVE_LEFT: Action.MOVE_RIGHT,
        Action.MOVE_RIGHT: Action.MOVE_LEFT,
    }[a]
    assert get_next_position(r, o, back) == p
    checks += 1

# 2. non-move actions return the very same position object, whatever the heading
for p, o, a in itt.product(POSITIONS[::4], ORIENTATIONS, NON_MOVES):
    assert get_next_position(p, o, a) is p
    checks += 1
for a in NON_MOVES:  # orientation is not even looked at
    p = Position(2, 2)
    assert get_next_position(p, None, a) is p

# 3. forward step == Agent.front(); repeated calls do not drift / mutate tables
for p, o in itt.product(POSITIONS[::3], ORIENTATIONS):
    agent = Agent(p, o)
    for _ in range(3):
        assert get_next_position(p, o, Action.MOVE_FORWARD) == agent.front()
    assert agent.position is p and agent.orientation is o
assert env_utils._move_action_to_orientation == MOVE_ORIENTATION
for o in ORIENTATIONS:
    assert Position.from_orientation(o).yx == EXPECTED[O.F, {v: k for k, v in MOVE_ORIENTATION.items()}[o]]

# 4. unsupported operands keep raising TypeError for move actions
for bad_orientation in (None, 1, 'F'):
    try:
        get_next_position(Position(0, 0), bad_orientation, Action.MOVE_LEFT)
    except TypeError:
        pass
    else:
        raise AssertionError('bad orientation must raise TypeError')
for bad_position in ((0, 0), None, 3):
    try:
        get_next_position(bad_position, O.R, Action.MOVE_LEFT)
    except TypeError:
        pass
    else:
        raise AssertionError('bad position must raise TypeError')
try:
    get_next_position(Position(0, 0), O.F, [])
except TypeError:
    pass
else:
    raise AssertionError('unhashable action must raise TypeError')

# 5. callers: move_agent / bump_into_wall on non-square grids, borders, corners
for h, w in [(1, 1), (1, 5), (4, 1), (3, 4), (5, 3)]:
    def make_grid():
        grid = Grid.from_shape((h, w))
        for pos in grid.area.positions():
            if (pos.y * 2 + pos.x) % 5 == 3:
                grid[pos] = Wall()
        return grid

    for pos in Area((0, h - 1), (0, w - 1)).positions():
        for o, a in itt.product(ORIENTATIONS, list(Action)):
            grid = make_grid()
            state = State(grid, Agent(pos, o))
            dy, dx = EXPECTED.get((o, a), (0, 0))
            target = Position(pos.y + dy, pos.x + dx)
            on_grid = 0 <= target.y < h and 0 <= target.x < w
            wall = on_grid and isinstance(grid[target], Wall)
            expect_bump = a in MOVES and wall
            assert bump_into_wall(state, a, state, reward=-2.5) == (
                -2.5 if (on_grid and wall) else 0.0
            )
            assert terminating_bump_into_wall(state, a, state) == (
                on_grid and wall
            )
            move_agent(state, a)
            moved = a in MOVES and on_grid and not wall
            assert state.agent.position == (target if moved else pos)
            assert state.agent.orientation is o
            assert expect_bump == (a in MOVES and wall)
            checks += 1

# 6. pose algebra sanity used by the argument
IDENTITY = Transform(Position(0, 0), O.F)
for o1, o2 in itt.product(ORIENTATIONS, repeat=2):
    assert Position.from_orientation(o1 * o2) == o1 * Position.from_orientation(o2)
for p, o in itt.product(POSITIONS[::5], ORIENTATIONS):
    t = Transform(p, o)
    assert t * IDENTITY == t and IDENTITY * t == t
    assert t * -t == IDENTITY and -t * t == IDENTITY
    for q in POSITIONS[::9]:
        assert -t * (t * q) == q
        t2 = Transform(q, -o)
        assert (t2 * t) * q == t2 * (t * q)

print(f'OK ({checks} scenarios)')
