"""Demo for change B (from_visibility builds the masked view in one pass
instead of overwriting cells of the rotated sub-grid).

Runs identically on the pristine tree and with the patch applied; exits 0 when

* from_visibility, driven with hand-written visibility functions (all / none /
  checkerboard / single cell, bool, int and float masks, np.matrix masks, masks
  depending on the grid they are given, wrong shapes), agrees cell by cell and
  by object identity with a reference implementation embedded below, hands the
  visibility function the unmasked rotated view, and leaves the state alone;
* every built-in observation function is sound (property C05) and agrees with
  the embedded reference of the whole pipeline on a broad sweep.
"""
import itertools as itt
import os
import sys

sys.path.insert(0, os.getcwd())  # run from the root of the tree under test

import numpy as np
import numpy.random as rnd

from gym_gridverse.agent import Agent
from gym_gridverse.envs import observation_functions as ofs
from gym_gridverse.envs.visibility_functions import visibility_function_registry
from gym_gridverse.geometry import Area, Orientation, Position
from gym_gridverse.grid import Grid
from gym_gridverse.grid_object import (
    Color,
    Door,
    Floor,
    Hidden,
    Key,
    NoneGridObject,
    Wall,
)
from gym_gridverse.state import State

checks = 0


def check(condition, message):
    global checks
    checks += 1
    if not condition:
        print('FAIL:', message)
        sys.exit(1)


# ---------------------------------------------------------------- references


def reference_subgrid_cells(grid: Grid, area: Area):
    """per cell: the world object, or None where a Hidden is expected"""
    height, width = grid.shape.height, grid.shape.width
    return [
        [
            grid.objects[y][x] if 0 <= y < height and 0 <= x < width else None
            for x in range(area.xmin, area.xmax + 1)
        ]
        for y in range(area.ymin, area.ymax + 1)
    ]


def world_cell(state: State, area: Area, i: int, j: int):
    """world position shown at row i, column j of the view"""
    rel = Position(area.ymin + i, area.xmin + j)
    return state.agent.position + state.agent.orientation * rel


_rotations = {
    Orientation.F: lambda d: d,
    Orientation.R: lambda d: [list(r) for r in zip(*d)][::-1],
    Orientation.B: lambda d: [r[::-1] for r in d[::-1]],
    Orientation.L: lambda d: [list(r) for r in zip(*d[::-1])],
}


def reference_observation(state, area, visibility_function, rng):
    """pristine from_visibility, spelled with plain lists;  cells are the world
    object or None for Hidden"""
    pov_area = state.agent.position + state.agent.orientation * area
    pov_position = Position(-area.ymin, -area.xmin)
    cells = reference_subgrid_cells(state.grid, pov_area)
    cells = _rotations[state.agent.orientation](cells)
    view = Grid(
        [[Hidden() if c is None else c for c in row] for row in cells]
    )
    visibility = visibility_function(view, pov_position, rng=rng)
    if visibility.shape != (area.height, area.width):
        raise ValueError('shape')
    return [
        [c if visibility[i, j] else None for j, c in enumerate(row)]
        for i, row in enumerate(cells)
    ]


# ------------------------------------------------------------------ scenarios


def make_grid(height, width, seed):
    rng = rnd.default_rng(seed)
    colors = list(Color)
    factories = [
        Floor,
        Floor,
        Floor,
        Wall,
        lambda: Key(colors[rng.integers(len(colors))]),
        lambda: Door(Door.Status.OPEN, Color.NONE),
        lambda: Door(Door.Status.CLOSED, colors[rng.integers(len(colors))]),
        lambda: Door(Door.Status.LOCKED, Color.NONE),
        Hidden,
    ]
    return Grid(
        [
            [factories[rng.integers(len(factories))]() for _ in range(width)]
            for _ in range(height)
        ]
    )


SHAPES = [(1, 1), (1, 4), (5, 1), (2, 3), (4, 4), (3, 6), (6, 5)]


def custom_visibility_functions():
    def all_visible(grid, position, *, rng=None):
        return np.ones(grid.shape.as_tuple, dtype=bool)

    def none_visible(grid, position, *, rng=None):
        return np.zeros(grid.shape.as_tuple, dtype=bool)

    def checkerboard_int(grid, position, *, rng=None):
        ys, xs = np.indices(grid.shape.as_tuple)
        return (ys + xs) % 2 * 3  # ints 0 / 3

    def only_agent_float(grid, position, *, rng=None):
        visibility = np.zeros(grid.shape.as_tuple, dtype=float)
        visibility[position.y, position.x] = 0.25
        return visibility

    def nan_and_negative(grid, position, *, rng=None):
        visibility = np.full(grid.shape.as_tuple, np.nan)
        visibility[0, :] = -1.0
        visibility[-1, -1] = 0.0
        return visibility

    def non_blocking_only(grid, position, *, rng=None):
        # depends on the content of the (unmasked) view it is given
        return np.array(
            [[not obj.blocks_vision for obj in row] for row in grid.objects]
        )

    def matrix_mask(grid, position, *, rng=None):
        ys, xs = np.indices(grid.shape.as_tuple)
        return np.asmatrix((ys * 2 + xs) % 3 == 0)

    def random_mask(grid, position, *, rng=None):
        return rng.random(grid.shape.as_tuple) < 0.5

    return [
        all_visible,
        none_visible,
        checkerboard_int,
        only_agent_float,
        nan_and_negative,
        non_blocking_only,
        matrix_mask,
        random_mask,
    ]


def test_custom_visibility():
    functions = custom_visibility_functions()
    for (height, width), gseed in zip(SHAPES, itt.count(40)):
        grid = make_grid(height, width, gseed)
        snapshot = [list(row) for row in grid.objects]
        positions = sorted(
            {(0, 0), (height - 1, width - 1), (height // 2, width // 2)}
        )
        for (y, x), orientation, area in itt.product(
            positions, Orientation, AREAS
        ):
            item = Key(Color.NONE) if (y + x) % 2 else None
            state = State(grid, Agent(Position(y, x), orientation, item))
            for function in functions:
                label = f'{function.__name__} {grid.shape} {(y, x)} {orientation} {area}'
                seen = {}

                def spy(view, position, *, rng=None):
                    seen['cells'] = [list(row) for row in view.objects]
                    seen['position'] = position
                    return function(view, position, rng=rng)

                expected = reference_observation(
                    state, area, function, rnd.default_rng(5)
                )
                observation = ofs.from_visibility(
                    state,
                    area=area,
                    visibility_function=spy,
                    rng=rnd.default_rng(5),
                )
                # the visibility function is given the unmasked view
                unmasked = reference_observation(
                    state, area, functions[0], None
                )
                check(
                    seen['position'] == Position(-area.ymin, -area.xmin),
                    'visibility position ' + label,
                )
                check(
                    all(
                        (type(g) is Hidden) if e is None else (g is e)
                        for rg, re in zip(seen['cells'], unmasked)
                        for g, e in zip(rg, re)
                    ),
                    'visibility function saw a masked view ' + label,
                )
                check(
                    observation.grid.shape.as_tuple
                    == (area.height, area.width)
                    and all(
                        len(row) == area.width
                        for row in observation.grid.objects
                    ),
                    'shape ' + label,
                )
                check(
                    observation.agent.position
                    == Position(-area.ymin, -area.xmin)
                    and observation.agent.orientation is Orientation.F
                    and observation.agent.grid_object
                    is state.agent.grid_object,
                    'agent ' + label,
                )
                hidden_ids = set()
                for i, j in itt.product(range(area.height), range(area.width)):
                    got = observation.grid[Position(i, j)]
                    world = world_cell(state, area, i, j)
                    inside = 0 <= world.y < height and 0 <= world.x < width
                    check(
                        type(got) is Hidden or (inside and got is grid[world]),
                        f'unsound cell {(i, j)} ' + label,
                    )
                    exp = expected[i][j]
                    check(
                        (type(got) is Hidden) if exp is None else (got is exp),
                        f'differs from reference {(i, j)} ' + label,
                    )
                    if exp is None:
                        hidden_ids.add(id(got))
                check(
                    len(hidden_ids)
                    == sum(c is None for row in expected for c in row),
                    'hidden cells share an object ' + label,
                )
                # writing into the observation does not reach the state
                observation.grid[Position(0, 0)] = Wall()

            # wrong shapes are rejected with ValueError
            for bad in (
                lambda g, p, *, rng=None: np.ones(
                    (g.shape.width + 1, g.shape.height), dtype=bool
                ),
                lambda g, p, *, rng=None: np.ones(
                    g.shape.height * g.shape.width, dtype=bool
                ),
                lambda g, p, *, rng=None: np.ones(
                    g.shape.as_tuple + (1,), dtype=bool
                ),
            ):
                try:
                    ofs.from_visibility(
                        state, area=area, visibility_function=bad
                    )
                except ValueError:
                    check(True, '')
                else:
                    check(False, 'wrong visibility shape accepted')
        check(
            all(
                a is b
                for ra, rb in zip(grid.objects, snapshot)
                for a, b in zip(ra, rb)
            ),
            'from_visibility modified the state',
        )


AREAS = [
    Area((0, 0), (0, 0)),
    Area((-2, 0), (-1, 1)),
    Area((-6, 0), (-3, 3)),
    Area((-3, 0), (-1, 4)),  # asymmetric
    Area((-1, 2), (-3, 0)),  # asymmetric, agent not on the bottom row
    Area((-2, 2), (-2, 2)),
    Area((0, 3), (0, 2)),  # agent in the top-left corner of the view
    Area((-9, 0), (-9, 9)),  # much larger than any grid
    Area((-1, 0), (0, 0)),
    Area((0, 0), (-2, 5)),
]

FUNCTIONS = [
    'fully_transparent',
    'partially_occluded',
    'raytracing',
    'stochastic_raytracing',
]


def test_observations():
    for (height, width), gseed in zip(SHAPES, itt.count(10)):
        grid = make_grid(height, width, gseed)
        positions = sorted(
            {
                (0, 0),
                (0, width - 1),
                (height - 1, 0),
                (height - 1, width - 1),
                (height // 2, width // 2),
                (0, width // 2),
                (height // 2, 0),
            }
        )
        items = [None, Key(Color.NONE), Key(Color.RED)]
        for (y, x), orientation, area in itt.product(
            positions, Orientation, AREAS
        ):
            item = items[(y + x + orientation.value) % len(items)]
            state = State(grid, Agent(Position(y, x), orientation, item))
            snapshot = [list(row) for row in grid.objects]
            for name in FUNCTIONS:
                function = getattr(ofs, name)
                visibility_function = visibility_function_registry[name]
                label = f'{name} {grid.shape} {(y, x)} {orientation} {area}'
                for seed in (0, 7):
                    try:
                        expected = reference_observation(
                            state,
                            area,
                            visibility_function,
                            rnd.default_rng(seed),
                        )
                    except NotImplementedError:
                        expected = NotImplementedError
                    try:
                        observation = function(
                            state, area=area, rng=rnd.default_rng(seed)
                        )
                    except NotImplementedError:
                        check(expected is NotImplementedError, 'raise ' + label)
                        continue
                    check(expected is not NotImplementedError, 'noraise ' + label)

                    check(
                        observation.grid.shape.as_tuple
                        == (area.height, area.width),
                        'shape ' + label,
                    )
                    check(
                        observation.agent.position
                        == Position(-area.ymin, -area.xmin)
                        and observation.agent.orientation is Orientation.F,
                        'agent pose ' + label,
                    )
                    check(
                        observation.agent.grid_object is state.agent.grid_object,
                        'held item ' + label,
                    )
                    if item is None:
                        check(
                            type(observation.agent.grid_object)
                            is NoneGridObject,
                            'no item ' + label,
                        )
                    for i, j in itt.product(
                        range(area.height), range(area.width)
                    ):
                        got = observation.grid[Position(i, j)]
                        world = world_cell(state, area, i, j)
                        inside = (
                            0 <= world.y < height and 0 <= world.x < width
                        )
                        # soundness
                        check(
                            type(got) is Hidden
                            or (inside and got is grid[world]),
                            f'unsound cell {(i, j)} ' + label,
                        )
                        if name == 'fully_transparent' and inside:
                            check(
                                got is grid[world],
                                f'transparent hides {(i, j)} ' + label,
                            )
                        # agreement with the embedded reference
                        exp = expected[i][j]
                        check(
                            (type(got) is Hidden)
                            if exp is None
                            else (got is exp),
                            f'differs from reference {(i, j)} ' + label,
                        )
            check(
                all(
                    a is b
                    for ra, rb in zip(grid.objects, snapshot)
                    for a, b in zip(ra, rb)
                ),
                'observation modified the state',
            )


def test_module_rng():
    # re-seeding the module generator reproduces stochastic observations
    from gym_gridverse.rng import reset_gv_rng

    grid = make_grid(6, 5, 3)
    state = State(grid, Agent(Position(3, 2), Orientation.L))
    area = Area((-4, 0), (-2, 2))

    def run():
        reset_gv_rng(123)
        return [
            [
                [type(o) is Hidden for o in row]
                for row in ofs.stochastic_raytracing(
                    state, area=area
                ).grid.objects
            ]
            for _ in range(3)
        ]

    check(run() == run(), 're-seeding is not reproducible')


def test_factory():
    grid = make_grid(4, 4, 5)
    state = State(grid, Agent(Position(0, 3), Orientation.R, Key(Color.BLUE)))
    area = Area((-2, 0), (-1, 2))
    for name in FUNCTIONS:
        a = ofs.factory(name, area=area)(state, rng=rnd.default_rng(1))
        b = getattr(ofs, name)(state, area=area, rng=rnd.default_rng(1))
        check(a == b and a.agent == b.agent, 'factory ' + name)
        check(
            all(
                p is q
                for ra, rb in zip(a.grid.objects, b.grid.objects)
                for p, q in zip(ra, rb)
                if type(p) is not Hidden
            ),
            'factory identities ' + name,
        )


if __name__ == '__main__':
    test_custom_visibility()
    test_observations()
    test_module_rng()
    test_factory()
    print(f'OK ({checks} checks)')
