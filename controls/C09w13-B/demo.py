"""C09 demo (change B): objects are conserved by every built-in dynamics step.

Run from the worktree root:  /venv/bin/python _seed/B/demo.py

The script does not depend on the patch: it exits 0 on the pristine tree and
with the patch applied.  It checks

0. `Agent.front()` (the only way the built-in dynamics find the cell that
   pick-and-drop / actuation may touch) against a hard-coded table and against
   the rigid-body expression `transform * forward step`, for every heading and
   positions inside, on the border of, and outside grids (negative, zero and
   huge coordinates), through setters, replaced transforms, copies, repeated
   calls and several agents alive at once;  and that the three transition
   functions using it touch exactly that cell;
1. `pickndrop` against a reference implementation embedded below, on an
   exhaustive set of small scenarios (every cell x every heading x a palette
   of objects in front x a palette of held objects, on square and non-square
   grids, including 1x1, single-row and single-column grids), comparing values
   AND object identities;
2. that `pickndrop` never reaches beyond the grid (no wrap-around through
   negative indices) and never touches any cell other than the one in front;
3. conservation of the multiset of non-floor objects + held item, for every
   built-in transition function x every action on random states, and for
   random compositions through `chain`, under several seeds, re-seeding and
   repeated calls;
4. conservation + immobility of scenery along random histories of the shipped
   key-door and dynamic-obstacle environments (several shapes and seeds,
   several environments alive in one process).
"""
import itertools
import os
import sys
from collections import Counter
from functools import partial

import numpy.random as rnd

# the worktree root (cwd, or two levels above this file) provides the package
sys.path.insert(
    0, os.path.dirname(os.path.dirname(os.path.dirname(os.path.abspath(__file__))))
)
sys.path.insert(0, os.getcwd())

from gym_gridverse.action import Action
from gym_gridverse.agent import Agent
from gym_gridverse.envs import reset_functions as rf
from gym_gridverse.envs import transition_functions as tf
from gym_gridverse.geometry import Orientation, Position, Shape
from gym_gridverse.grid import Grid
from gym_gridverse.grid_object import (
    Beacon,
    Box,
    Color,
    Door,
    Exit,
    Floor,
    Hidden,
    Key,
    MovingObstacle,
    NoneGridObject,
    Telepod,
    Wall,
)
from gym_gridverse.state import State
from gym_gridverse.utils.fast_copy import fast_copy

CHECKS = 0


def check(condition, *message):
    global CHECKS
    CHECKS += 1
    if not condition:
        print('FAILED:', *message)
        sys.exit(1)


# --------------------------------------------------------------------------
# inventories

DELTA = {
    Orientation.F: (-1, 0),
    Orientation.B: (1, 0),
    Orientation.L: (0, -1),
    Orientation.R: (0, 1),
}


def describe(obj):
    """value descriptor: type, colour and (for boxes) content"""
    content = describe(obj.content) if isinstance(obj, Box) else None
    return (type(obj).__name__, obj.color, content)


def cells(state):
    h, w = state.grid.shape.height, state.grid.shape.width
    return [(y, x) for y in range(h) for x in range(w)]


def inventory(state):
    """multiset of non-floor objects on the grid + held item (by value)"""
    counter = Counter(
        describe(state.grid.objects[y][x])
        for y, x in cells(state)
        if not isinstance(state.grid.objects[y][x], Floor)
    )
    if not isinstance(state.agent.grid_object, NoneGridObject):
        counter[describe(state.agent.grid_object)] += 1
    return counter


def identities(state):
    """multiset of non-floor objects on the grid + held item (by identity)"""
    counter = Counter(
        id(state.grid.objects[y][x])
        for y, x in cells(state)
        if not isinstance(state.grid.objects[y][x], Floor)
    )
    if not isinstance(state.agent.grid_object, NoneGridObject):
        counter[id(state.agent.grid_object)] += 1
    return counter


SCENERY = (Wall, Exit, Door, Telepod, Beacon, Box)


def scenery(state):
    """position -> identity of the objects which can never move"""
    return {
        (y, x): id(state.grid.objects[y][x])
        for y, x in cells(state)
        if isinstance(state.grid.objects[y][x], SCENERY)
    }


def snapshot(state):
    """identity of everything"""
    return (
        [[id(o) for o in row] for row in state.grid.objects],
        id(state.agent.grid_object),
        state.agent.position,
        state.agent.orientation,
    )


def front_of(state):
    dy, dx = DELTA[state.agent.orientation]
    return state.agent.position.y + dy, state.agent.position.x + dx


def in_grid(state, y, x):
    return 0 <= y < state.grid.shape.height and 0 <= x < state.grid.shape.width


# --------------------------------------------------------------------------
# 0.  Agent.front()

FRONT_TABLE = {
    # (y, x, heading) -> front
    (0, 0, 'F'): (-1, 0),
    (0, 0, 'B'): (1, 0),
    (0, 0, 'L'): (0, -1),
    (0, 0, 'R'): (0, 1),
    (3, 7, 'F'): (2, 7),
    (3, 7, 'B'): (4, 7),
    (3, 7, 'L'): (3, 6),
    (3, 7, 'R'): (3, 8),
    (-2, -5, 'F'): (-3, -5),
    (-2, -5, 'B'): (-1, -5),
    (-2, -5, 'L'): (-2, -6),
    (-2, -5, 'R'): (-2, -4),
    (10**12, -(10**12), 'F'): (10**12 - 1, -(10**12)),
    (10**12, -(10**12), 'B'): (10**12 + 1, -(10**12)),
    (10**12, -(10**12), 'L'): (10**12, -(10**12) - 1),
    (10**12, -(10**12), 'R'): (10**12, -(10**12) + 1),
}


def check_front():
    from gym_gridverse.geometry import Transform

    headings = {
        'F': Orientation.F,
        'B': Orientation.B,
        'L': Orientation.L,
        'R': Orientation.R,
        'FORWARD': Orientation.FORWARD,
        'BACKWARD': Orientation.BACKWARD,
        'LEFT': Orientation.LEFT,
        'RIGHT': Orientation.RIGHT,
    }
    for (y, x, name), expected in FRONT_TABLE.items():
        agent = Agent(Position(y, x), headings[name])
        front = agent.front()
        check(type(front) is Position, 'front is not a Position')
        check(front.yx == expected, 'front table', (y, x, name), front)
        check(front == agent.front(), 'front not repeatable')
        check(agent.position == Position(y, x), 'front moved the agent')
        check(agent.orientation is headings[name], 'front turned the agent')

    agents = []
    for y, x in itertools.product(range(-3, 8), range(-3, 8)):
        for orientation in Orientation:
            dy, dx = DELTA[orientation]
            agent = Agent(Position(y, x), orientation, Key(Color.NONE))
            agents.append((agent, (y + dy, x + dx)))
            check(agent.front().yx == (y + dy, x + dx), 'front', (y, x))
            # rigid-body reading of the same cell
            check(
                agent.front()
                == agent.transform * Position.from_orientation(Orientation.F),
                'front vs transform',
            )
            # exactly one step away, never the cell itself
            check(Position.manhattan_distance(agent.front(), agent.position) == 1)
            # the cell in front of the cell in front, facing back, is home
            back = Agent(agent.front(), orientation * Orientation.B)
            check(back.front() == agent.position, 'front is not an involution')

    # several agents alive at once:  no shared state
    for agent, expected in agents:
        check(agent.front().yx == expected, 'agents interfere')

    # through the setters, a replaced transform, turns and copies
    agent = Agent(Position(2, 2), Orientation.F)
    y, x, orientation = 2, 2, Orientation.F
    rng = rnd.default_rng(7)
    for _ in range(300):
        k = int(rng.integers(5))
        if k == 0:
            y, x = int(rng.integers(-4, 5)), int(rng.integers(-4, 5))
            agent.position = Position(y, x)
        elif k == 1:
            orientation = list(Orientation)[rng.integers(4)]
            agent.orientation = orientation
        elif k == 2:
            turn = [Orientation.L, Orientation.R][rng.integers(2)]
            expected = {
                (Orientation.F, Orientation.L): Orientation.L,
                (Orientation.F, Orientation.R): Orientation.R,
                (Orientation.L, Orientation.L): Orientation.B,
                (Orientation.L, Orientation.R): Orientation.F,
                (Orientation.B, Orientation.L): Orientation.R,
                (Orientation.B, Orientation.R): Orientation.L,
                (Orientation.R, Orientation.L): Orientation.F,
                (Orientation.R, Orientation.R): Orientation.B,
            }[orientation, turn]
            agent.orientation *= turn
            orientation = expected
        elif k == 3:
            y, x = int(rng.integers(-4, 5)), int(rng.integers(-4, 5))
            orientation = list(Orientation)[rng.integers(4)]
            agent.transform = Transform(Position(y, x), orientation)
        else:
            agent = fast_copy(agent)
        dy, dx = DELTA[orientation]
        check(agent.front().yx == (y + dy, x + dx), 'front after updates')
        check(agent.front().yx == (y + dy, x + dx), 'front, repeated')


def check_front_users():
    """pickndrop / actuate_door / actuate_box act on the cell in front only"""
    for h, w in [(1, 1), (1, 4), (4, 1), (3, 5), (5, 3), (4, 4)]:
        for (y, x), orientation in itertools.product(
            itertools.product(range(h), range(w)), Orientation
        ):
            for kind in ['key', 'door', 'box']:

                def cell(kind=kind):
                    if kind == 'key':
                        return Key(Color.BLUE)
                    if kind == 'door':
                        return Door(Door.Status.CLOSED, Color.BLUE)
                    return Box(Key(Color.BLUE))

                # the same actable object everywhere:  whichever cell is
                # (wrongly) reached, something would happen
                objects = [[cell() for _ in range(w)] for _ in range(h)]
                objects[y][x] = Floor()
                state = State(Grid(objects), Agent(Position(y, x), orientation))
                fy, fx = front_of(state)
                snap = snapshot(state)
                states = [[o.state_index for o in row] for row in objects]
                function, action = {
                    'key': (tf.pickndrop, Action.PICK_N_DROP),
                    'door': (tf.actuate_door, Action.ACTUATE),
                    'box': (tf.actuate_box, Action.ACTUATE),
                }[kind]
                function(state, action)
                after = snapshot(state)
                for cy, cx in cells(state):
                    touched = (
                        after[0][cy][cx] != snap[0][cy][cx]
                        or state.grid.objects[cy][cx].state_index
                        != states[cy][cx]
                    )
                    check(
                        touched == ((cy, cx) == (fy, fx)),
                        'wrong cell reached',
                        kind,
                        (h, w),
                        (y, x),
                        orientation,
                        (cy, cx),
                    )
                if not in_grid(state, fy, fx):
                    check(after == snap, 'reached beyond the grid', kind)


# --------------------------------------------------------------------------
# 1. + 2.  pickndrop against a reference implementation


def reference_pickndrop(state, action):
    """Straight from the documentation of pickndrop; index arithmetic only."""
    if action is not Action.PICK_N_DROP:
        return
    y, x = front_of(state)
    if not in_grid(state, y, x):
        return
    front = state.grid.objects[y][x]
    held = state.agent.grid_object
    holding = not isinstance(held, NoneGridObject)
    if front.holdable:
        if holding:  # swap
            state.grid.objects[y][x] = held
            state.agent.grid_object = front
        else:  # pick, leave floor
            state.grid.objects[y][x] = Floor()
            state.agent.grid_object = front
    elif isinstance(front, Floor):
        if holding:  # drop
            state.grid.objects[y][x] = held
            state.agent.grid_object = NoneGridObject()
        else:  # nothing at all:  floor stays floor, hand stays empty
            state.grid.objects[y][x] = Floor()
            state.agent.grid_object = NoneGridObject()
    # anything else in front:  no effect


def front_palette():
    return [
        Floor,
        Wall,
        Exit,
        Hidden,
        MovingObstacle,
        partial(Door, Door.Status.OPEN, Color.NONE),
        partial(Door, Door.Status.CLOSED, Color.RED),
        partial(Door, Door.Status.LOCKED, Color.YELLOW),
        partial(Key, Color.NONE),
        partial(Key, Color.YELLOW),
        lambda: Box(Key(Color.BLUE)),
        lambda: Box(Floor()),
        partial(Telepod, Color.GREEN),
        partial(Beacon, Color.NONE),
    ]


def held_palette():
    return [
        None,
        NoneGridObject,
        partial(Key, Color.NONE),
        partial(Key, Color.RED),
        partial(Key, Color.YELLOW),
    ]


def same_structure(state_a, map_a, state_b, map_b):
    """states equal, with corresponding identities (through the id maps)"""
    if state_a.agent.position != state_b.agent.position:
        return False
    if state_a.agent.orientation != state_b.agent.orientation:
        return False
    if state_a.grid.shape != state_b.grid.shape:
        return False

    def same(obj_a, obj_b):
        if describe(obj_a) != describe(obj_b):
            return False
        if type(obj_a) is not type(obj_b):
            return False
        if obj_a.state_index != obj_b.state_index:
            return False
        # which Floor / empty hand instance is used is immaterial
        if isinstance(obj_a, (Floor, NoneGridObject)):
            return True
        # old objects must be the corresponding old objects; new with new
        return map_a.get(id(obj_a), 'new') == map_b.get(id(obj_b), 'new')

    return same(state_a.agent.grid_object, state_b.agent.grid_object) and all(
        same(state_a.grid.objects[y][x], state_b.grid.objects[y][x])
        for y, x in cells(state_a)
    )


KEEPALIVE = []


def labels(state):
    """id -> stable label, for all objects of a state

    The objects are kept alive until the comparison is over, so that ids of
    collected objects cannot be reused by objects created during the step.
    """
    out = {id(state.agent.grid_object): 'held'}
    KEEPALIVE.append(state.agent.grid_object)
    for y, x in cells(state):
        out[id(state.grid.objects[y][x])] = (y, x)
        KEEPALIVE.append(state.grid.objects[y][x])
    return out


def make_background(shape, k):
    """A background with plenty of different objects, k shifts the pattern"""
    h, w = shape
    palette = [
        Floor,
        partial(Key, Color.GREEN),
        Wall,
        Floor,
        partial(Key, Color.NONE),
        partial(Door, Door.Status.LOCKED, Color.BLUE),
        lambda: Box(Key(Color.RED)),
        MovingObstacle,
        Exit,
    ]
    return [
        [palette[(k + 3 * y + x) % len(palette)]() for x in range(w)]
        for y in range(h)
    ]


def check_pickndrop_exhaustive():
    shapes = [(1, 1), (1, 3), (3, 1), (2, 2), (2, 5), (4, 3), (3, 3)]
    for shape in shapes:
        h, w = shape
        for (y, x), orientation in itertools.product(
            itertools.product(range(h), range(w)), Orientation
        ):
            for i_front, make_front in enumerate(front_palette()):
                for i_held, make_held in enumerate(held_palette()):
                    objects = make_background(shape, i_front + y + x)
                    state = State(
                        Grid(objects),
                        Agent(
                            Position(y, x),
                            orientation,
                            None if make_held is None else make_held(),
                        ),
                    )
                    fy, fx = front_of(state)
                    if in_grid(state, fy, fx):
                        state.grid.objects[fy][fx] = make_front()

                    before_inventory = inventory(state)
                    # the other actions (no effect) with one held item only
                    actions = (
                        list(Action)
                        if i_held == (i_front + y + x) % 5
                        else [Action.PICK_N_DROP]
                    )

                    for action in actions:
                        # twin states, built through a copy
                        actual = fast_copy(state)
                        expected = fast_copy(state)
                        map_actual = labels(actual)
                        map_expected = labels(expected)
                        snap = snapshot(actual)
                        ids = identities(actual)
                        scn = scenery(actual)

                        tf.pickndrop(actual, action)
                        reference_pickndrop(expected, action)

                        context = (shape, (y, x), orientation, i_front, action)
                        check(
                            same_structure(
                                actual, map_actual, expected, map_expected
                            ),
                            'pickndrop differs from reference',
                            context,
                            actual,
                            expected,
                        )
                        # conservation, by value and by identity
                        check(
                            inventory(actual) == before_inventory,
                            'inventory changed',
                            context,
                        )
                        check(
                            identities(actual) == ids,
                            'identities changed',
                            context,
                        )
                        check(scenery(actual) == scn, 'scenery moved', context)
                        # agent pose untouched
                        check(
                            actual.agent.position == Position(y, x)
                            and actual.agent.orientation is orientation,
                            'pose changed',
                            context,
                        )
                        # only the cell in front may change
                        after = snapshot(actual)
                        for cy, cx in cells(actual):
                            if (cy, cx) != (fy, fx):
                                check(
                                    after[0][cy][cx] == snap[0][cy][cx],
                                    'cell not in front was touched',
                                    context,
                                    (cy, cx),
                                )
                        if action is not Action.PICK_N_DROP or not in_grid(
                            actual, fy, fx
                        ):
                            check(after == snap, 'unexpected effect', context)
                        del KEEPALIVE[:]


def check_pickndrop_border_no_wraparound():
    """facing out of the grid, with tempting keys on the opposite border"""
    for h, w in [(1, 1), (1, 4), (4, 1), (3, 5), (5, 3)]:
        for y, x in itertools.product(range(h), range(w)):
            for orientation in Orientation:
                for held in [None, Key(Color.RED)]:
                    objects = [
                        [Key(Color.YELLOW) for _ in range(w)] for _ in range(h)
                    ]
                    objects[y][x] = Floor()
                    state = State(
                        Grid(objects), Agent(Position(y, x), orientation, held)
                    )
                    fy, fx = front_of(state)
                    if in_grid(state, fy, fx):
                        continue
                    snap = snapshot(state)
                    tf.pickndrop(state, Action.PICK_N_DROP)
                    check(
                        snapshot(state) == snap,
                        'reached beyond the grid',
                        (h, w),
                        (y, x),
                        orientation,
                    )


def check_pickndrop_repeated():
    """pick, drop, swap sequences on one state, identities tracked"""
    key_a, key_b = Key(Color.RED), Key(Color.NONE)
    objects = [
        [Wall(), Wall(), Wall(), Wall()],
        [Wall(), key_a, Floor(), Wall()],
        [Wall(), Floor(), key_b, Wall()],
    ]
    state = State(Grid(objects), Agent(Position(2, 1), Orientation.F))
    ids = identities(state)
    tf.pickndrop(state, Action.PICK_N_DROP)  # pick a
    check(state.agent.grid_object is key_a)
    check(type(state.grid[1, 1]) is Floor)
    state.agent.orientation = Orientation.R
    tf.pickndrop(state, Action.PICK_N_DROP)  # swap a <-> b
    check(state.agent.grid_object is key_b and state.grid[2, 2] is key_a)
    tf.pickndrop(state, Action.PICK_N_DROP)  # swap back
    check(state.agent.grid_object is key_a and state.grid[2, 2] is key_b)
    state.agent.orientation = Orientation.F
    tf.pickndrop(state, Action.PICK_N_DROP)  # drop a
    check(isinstance(state.agent.grid_object, NoneGridObject))
    check(state.grid[1, 1] is key_a)
    state.agent.orientation = Orientation.L
    tf.pickndrop(state, Action.PICK_N_DROP)  # wall:  nothing
    check(isinstance(state.agent.grid_object, NoneGridObject))
    check(type(state.grid[2, 0]) is Wall)
    state.agent.orientation = Orientation.B
    tf.pickndrop(state, Action.PICK_N_DROP)  # outside:  nothing
    check(identities(state) == ids)
    # empty hand on floor:  still floor, still empty
    state.agent.position = Position(1, 2)
    state.agent.orientation = Orientation.B
    check(state.grid[2, 2] is key_b)
    state.agent.position = Position(2, 1)
    state.agent.orientation = Orientation.F
    tf.pickndrop(state, Action.PICK_N_DROP)  # pick a again
    state.agent.position = Position(1, 1)
    state.agent.orientation = Orientation.R
    tf.pickndrop(state, Action.PICK_N_DROP)  # drop on (1, 2)
    check(state.grid[1, 2] is key_a)
    tf.pickndrop(state, Action.PICK_N_DROP)
    tf.pickndrop(state, Action.PICK_N_DROP)
    check(state.grid[1, 2] is key_a)
    check(identities(state) == ids)


# --------------------------------------------------------------------------
# 3.  every built-in transition function x action on random states


def random_object(rng):
    colors = list(Color)
    color = colors[rng.integers(len(colors))]
    k = rng.integers(12)
    if k <= 3:
        return Floor()
    if k == 4:
        return Wall()
    if k == 5:
        return Exit()
    if k == 6:
        status = list(Door.Status)[rng.integers(len(Door.Status))]
        return Door(status, color)
    if k == 7:
        return Key(color)
    if k == 8:
        return MovingObstacle()
    if k == 9:
        inner = [Floor(), Key(color), Wall(), Box(Key(color)), Exit()]
        return Box(inner[rng.integers(len(inner))])
    if k == 10:
        return Telepod(color)
    return Beacon(color)


def random_state(rng):
    h, w = int(rng.integers(1, 6)), int(rng.integers(1, 6))
    objects = [[random_object(rng) for _ in range(w)] for _ in range(h)]
    held = [None, None, Key(Color.NONE), Key(Color.RED), Key(Color.YELLOW)][
        rng.integers(5)
    ]
    position = Position(int(rng.integers(h)), int(rng.integers(w)))
    orientation = list(Orientation)[rng.integers(4)]
    return State(Grid(objects), Agent(position, orientation, held))


BUILTIN = [
    tf.move_agent,
    tf.turn_agent,
    tf.pickndrop,
    tf.move_obstacles,
    tf.actuate_door,
    tf.actuate_box,
    tf.teleport,
]


def expected_identities_after(state, transition_functions, action):
    """the identity multiset, with boxes in front replaced by their content

    Only valid to call BEFORE the step;  handles the single documented
    exception (opening a box), which needs actuate_box to be in the chain and
    the agent to face a box when actuate_box runs.  To stay independent of the
    dynamics, callers only use it when no earlier function of the chain can
    move/turn the agent or change the cell in front (see below).
    """
    ids = identities(state)
    values = inventory(state)
    fy, fx = front_of(state)
    if (
        action is Action.ACTUATE
        and tf.actuate_box in transition_functions
        and in_grid(state, fy, fx)
    ):
        cell = state.grid.objects[fy][fx]
        times = transition_functions.count(tf.actuate_box)
        while times and isinstance(cell, Box):
            ids[id(cell)] -= 1
            values[describe(cell)] -= 1
            cell = cell.content
            if not isinstance(cell, Floor):
                ids[id(cell)] += 1
                values[describe(cell)] += 1
            times -= 1
    return +ids, +values


def check_all_transitions(seed, n_states):
    rng = rnd.default_rng(seed)
    for _ in range(n_states):
        state = random_state(rng)
        for function in BUILTIN:
            for action in Action:
                s = fast_copy(state)
                ids, values = expected_identities_after(s, [function], action)
                scn = scenery(s)
                held = s.agent.grid_object
                function(s, action, rng=rnd.default_rng(seed))
                check(
                    identities(s) == ids,
                    'identities not conserved',
                    function.__name__,
                    action,
                    state,
                )
                check(
                    inventory(s) == values,
                    'inventory not conserved',
                    function.__name__,
                    action,
                    state,
                )
                if function is not tf.pickndrop:
                    check(s.agent.grid_object is held, 'hand changed')
                if function is not tf.actuate_box:
                    check(scenery(s) == scn, 'scenery moved', function.__name__)
                else:
                    new = scenery(s)
                    fy, fx = front_of(s)
                    check(
                        all(
                            new.get(p) == scn.get(p)
                            for p in set(new) | set(scn)
                            if p != (fy, fx)
                        ),
                        'scenery moved (box)',
                    )

        # compositions:  the total change is the box-opening change only.
        # move/turn/teleport are put after the actuations, so that the front
        # cell of the oracle above is the front cell seen by actuate_box.
        for _ in range(4):
            n_first = int(rng.integers(0, 4))
            first_pool = [tf.actuate_door, tf.actuate_box, tf.move_obstacles]
            first = [
                first_pool[rng.integers(len(first_pool))]
                for _ in range(n_first)
            ]
            # move_obstacles can change the cell in front (obstacle <-> floor)
            # but never into/out of a Box, and pickndrop never acts on ACTUATE
            rest = [BUILTIN[i] for i in rng.permutation(len(BUILTIN))]
            rest = [f for f in rest if f is not tf.actuate_box]
            functions = first + rest
            for action in Action:
                s = fast_copy(state)
                ids, values = expected_identities_after(s, first, action)
                composed = partial(tf.chain, transition_functions=functions)
                composed(s, action, rng=rnd.default_rng(seed + 1))
                check(
                    identities(s) == ids,
                    'identities not conserved by chain',
                    [f.__name__ for f in functions],
                    action,
                    state,
                )
                check(inventory(s) == values, 'inventory, chain')

        # transition_with_copy leaves the input alone and conserves by value
        for action in Action:
            snap = snapshot(state)
            values = inventory(state)
            composed = partial(
                tf.chain,
                transition_functions=[
                    tf.move_agent,
                    tf.turn_agent,
                    tf.actuate_door,
                    tf.pickndrop,
                    tf.move_obstacles,
                    tf.teleport,
                ],
            )
            next_state = tf.transition_with_copy(
                composed, state, action, rng=rnd.default_rng(seed)
            )
            check(snapshot(state) == snap, 'input state modified')
            check(inventory(next_state) == values, 'copy not conserving')


# --------------------------------------------------------------------------
# 4.  histories of the shipped key-door and dynamic-obstacle environments


def check_history(reset, functions, actions, seed, steps):
    rng = rnd.default_rng(seed)
    state = reset(rng=rng)
    values = inventory(state)
    ids = identities(state)
    scn = scenery(state)
    step = partial(tf.chain, transition_functions=functions)
    action_rng = rnd.default_rng(seed + 1000)
    for t in range(steps):
        action = actions[action_rng.integers(len(actions))]
        step(state, action, rng=rng)
        check(inventory(state) == values, 'history inventory', seed, t, action)
        check(identities(state) == ids, 'history identities', seed, t, action)
        check(scenery(state) == scn, 'history scenery', seed, t, action)
        check(state.grid.area.contains(state.agent.position), 'agent left')
    return state


def check_histories():
    keydoor_functions = [
        tf.move_agent,
        tf.turn_agent,
        tf.actuate_door,
        tf.pickndrop,
    ]
    obstacle_functions = [tf.move_agent, tf.turn_agent, tf.move_obstacles]
    obstacle_actions = [
        Action.MOVE_FORWARD,
        Action.MOVE_BACKWARD,
        Action.MOVE_LEFT,
        Action.MOVE_RIGHT,
        Action.TURN_LEFT,
        Action.TURN_RIGHT,
    ]
    finals = []
    for seed in range(6):
        for shape in [Shape(5, 5), Shape(7, 7), Shape(9, 9), Shape(4, 9)]:
            finals.append(
                check_history(
                    partial(rf.keydoor, shape),
                    keydoor_functions,
                    list(Action),
                    seed,
                    150,
                )
            )
        for shape, n in [
            (Shape(5, 5), 1),
            (Shape(7, 7), 3),
            (Shape(4, 8), 6),
            (Shape(4, 4), 0),
        ]:
            for random_agent in [False, True]:
                finals.append(
                    check_history(
                        partial(rf.dynamic_obstacles, shape, n, random_agent),
                        obstacle_functions,
                        obstacle_actions,
                        seed,
                        100,
                    )
                )
                # also under the full action set
                check_history(
                    partial(rf.dynamic_obstacles, shape, n, random_agent),
                    obstacle_functions + [tf.pickndrop, tf.actuate_box],
                    list(Action),
                    seed,
                    60,
                )

    # same seed, same history (re-seeding), environments interleaved
    a = check_history(
        partial(rf.keydoor, Shape(7, 7)), keydoor_functions, list(Action), 3, 80
    )
    b = check_history(
        partial(rf.keydoor, Shape(7, 7)), keydoor_functions, list(Action), 3, 80
    )
    check(a == b, 're-seeding does not reproduce the history')

    # a directed key-door episode:  the key goes through the whole cycle
    state = rf.keydoor(Shape(5, 7), rng=rnd.default_rng(0))
    keys = [
        (y, x)
        for y, x in cells(state)
        if isinstance(state.grid.objects[y][x], Key)
    ]
    check(len(keys) == 1)
    key = state.grid[keys[0]]
    ky, kx = keys[0]
    for orientation, (dy, dx) in DELTA.items():
        ay, ax = ky - dy, kx - dx
        if not in_grid(state, ay, ax):
            continue
        if not isinstance(state.grid.objects[ay][ax], Floor):
            continue
        s = fast_copy(state)
        k = s.grid[ky, kx]
        s.agent.position = Position(ay, ax)
        s.agent.orientation = orientation
        values = inventory(s)
        tf.pickndrop(s, Action.PICK_N_DROP)
        check(s.agent.grid_object is k and type(s.grid[ky, kx]) is Floor)
        check(inventory(s) == values)
        tf.pickndrop(s, Action.PICK_N_DROP)
        check(s.grid[ky, kx] is k)
        check(isinstance(s.agent.grid_object, NoneGridObject))
        check(inventory(s) == values)
    check(key.color is Color.YELLOW)


def main():
    check_front()
    check_front_users()
    check_pickndrop_exhaustive()
    check_pickndrop_border_no_wraparound()
    check_pickndrop_repeated()
    for seed in [0, 1, 2, 12345]:
        check_all_transitions(seed, 60)
    check_histories()
    print(f'OK ({CHECKS} checks)')


if __name__ == '__main__':
    main()
