#!/usr/bin/env python
"""C10 demo (change B): doors, keys and boxes respond only to a faced ACTUATE.

Exits 0 on the pristine tree and with the change applied.  The expectations come
from a reference model embedded here which uses nothing from the library but the
plain data classes (no `Agent.front`, no `Area.contains`, no `Transform`).
"""
import itertools
import os
import sys
from functools import partial

sys.path.insert(0, os.getcwd())  # run from the worktree root

import numpy.random as rnd

from gym_gridverse.action import Action
from gym_gridverse.agent import Agent
from gym_gridverse.envs import reset_functions
from gym_gridverse.envs import transition_functions as tf
from gym_gridverse.envs.gridworld import GridWorld
from gym_gridverse.envs.observation_functions import (
    factory as observation_factory,
)
from gym_gridverse.envs.reward_functions import factory as reward_factory
from gym_gridverse.envs.terminating_functions import (
    factory as terminating_factory,
)
from gym_gridverse.geometry import Area, Orientation, Position, Shape
from gym_gridverse.grid import Grid
from gym_gridverse.grid_object import (
    Beacon,
    Box,
    Color,
    Door,
    Exit,
    Floor,
    Key,
    MovingObstacle,
    NoneGridObject,
    Telepod,
    Wall,
)
from gym_gridverse.spaces import ActionSpace, ObservationSpace, StateSpace
from gym_gridverse.state import State

CHECKS = 0

# (dy, dx) of the faced cell, written out by hand
FRONT = {
    Orientation.F: (-1, 0),
    Orientation.B: (1, 0),
    Orientation.L: (0, -1),
    Orientation.R: (0, 1),
}
ORIENTATIONS = [Orientation.F, Orientation.B, Orientation.L, Orientation.R]
ACTIONS = list(Action)
assert len(ACTIONS) == 8


def check(condition, *info):
    global CHECKS
    CHECKS += 1
    if not condition:
        print('FAILED', *info)
        sys.exit(1)


# -- snapshots ---------------------------------------------------------------


def describe(obj):
    """structural description of a grid-object (nested for boxes)"""
    if isinstance(obj, Door):
        return ('Door', obj.state.name, obj.color.name)
    if isinstance(obj, Box):
        return ('Box', describe(obj.content))
    return (type(obj).__name__, obj.state_index, obj.color.name)


def snapshot(state):
    """ids and descriptions of every cell, the agent pose, and the held item"""
    height, width = state.grid.shape.height, state.grid.shape.width
    cells = [
        [
            (id(state.grid.objects[y][x]), describe(state.grid.objects[y][x]))
            for x in range(width)
        ]
        for y in range(height)
    ]
    return (
        cells,
        (state.agent.position.y, state.agent.position.x),
        state.agent.orientation,
        (id(state.agent.grid_object), describe(state.agent.grid_object)),
    )


# -- reference model of actuate_door followed by actuate_box -----------------


def expected_after_actuation(state, action, functions):
    """snapshot expected after applying `functions` (names, in order)"""
    cells, (ay, ax), orientation, held = snapshot(state)
    cells = [list(row) for row in cells]
    if action is not Action.ACTUATE:
        return cells, (ay, ax), orientation, held

    dy, dx = FRONT[orientation]
    fy, fx = ay + dy, ax + dx
    height, width = len(cells), len(cells[0])
    if not (0 <= fy < height and 0 <= fx < width):
        return cells, (ay, ax), orientation, held

    current = state.grid.objects[fy][fx]
    for name in functions:
        ident, desc = cells[fy][fx]
        if name == 'actuate_door' and desc[0] == 'Door':
            _, status, color = desc
            held_desc = held[1]
            opens = status == 'CLOSED' or (
                status == 'LOCKED'
                and held_desc[0] == 'Key'
                and held_desc[2] == color
            )
            if opens:
                cells[fy][fx] = (ident, ('Door', 'OPEN', color))
        elif name == 'actuate_box' and desc[0] == 'Box':
            content = current.content
            cells[fy][fx] = (id(content), describe(content))
            current = content
    return cells, (ay, ax), orientation, held


def run_scenario(shape, target_factory, target_yx, held_factory, agent_yx,
                 orientation, action, functions, filler=Floor):
    grid = Grid.from_shape(shape, factory=filler)
    target = target_factory()
    grid[target_yx] = target
    held = held_factory()
    agent = Agent(Position(*agent_yx), orientation, held)
    state = State(grid, agent)

    expected = expected_after_actuation(state, action, functions)
    for name in functions:
        result = getattr(tf, name)(state, action)
        check(result is None, 'transition functions return None', name)
    actual = snapshot(state)
    check(
        actual == expected,
        'unexpected next state',
        shape, describe(target), target_yx, describe(agent.grid_object),
        agent_yx, orientation, action, functions,
        '\n expected', expected, '\n actual  ', actual,
    )
    return state


COLORS = list(Color)
DOORS = [
    partial(Door, status, color)
    for status in Door.Status
    for color in COLORS
]
BOXES = [
    lambda: Box(Floor()),
    lambda: Box(Key(Color.YELLOW)),
    lambda: Box(Door(Door.Status.LOCKED, Color.RED)),
    lambda: Box(Box(Key(Color.NONE))),
    lambda: Box(Wall()),
]
OTHERS = [
    Floor,
    Wall,
    Exit,
    MovingObstacle,
    partial(Key, Color.GREEN),
    partial(Telepod, Color.BLUE),
    partial(Beacon, Color.RED),
]
HELD = (
    [lambda: None, NoneGridObject]
    + [partial(Key, color) for color in COLORS]
    + [
        MovingObstacle,
        partial(Telepod, Color.YELLOW),
        partial(Door, Door.Status.OPEN, Color.YELLOW),
        lambda: Box(Key(Color.YELLOW)),
        partial(Beacon, Color.YELLOW),
    ]
)
CHAINS = [
    ('actuate_door',),
    ('actuate_box',),
    ('actuate_door', 'actuate_box'),
    ('actuate_box', 'actuate_door'),
]


def part_relative_poses():
    """every target x held item x relative pose x action, small odd grid"""
    shape = Shape(3, 4)
    target_yx = (1, 2)
    poses = [
        ((y, x), orientation)
        for y in range(3)
        for x in range(4)
        if (y, x) != target_yx
        for orientation in ORIENTATIONS
    ]
    for target, held, (agent_yx, orientation), action, chain in (
        itertools.product(DOORS + BOXES + OTHERS, HELD, poses, ACTIONS, CHAINS)
    ):
        if chain != CHAINS[2] and action is not Action.ACTUATE:
            continue
        run_scenario(
            shape, target, target_yx, held, agent_yx, orientation, action,
            chain,
        )


def part_all_positions():
    """every target position x agent position (wrap-around, borders, corners)"""
    targets = [
        partial(Door, Door.Status.LOCKED, Color.YELLOW),
        partial(Door, Door.Status.CLOSED, Color.NONE),
        partial(Door, Door.Status.OPEN, Color.BLUE),
        lambda: Box(Key(Color.YELLOW)),
    ]
    held = [
        lambda: None,
        partial(Key, Color.YELLOW),
        partial(Key, Color.NONE),
        partial(Key, Color.BLUE),
    ]
    shapes = [
        Shape(1, 1), Shape(1, 2), Shape(2, 1), Shape(1, 5), Shape(5, 1),
        Shape(2, 2), Shape(2, 3), Shape(4, 3),
    ]
    for shape in shapes:
        cells = [
            (y, x) for y in range(shape.height) for x in range(shape.width)
        ]
        for target_yx, agent_yx in itertools.product(cells, cells):
            for target, item, orientation, action in itertools.product(
                targets, held, ORIENTATIONS, ACTIONS
            ):
                run_scenario(
                    shape, target, target_yx, item, agent_yx, orientation,
                    action, CHAINS[2],
                )
        # a grid full of locked doors / boxes: exactly one cell may change
        for agent_yx, orientation, action in itertools.product(
            cells, ORIENTATIONS, ACTIONS
        ):
            run_scenario(
                shape, Floor, agent_yx, partial(Key, Color.RED), agent_yx,
                orientation, action, CHAINS[2],
                filler=partial(Door, Door.Status.LOCKED, Color.RED),
            )
            run_scenario(
                shape, Floor, agent_yx, lambda: None, agent_yx,
                orientation, action, CHAINS[2],
                filler=lambda: Box(Floor()),
            )


def part_hand_written():
    """a few hard-coded expectations, independent of the reference model"""

    def make(door, held, agent_yx=(2, 1), orientation=Orientation.F):
        grid = Grid.from_shape((3, 3))
        grid[1, 1] = door
        return State(grid, Agent(Position(*agent_yx), orientation, held))

    # closed door opens without key
    door = Door(Door.Status.CLOSED, Color.RED)
    tf.actuate_door(make(door, None), Action.ACTUATE)
    check(door.state is Door.Status.OPEN)

    # locked door: no key, wrong key, right key, repeated actuation
    door = Door(Door.Status.LOCKED, Color.RED)
    tf.actuate_door(make(door, None), Action.ACTUATE)
    check(door.state is Door.Status.LOCKED)
    tf.actuate_door(make(door, Key(Color.BLUE)), Action.ACTUATE)
    check(door.state is Door.Status.LOCKED)
    tf.actuate_door(make(door, Key(Color.NONE)), Action.ACTUATE)
    check(door.state is Door.Status.LOCKED)
    # an object of the right colour which is not a key does not unlock
    tf.actuate_door(make(door, Telepod(Color.RED)), Action.ACTUATE)
    check(door.state is Door.Status.LOCKED)
    key = Key(Color.RED)
    state = make(door, key)
    for action in ACTIONS:
        if action is not Action.ACTUATE:
            tf.actuate_door(state, action)
            check(door.state is Door.Status.LOCKED, action)
    # facing away, sideways
    for orientation in [Orientation.B, Orientation.L, Orientation.R]:
        tf.actuate_door(make(door, key, (2, 1), orientation), Action.ACTUATE)
        check(door.state is Door.Status.LOCKED, orientation)
    # two cells away (not adjacent) while facing it
    grid = Grid.from_shape((4, 1))
    grid[0, 0] = door
    far = State(grid, Agent(Position(2, 0), Orientation.F, key))
    tf.actuate_door(far, Action.ACTUATE)
    check(door.state is Door.Status.LOCKED)
    # standing on the door cell does not count as facing it
    on = State(grid, Agent(Position(0, 0), Orientation.F, key))
    tf.actuate_door(on, Action.ACTUATE)
    check(door.state is Door.Status.LOCKED)
    for _ in range(3):
        tf.actuate_door(state, Action.ACTUATE)
        check(door.state is Door.Status.OPEN)
        check(state.agent.grid_object is key)  # key is not consumed
    # colour NONE door with colour NONE key
    door = Door(Door.Status.LOCKED, Color.NONE)
    tf.actuate_door(make(door, Key(Color.NONE)), Action.ACTUATE)
    check(door.state is Door.Status.OPEN)

    # box is replaced by its very content object, once
    content = Key(Color.GREEN)
    box = Box(content)
    state = make(box, None)
    tf.actuate_box(state, Action.PICK_N_DROP)
    check(state.grid[1, 1] is box)
    tf.actuate_box(state, Action.ACTUATE)
    check(state.grid[1, 1] is content)
    tf.actuate_box(state, Action.ACTUATE)
    check(state.grid[1, 1] is content)

    # the registry still serves the same callables, and through `chain`
    check(tf.transition_function_registry['actuate_door'] is tf.actuate_door)
    check(tf.transition_function_registry['actuate_box'] is tf.actuate_box)
    door = Door(Door.Status.LOCKED, Color.YELLOW)
    state = make(door, Key(Color.YELLOW))
    chained = tf.factory(
        'chain',
        transition_functions=[
            tf.factory('actuate_door'),
            tf.factory('actuate_box'),
        ],
    )
    chained(state, Action.ACTUATE, rng=rnd.default_rng(0))
    check(door.state is Door.Status.OPEN)


# -- reachable states of the key-door environments ---------------------------


def make_keydoor_env(shape):
    objects = [Wall, Floor, Exit, Door, Key]
    colors = [Color.NONE, Color.YELLOW]
    transition = tf.factory(
        'chain',
        transition_functions=[
            tf.factory('move_agent'),
            tf.factory('turn_agent'),
            tf.factory('actuate_door'),
            tf.factory('pickndrop'),
        ],
    )
    return GridWorld(
        StateSpace(shape, objects, colors),
        ActionSpace(list(Action)),
        ObservationSpace(Shape(7, 7), objects, colors),
        partial(reset_functions.keydoor, shape),
        transition,
        observation_factory(
            'partially_occluded', area=Area((-6, 0), (-3, 3))
        ),
        reward_factory('actuate_door', reward_open=1.0, reward_close=-1.0),
        terminating_factory('reach_exit'),
    )


def doors_and_keys(state):
    doors, keys = {}, 0
    for y in range(state.grid.shape.height):
        for x in range(state.grid.shape.width):
            obj = state.grid.objects[y][x]
            if isinstance(obj, Door):
                doors[y, x] = (obj.state, obj.color)
            elif isinstance(obj, Key):
                keys += 1
    if isinstance(state.agent.grid_object, Key):
        keys += 1
    return doors, keys


def part_keydoor_walks():
    shapes = [Shape(4, 6), Shape(4, 5), Shape(5, 5), Shape(7, 7), Shape(5, 9),
              Shape(9, 6)]
    envs = [make_keydoor_env(shape) for shape in shapes]  # several at once
    opened = 0
    for seed in (0, 1, 7):
        walkers = [rnd.default_rng(1000 + seed + i) for i in range(len(envs))]
        for env in envs:
            env.set_seed(seed)
        states = [env.functional_reset() for env in envs]
        for state in states:
            doors, keys = doors_and_keys(state)
            check(
                list(doors.values())
                == [(Door.Status.LOCKED, Color.YELLOW)]
            )
            check(keys == 1)

        for _ in range(400):
            for i, env in enumerate(envs):
                state = states[i]
                # bias towards the interesting actions
                action = ACTIONS[
                    walkers[i].choice(
                        len(ACTIONS), p=[.2, .05, .05, .05, .15, .15, .2, .15]
                    )
                ]
                doors, keys = doors_and_keys(state)
                before = snapshot(state)
                next_state, reward, _ = env.functional_step(state, action)
                check(snapshot(state) == before, 'functional step mutated')
                next_doors, next_keys = doors_and_keys(next_state)
                check(next_keys == keys == 1, 'keys are never consumed')
                check(doors.keys() == next_doors.keys(), 'doors do not move')

                (dy, dx) = FRONT[state.agent.orientation]
                front = (
                    state.agent.position.y + dy,
                    state.agent.position.x + dx,
                )
                for yx, (status, color) in doors.items():
                    next_status, next_color = next_doors[yx]
                    check(next_color is color)
                    held = state.agent.grid_object
                    should_open = (
                        action is Action.ACTUATE
                        and front == yx
                        and (
                            status is Door.Status.CLOSED
                            or (
                                status is Door.Status.LOCKED
                                and isinstance(held, Key)
                                and held.color is color
                            )
                        )
                    )
                    check(
                        next_status
                        is (Door.Status.OPEN if should_open else status),
                        'door status', status, next_status, action,
                    )
                    if should_open:
                        opened += 1
                        check(reward == 1.0)
                        check(
                            isinstance(next_state.agent.grid_object, Key),
                            'key still held after opening',
                        )
                states[i] = next_state

        # re-seeding reproduces the very same initial states
        for env, shape in zip(envs, shapes):
            env.set_seed(seed)
            first = env.functional_reset()
            env.set_seed(seed)
            second = env.functional_reset()
            check(first == second and first is not second, shape)

    return opened


def part_directed_keydoor():
    """scripted episode: fetch the key, open the door, in a fixed layout"""
    env = make_keydoor_env(Shape(5, 7))
    grid = Grid.from_shape((5, 7), factory=Floor)
    for y in range(5):
        for x in range(7):
            if y in (0, 4) or x in (0, 6) or x == 3:
                grid[y, x] = Wall()
    door = Door(Door.Status.LOCKED, Color.YELLOW)
    grid[2, 3] = door
    grid[2, 1] = Key(Color.YELLOW)
    grid[3, 5] = Exit()
    state = State(grid, Agent(Position(2, 2), Orientation.R))

    def step(state, action):
        next_state, _, _ = env.functional_step(state, action)
        return next_state

    # facing the locked door without a key
    state = step(state, Action.ACTUATE)
    check(state.grid[2, 3].state is Door.Status.LOCKED)
    check(state.agent.position == Position(2, 2))
    # blocked by the locked door
    state = step(state, Action.MOVE_FORWARD)
    check(state.agent.position == Position(2, 2))
    # turn around, pick the key up
    state = step(step(state, Action.TURN_LEFT), Action.TURN_LEFT)
    check(state.agent.orientation is Orientation.L)
    state = step(state, Action.PICK_N_DROP)
    check(isinstance(state.agent.grid_object, Key))
    check(isinstance(state.grid[2, 1], Floor))
    # actuating while facing away from the door
    state = step(state, Action.ACTUATE)
    check(state.grid[2, 3].state is Door.Status.LOCKED)
    # every non-actuate action while facing the door with the key
    state = step(step(state, Action.TURN_RIGHT), Action.TURN_RIGHT)
    check(state.agent.orientation is Orientation.R)
    check(state.grid[2, 3].state is Door.Status.LOCKED)
    for action in (Action.MOVE_FORWARD, Action.MOVE_LEFT, Action.MOVE_RIGHT):
        next_state = step(state, action)
        check(next_state.grid[2, 3].state is Door.Status.LOCKED, action)
    state = step(state, Action.ACTUATE)
    check(state.grid[2, 3].state is Door.Status.OPEN)
    check(state.agent.grid_object == Key(Color.YELLOW))
    check(door.state is Door.Status.LOCKED)  # original state untouched
    state = step(state, Action.ACTUATE)
    check(state.grid[2, 3].state is Door.Status.OPEN)
    state = step(step(state, Action.MOVE_FORWARD), Action.MOVE_FORWARD)
    check(state.agent.position == Position(2, 4))
    # actuating from the other side keeps it open
    state = step(step(state, Action.TURN_LEFT), Action.TURN_LEFT)
    state = step(state, Action.ACTUATE)
    check(state.grid[2, 3].state is Door.Status.OPEN)
    check(state.agent.grid_object == Key(Color.YELLOW))


def part_agent_front():
    """Agent.front against hand-written arithmetic, for every heading"""
    from gym_gridverse.geometry import Transform

    coordinates = [-(10**9), -7, -1, 0, 1, 2, 5, 10**9, 2**70]
    for y, x, orientation in itertools.product(
        coordinates, coordinates, ORIENTATIONS
    ):
        agent = Agent(Position(y, x), orientation, Key(Color.RED))
        dy, dx = FRONT[orientation]
        for _ in range(2):  # repeated calls
            front = agent.front()
            check(type(front) is Position)
            check((front.y, front.x) == (y + dy, x + dx), y, x, orientation)
            check(type(front.y) is int and type(front.x) is int)
        # the old spelling, through the rigid body transform
        check(front == agent.transform * Position(-1, 0))
        check(
            front
            == Transform(Position(y, x), orientation)
            * Position.from_orientation(Orientation.F)
        )
        # the agent itself is left alone
        check(agent.position == Position(y, x))
        check(agent.orientation is orientation)
        check(front is not agent.position)

    # the pose may be changed in every supported way after construction
    agent = Agent(Position(3, 4), Orientation.F)
    check(agent.front() == Position(2, 4))
    agent.orientation = Orientation.R
    check(agent.front() == Position(3, 5))
    agent.position = Position(0, 0)
    check(agent.front() == Position(0, 1))
    agent.orientation *= Orientation.R
    check(agent.front() == Position(1, 0))
    agent.transform.orientation = Orientation.L
    check(agent.front() == Position(0, -1))
    agent.transform.position = Position(5, 5)
    check(agent.front() == Position(5, 4))
    agent.transform = Transform(Position(1, 1), Orientation.FORWARD)
    check(agent.front() == Position(0, 1))
    agent.orientation = Orientation.BACKWARD  # aliases
    check(agent.front() == Position(2, 1))

    # several agents do not interfere, cached unit steps are left alone
    agents = [Agent(Position(i, -i), o) for i, o in enumerate(ORIENTATIONS)]
    fronts = [a.front() for a in agents for _ in range(3)]
    check(
        [(p.y, p.x) for p in fronts[::3]]
        == [(-1, 0), (2, -1), (2, -3), (3, -2)]
    )
    for orientation in ORIENTATIONS:
        unit = Position.from_orientation(orientation)
        check((unit.y, unit.x) == FRONT[orientation])

    # pickndrop relies on the same faced cell
    for orientation in ORIENTATIONS:
        grid = Grid.from_shape((3, 3))
        dy, dx = FRONT[orientation]
        key = Key(Color.BLUE)
        grid[1 + dy, 1 + dx] = key
        state = State(grid, Agent(Position(1, 1), orientation))
        tf.pickndrop(state, Action.PICK_N_DROP)
        check(state.agent.grid_object is key)
        check(isinstance(state.grid[1 + dy, 1 + dx], Floor))


def main():
    part_agent_front()
    part_hand_written()
    part_relative_poses()
    part_all_positions()
    opened = part_keydoor_walks()
    part_directed_keydoor()
    print(f'C10 demo B: {CHECKS} checks passed ({opened} doors opened in walks)')


if __name__ == '__main__':
    main()
