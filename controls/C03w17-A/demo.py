"""Demo for change A (GridWorld wiring: private helpers for debug checks and transition).

Exits 0 on the pristine tree and with the patch applied.

Checks, through the public `GridWorld.functional_*` API only:

 1. exact wiring, with recording ("spy") components and spaces: which component
    is called, in which order, on which objects, with which `rng`, and where
    the debug-only membership checks sit;
 2. error behaviour of the debug checks (messages, order, debug on / off);
 3. equality with a reference implementation of the wiring embedded below, on
    shipped compositions (keydoor, dynamic obstacles, teleport, empty, and a
    hand-built non-square world with nested boxes, held items and
    open/closed/locked doors);
 4. the property itself: purity, alias-freedom, history-independence, copies
    equal and hash like their originals.
"""
import copy
import itertools
import os
import pickle
import sys
import warnings

warnings.filterwarnings('ignore')
sys.path.insert(0, os.getcwd())  # run from the worktree root

from gym_gridverse.action import Action  # noqa: E402
from gym_gridverse.agent import Agent  # noqa: E402
from gym_gridverse.debugging import reset_gv_debug  # noqa: E402
from gym_gridverse.envs import observation_functions as observation_fs  # noqa: E402
from gym_gridverse.envs import reset_functions as reset_fs  # noqa: E402
from gym_gridverse.envs import reward_functions as reward_fs  # noqa: E402
from gym_gridverse.envs import terminating_functions as terminating_fs  # noqa: E402
from gym_gridverse.envs import transition_functions as transition_fs  # noqa: E402
from gym_gridverse.envs.gridworld import GridWorld  # noqa: E402
from gym_gridverse.geometry import Area, Orientation, Position, Shape  # noqa: E402
from gym_gridverse.grid import Grid  # noqa: E402
from gym_gridverse.grid_object import (  # noqa: E402
    Beacon,
    Box,
    Color,
    Door,
    Exit,
    Floor,
    GridObject,
    Key,
    MovingObstacle,
    Telepod,
    Wall,
)
from gym_gridverse.observation import Observation  # noqa: E402
from gym_gridverse.spaces import (  # noqa: E402
    ActionSpace,
    ObservationSpace,
    StateSpace,
)
from gym_gridverse.state import State  # noqa: E402

CHECKS = 0


def check(condition, message):
    global CHECKS
    CHECKS += 1
    if not condition:
        print(f'FAIL: {message}')
        sys.exit(1)


# --------------------------------------------------------------------------
# helpers: structural snapshots and mutable-component identities
# --------------------------------------------------------------------------


def snap_object(obj):
    """Deep structural snapshot of a grid-object (Box content included)."""
    content = getattr(obj, 'content', None)
    return (
        type(obj).__name__,
        obj.state_index,
        obj.color,
        None if content is None else snap_object(content),
    )


def snapshot(state):
    """Deep structural snapshot of a state or observation."""
    return (
        state.grid.shape,
        tuple(
            tuple(snap_object(obj) for obj in row) for row in state.grid.objects
        ),
        state.agent.position,
        state.agent.orientation,
        snap_object(state.agent.grid_object),
    )


def mutable_ids(state):
    """ids of every mutable component reachable from a state."""
    ids = {id(state.grid), id(state.grid.objects), id(state.agent)}
    ids.add(id(state.agent.transform))

    def add_object(obj):
        while obj is not None:
            ids.add(id(obj))
            obj = getattr(obj, 'content', None)

    for row in state.grid.objects:
        ids.add(id(row))
        for obj in row:
            add_object(obj)
    add_object(state.agent.grid_object)
    return ids


def scribble(state):
    """Mutates every kind of mutable component of a state, in place."""
    state.agent.position = Position(0, 0)
    state.agent.orientation = Orientation.L
    state.agent.grid_object = Key(Color.YELLOW)
    for position in state.grid.area.positions():
        obj = state.grid[position]
        if isinstance(obj, Door):
            obj.state = Door.Status.OPEN
            obj.color = Color.YELLOW
        elif isinstance(obj, Box):
            obj.content = Beacon(Color.YELLOW)
        else:
            state.grid[position] = Wall()


# --------------------------------------------------------------------------
# reference implementation of the wiring (the pristine spelling)
# --------------------------------------------------------------------------


def ref_functional_reset(env, debug):
    state = env._reset_function(rng=env._rng)
    if debug and not env.state_space.contains(state):
        raise ValueError('state does not satisfy state_space')
    return state


def ref_functional_step(env, state, action, debug):
    if debug and not env.state_space.contains(state):
        raise ValueError('state does not satisfy state_space')
    if not env.action_space.contains(action):
        raise ValueError('action {action} does not satisfy action-space')

    next_state = pickle.loads(pickle.dumps(state))
    env._transition_function(next_state, action, rng=env._rng)

    if debug and not env.state_space.contains(next_state):
        raise ValueError('next_state does not satisfy state_space')

    reward = env._reward_function(state, action, next_state)
    terminal = env._termination_function(state, action, next_state)
    return (next_state, reward, terminal)


def ref_functional_observation(env, state, debug):
    observation = env._observation_function(state, rng=env._rng)
    if debug and not env.observation_space.contains(observation):
        raise ValueError('observation does not satisfy observation_space')
    return observation


# --------------------------------------------------------------------------
# part 1 + 2: exact wiring and error behaviour, with spies
# --------------------------------------------------------------------------


class SpySpace:
    def __init__(self, name, log, verdicts=None):
        self.name = name
        self.log = log
        self.verdicts = list(verdicts or [])

    def contains(self, x):
        self.log.append((f'{self.name}.contains', id(x)))
        return self.verdicts.pop(0) if self.verdicts else True


def tiny_state(orientation=Orientation.F):
    grid = Grid.from_shape((2, 3))
    grid[Position(0, 2)] = Box(Box(Key(Color.RED)))
    return State(grid, Agent(Position(1, 0), orientation, Key(Color.BLUE)))


def make_spy_env(
    log, *, state_verdicts=None, action_verdicts=None, obs_verdicts=None
):
    reset_state = tiny_state()
    observation = Observation(
        Grid.from_shape((2, 3)), Agent(Position(1, 1), Orientation.F)
    )
    seen = {}

    def reset_function(*args, **kwargs):
        log.append(('reset', args, dict(kwargs)))
        return reset_state

    def transition_function(*args, **kwargs):
        state, action = args
        seen['transition_arg'] = state
        seen['transition_arg_snapshot'] = snapshot(state)
        log.append(('transition', id(state), action, dict(kwargs)))
        state.agent.orientation = Orientation.B
        state.grid[Position(0, 2)].content.content = Key(Color.GREEN)
        return None

    def reward_function(*args, **kwargs):
        log.append(('reward', tuple(map(id, args[::2])), args[1], dict(kwargs)))
        return 2.5

    def termination_function(*args, **kwargs):
        log.append(
            ('termination', tuple(map(id, args[::2])), args[1], dict(kwargs))
        )
        return True

    def observation_function(*args, **kwargs):
        log.append(('observation', tuple(map(id, args)), dict(kwargs)))
        return observation

    env = GridWorld(
        SpySpace('state_space', log, state_verdicts),
        SpySpace('action_space', log, action_verdicts),
        SpySpace('observation_space', log, obs_verdicts),
        reset_function,
        transition_function,
        observation_function,
        reward_function,
        termination_function,
    )
    return env, reset_state, observation, seen


def expect_raises(function, message, what):
    try:
        function()
    except ValueError as error:
        check(str(error) == message, f'{what}: message {str(error)!r}')
    else:
        check(False, f'{what}: did not raise')


def test_wiring():
    for debug, seed in itertools.product([True, False], [None, 0, 1234]):
        reset_gv_debug(debug)
        log = []
        env, reset_state, observation, seen = make_spy_env(log)

        # before set_seed the rng is None, and None is what is forwarded
        check(env._rng is None, 'rng is None before set_seed')
        if seed is not None:
            env.set_seed(seed)
            check(env._rng is not None, 'set_seed installs a generator')
        rng = env._rng

        # ---- functional_reset
        state = env.functional_reset()
        check(state is reset_state, 'reset returns the reset-function state')
        expected = [('reset', (), {'rng': rng})]
        if debug:
            expected.append(('state_space.contains', id(state)))
        check(log == expected, f'reset wiring {log} != {expected}')
        check(log[0][2]['rng'] is rng, 'reset receives the env rng itself')

        # ---- functional_step
        del log[:]
        before = snapshot(state)
        next_state, reward, terminal = env.functional_step(
            state, Action.ACTUATE
        )
        copied = seen['transition_arg']
        check(copied is next_state, 'transition ran on the returned state')
        check(copied is not state, 'transition did not run on the input')
        check(
            seen['transition_arg_snapshot'] == before,
            'transition received an exact copy of the input',
        )
        check(snapshot(state) == before, 'input state not modified by step')
        check(
            snapshot(next_state) != before, 'spy transition modified the copy'
        )
        check(
            not (mutable_ids(state) & mutable_ids(next_state)),
            'no shared mutable component',
        )
        check((reward, terminal) == (2.5, True), 'reward / terminal passed on')
        check(
            type(reward) is float and terminal is True, 'result types passed on'
        )

        pair = (id(state), id(next_state))
        expected = []
        if debug:
            expected.append(('state_space.contains', id(state)))
        expected.append(('action_space.contains', id(Action.ACTUATE)))
        expected.append(
            ('transition', id(next_state), Action.ACTUATE, {'rng': rng})
        )
        if debug:
            expected.append(('state_space.contains', id(next_state)))
        expected.append(('reward', pair, Action.ACTUATE, {}))
        expected.append(('termination', pair, Action.ACTUATE, {}))
        check(log == expected, f'step wiring {log} != {expected}')
        check(log[2 if debug else 1][3]['rng'] is rng, 'transition gets env rng')

        # ---- functional_observation
        del log[:]
        result = env.functional_observation(state)
        check(result is observation, 'observation passed through')
        expected = [('observation', (id(state),), {'rng': rng})]
        if debug:
            expected.append(('observation_space.contains', id(observation)))
        check(log == expected, f'observation wiring {log} != {expected}')
        check(snapshot(state) == before, 'input state not modified by obs')

        # ---- re-seeding replaces the generator, same seed => same stream
        env.set_seed(99)
        first = env._rng
        draws = first.integers(0, 1 << 30, size=4).tolist()
        env.set_seed(99)
        check(env._rng is not first, 're-seeding installs a new generator')
        check(
            env._rng.integers(0, 1 << 30, size=4).tolist() == draws,
            're-seeding restarts the stream',
        )


def test_errors():
    bad_action = 'action {action} does not satisfy action-space'

    # debug on: bad input state -> raised before anything else happens
    reset_gv_debug(True)
    log = []
    env, state, _, _ = make_spy_env(log, state_verdicts=[False])
    expect_raises(
        lambda: env.functional_step(state, Action.TURN_LEFT),
        'state does not satisfy state_space',
        'bad state',
    )
    check(log == [('state_space.contains', id(state))], f'bad state log {log}')

    # debug on: bad state AND bad action -> the state error comes first
    log = []
    env, state, _, _ = make_spy_env(
        log, state_verdicts=[False], action_verdicts=[False]
    )
    expect_raises(
        lambda: env.functional_step(state, Action.TURN_LEFT),
        'state does not satisfy state_space',
        'bad state and action',
    )

    # bad action -> raised with debug on and off, before the transition
    for debug in (True, False):
        reset_gv_debug(debug)
        log = []
        env, state, _, _ = make_spy_env(log, action_verdicts=[False])
        expect_raises(
            lambda: env.functional_step(state, Action.TURN_LEFT),
            bad_action,
            'bad action',
        )
        names = [entry[0] for entry in log]
        check(
            names
            == (['state_space.contains'] if debug else [])
            + ['action_space.contains'],
            f'bad action log {names}',
        )

    # debug on: bad next state -> raised before reward / termination
    reset_gv_debug(True)
    log = []
    env, state, _, _ = make_spy_env(log, state_verdicts=[True, False])
    expect_raises(
        lambda: env.functional_step(state, Action.TURN_LEFT),
        'next_state does not satisfy state_space',
        'bad next state',
    )
    names = [entry[0] for entry in log]
    check(
        names
        == [
            'state_space.contains',
            'action_space.contains',
            'transition',
            'state_space.contains',
        ],
        f'bad next state log {names}',
    )

    # debug on: bad reset state, bad observation
    log = []
    env, state, _, _ = make_spy_env(
        log, state_verdicts=[False], obs_verdicts=[False]
    )
    expect_raises(
        env.functional_reset, 'state does not satisfy state_space', 'bad reset'
    )
    expect_raises(
        lambda: env.functional_observation(state),
        'observation does not satisfy observation_space',
        'bad observation',
    )

    # debug off: nothing but the action check is ever consulted
    reset_gv_debug(False)
    log = []
    env, state, _, _ = make_spy_env(
        log, state_verdicts=[False] * 9, obs_verdicts=[False] * 9
    )
    env.functional_reset()
    env.functional_step(state, Action.TURN_LEFT)
    env.functional_observation(state)
    names = [entry[0] for entry in log]
    check(
        names
        == [
            'reset',
            'action_space.contains',
            'transition',
            'reward',
            'termination',
            'observation',
        ],
        f'debug-off log {names}',
    )


# --------------------------------------------------------------------------
# part 3 + 4: shipped compositions
# --------------------------------------------------------------------------

ALL_OBJECT_TYPES = [
    Floor,
    Wall,
    Exit,
    Door,
    Key,
    MovingObstacle,
    Box,
    Telepod,
    Beacon,
]
ALL_COLORS = list(Color)


def awkward_state(orientation=Orientation.F, position=Position(3, 0)):
    """Hand-built 4 x 7 world: nested boxes, all door states, held item."""
    grid = Grid.from_shape((4, 7))
    grid[Position(0, 0)] = Box(Box(Key(Color.RED)))
    grid[Position(0, 6)] = Door(Door.Status.LOCKED, Color.BLUE)
    grid[Position(1, 1)] = Door(Door.Status.CLOSED, Color.NONE)
    grid[Position(2, 0)] = Door(Door.Status.OPEN, Color.GREEN)
    grid[Position(3, 6)] = Exit()
    grid[Position(3, 1)] = Key(Color.GREEN)
    grid[Position(2, 6)] = Box(Telepod(Color.YELLOW))
    grid[Position(1, 3)] = Telepod(Color.RED)
    grid[Position(2, 4)] = Telepod(Color.RED)
    grid[Position(0, 3)] = MovingObstacle()
    grid[Position(1, 5)] = Wall()
    grid[Position(3, 3)] = Beacon(Color.NONE)
    return State(grid, Agent(position, orientation, Key(Color.BLUE)))


def awkward_reset(*, rng=None):
    return awkward_state()


def make_components(kind):
    """Returns (reset, transition, reward, termination), freshly built."""
    transition_names = [
        'move_obstacles',
        'turn_agent',
        'move_agent',
        'actuate_door',
        'actuate_box',
        'pickndrop',
        'teleport',
    ]
    if kind == 'keydoor':
        reset = reset_fs.factory('keydoor', shape=Shape(5, 8))
    elif kind == 'obstacles':
        reset = reset_fs.factory(
            'dynamic_obstacles',
            shape=Shape(6, 9),
            num_obstacles=5,
            random_agent=True,
        )
    elif kind == 'teleport':
        reset = reset_fs.factory('teleport', shape=Shape(7, 6))
    elif kind == 'empty':
        reset = reset_fs.factory(
            'empty', shape=Shape(4, 5), random_agent=True, random_exit=True
        )
    elif kind == 'awkward':
        reset = awkward_reset
    elif kind == 'empty-chain':
        # extreme but legal: nothing configured at all
        reset = awkward_reset
        transition_names = []
    else:
        raise AssertionError(kind)

    transition = transition_fs.factory(
        'chain',
        transition_functions=[
            transition_fs.factory(name) for name in transition_names
        ],
    )
    if kind == 'empty-chain':
        reward = reward_fs.factory('reduce_sum', reward_functions=[])
        termination = terminating_fs.factory(
            'reduce_any', terminating_functions=[]
        )
    else:
        reward = reward_fs.factory(
            'reduce_sum',
            reward_functions=[
                reward_fs.factory('living_reward', reward=-0.25),
                reward_fs.factory('reach_exit', reward_on=5.0),
                reward_fs.factory('bump_moving_obstacle', reward=-3.0),
                reward_fs.factory('bump_into_wall', reward=-0.5),
                reward_fs.factory('actuate_door', reward_open=0.125),
                reward_fs.factory('pickndrop', object_type=Key),
                reward_fs.factory('getting_closer', object_type=Exit),
            ],
        )
        termination = terminating_fs.factory(
            'reduce_any',
            terminating_functions=[
                terminating_fs.factory('reach_exit'),
                terminating_fs.factory('bump_moving_obstacle'),
            ],
        )
    return reset, transition, reward, termination


OBSERVATIONS = [
    # (observation function name, observation-space shape or None, area)
    ('partially_occluded', Shape(5, 5), None),
    ('raytracing', Shape(3, 7), None),
    ('fully_transparent', Shape(1, 1), None),
    ('stochastic_raytracing', Shape(4, 3), None),
    # asymmetric view area: not expressible as an ObservationSpace
    ('raytracing', None, Area((-4, 1), (-1, 3))),
]


def make_env(kind, observation_index):
    reset, transition, reward, termination = make_components(kind)
    name, shape, area = OBSERVATIONS[observation_index]
    state_shape = reset().grid.shape
    state_space = StateSpace(state_shape, ALL_OBJECT_TYPES, ALL_COLORS)
    if shape is not None:
        observation_space = ObservationSpace(
            shape, ALL_OBJECT_TYPES, ALL_COLORS
        )
        area = observation_space.area
    else:
        # only consulted in debug mode; asymmetric areas are run debug-off
        observation_space = ObservationSpace(
            Shape(3, 3), ALL_OBJECT_TYPES, ALL_COLORS
        )
    observation = observation_fs.factory(name, area=area)
    env = GridWorld(
        state_space,
        ActionSpace(list(Action)),
        observation_space,
        reset,
        transition,
        observation,
        reward,
        termination,
    )
    return env, shape is not None


def churn(envs):
    """Intervening calls on several environments (fills every cache)."""
    for env, _ in envs:
        env.set_seed(7)
        state = env.functional_reset()
        for action in list(Action) * 2:
            env.functional_observation(state)
            state, _, terminal = env.functional_step(state, action)
            if terminal:
                state = env.functional_reset()


def ask(env, seed, state, action):
    """One deterministic question: re-seed, step, observe."""
    env.set_seed(seed)
    next_state, reward, terminal = env.functional_step(state, action)
    observation = env.functional_observation(next_state)
    return (snapshot(next_state), reward, terminal, snapshot(observation))


def states_of(env, kind):
    """A handful of states of an environment, awkward ones included."""
    states = []
    for seed in (0, 1):
        env.set_seed(seed)
        states.append(env.functional_reset())
    if kind in ('awkward', 'empty-chain'):
        corners = [
            Position(3, 0),
            Position(0, 1),
            Position(3, 5),
            Position(1, 6),
            Position(2, 1),
            Position(1, 2),
            Position(2, 5),
            Position(1, 4),
        ]
        for position, orientation in zip(corners, list(Orientation) * 2):
            states.append(awkward_state(orientation, position))
    else:
        # walk a little, so that agents reach borders and objects get used
        env.set_seed(3)
        state = states[0]
        walk = [
            Action.TURN_LEFT,
            Action.MOVE_FORWARD,
            Action.MOVE_FORWARD,
            Action.PICK_N_DROP,
            Action.TURN_RIGHT,
            Action.ACTUATE,
            Action.MOVE_LEFT,
            Action.MOVE_BACKWARD,
        ]
        for action in walk:
            state, _, _ = env.functional_step(state, action)
            states.append(state)
    return states


def test_compositions():
    kinds = ['awkward', 'keydoor', 'obstacles', 'teleport', 'empty']
    kinds.append('empty-chain')

    for kind in kinds:
        for observation_index in range(len(OBSERVATIONS)):
            env, debuggable = make_env(kind, observation_index)
            twin, _ = make_env(kind, observation_index)
            others = [
                make_env(other, (observation_index + 1) % len(OBSERVATIONS))
                for other in ('keydoor', 'obstacles', 'awkward')
            ]
            # the wrapped observation spaces of `others` may not match their
            # areas: run the churn without debug checks
            for debug in [True, False] if debuggable else [False]:
                reset_gv_debug(debug)

                # reset equals the reference, seed by seed
                for seed in (0, 5):
                    env.set_seed(seed)
                    twin.set_seed(seed)
                    check(
                        snapshot(env.functional_reset())
                        == snapshot(ref_functional_reset(twin, debug)),
                        f'{kind}: reset equals reference',
                    )

                for state in states_of(env, kind):
                    before = snapshot(state)
                    before_hash = hash(state)
                    for action in Action:
                        # equality with the reference, same seed
                        env.set_seed(11)
                        twin.set_seed(11)
                        result = env.functional_step(state, action)
                        reference = ref_functional_step(
                            twin, state, action, debug
                        )
                        next_state, reward, terminal = result
                        check(
                            snapshot(next_state) == snapshot(reference[0])
                            and next_state == reference[0]
                            and hash(next_state) == hash(reference[0]),
                            f'{kind} {action}: next state equals reference',
                        )
                        check(
                            (reward, terminal) == reference[1:]
                            and type(reward) is type(reference[1])
                            and type(terminal) is type(reference[2]),
                            f'{kind} {action}: reward/terminal equal reference',
                        )
                        observation = env.functional_observation(next_state)
                        check(
                            snapshot(observation)
                            == snapshot(
                                ref_functional_observation(
                                    twin, next_state, debug
                                )
                            ),
                            f'{kind} {action}: observation equals reference',
                        )

                        # purity
                        check(
                            snapshot(state) == before
                            and hash(state) == before_hash,
                            f'{kind} {action}: input state untouched',
                        )
                        # alias-freedom
                        check(
                            not (mutable_ids(state) & mutable_ids(next_state)),
                            f'{kind} {action}: shared mutable component',
                        )
                        after = snapshot(next_state)
                        check(
                            snapshot(state) == before and after == snapshot(reference[0]),
                            f'{kind} {action}: observation modified a state',
                        )
                        throwaway = copy.deepcopy(state)
                        scribble(throwaway)
                        check(
                            snapshot(state) == before,
                            f'{kind} {action}: deepcopy shares with original',
                        )

                        # copies equal and hash like the original
                        for duplicate in (
                            copy.deepcopy(next_state),
                            pickle.loads(pickle.dumps(next_state)),
                        ):
                            check(
                                duplicate == next_state
                                and hash(duplicate) == hash(next_state)
                                and snapshot(duplicate) == after,
                                f'{kind} {action}: copy equals original',
                            )

                        # changing the next state cannot affect the input
                        scribble(next_state)
                        check(
                            snapshot(state) == before,
                            f'{kind} {action}: next-state edit leaked',
                        )

                # history independence: same question, after other calls
                reset_gv_debug(False)
                questions = [
                    (state, action)
                    for state in states_of(env, kind)[:4]
                    for action in Action
                ]
                first = [ask(env, 21, *question) for question in questions]
                churn(others + [(env, None), (twin, None)])
                again = [ask(env, 21, *question) for question in questions]
                check(first == again, f'{kind}: answers changed with history')
                elsewhere = [ask(twin, 21, *question) for question in questions]
                check(
                    first == elsewhere, f'{kind}: answers differ across envs'
                )


def main():
    test_wiring()
    test_errors()
    test_compositions()
    reset_gv_debug(None)
    print(f'OK ({CHECKS} checks)')


if __name__ == '__main__':
    main()
