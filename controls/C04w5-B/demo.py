"""Check program for property C04 (stateful interface mirrors the functional
one; observations are never stale).

Run as:  cd /tmp/wt5-C04 && /venv/bin/python -W ignore _seed/B/demo.py

The program drives environments through the public stateful API
(`reset`/`step`/`state`/`observation`, inner / outer / gym flavours) with many
configurations, seeds, action sequences and read patterns, and compares every
single result against an INDEPENDENT re-implementation (`RefEnv`, below) which
does not use `InnerEnv`/`GridWorld` at all:  it only threads a numpy generator
through the raw reset / transition / observation / reward / termination
callables.  It additionally cross-checks against the functional interface of a
second environment instance, counts calls of the component functions, and
checks object identity / aliasing, error behaviour and RNG consumption.
"""
import copy
import os
import pickle
import random
import sys

sys.path.insert(0, os.getcwd())

import numpy as np  # noqa: E402
import numpy.random as rnd  # noqa: E402

from gym_gridverse.action import Action  # noqa: E402
from gym_gridverse.debugging import reset_gv_debug  # noqa: E402
from gym_gridverse.envs.gridworld import GridWorld  # noqa: E402
from gym_gridverse.envs.inner_env import InnerEnv  # noqa: E402
from gym_gridverse.envs.yaml import factory as yfactory  # noqa: E402
from gym_gridverse.geometry import Position  # noqa: E402
from gym_gridverse.grid_object import Color, Key  # noqa: E402
from gym_gridverse.gym import GymEnvironment, GymStateWrapper  # noqa: E402
from gym_gridverse.outer_env import OuterEnv  # noqa: E402
from gym_gridverse.representations.observation_representations import (  # noqa: E402
    make_observation_representation,
)
from gym_gridverse.representations.state_representations import (  # noqa: E402
    make_state_representation,
)

CHECKS = 0
STATS = {'done': 0, 'steps': 0}


def check(condition, message='check failed'):
    global CHECKS
    CHECKS += 1
    if not condition:
        raise AssertionError(message)


def raises(exc_type, function, message=None):
    """runs function, checks that it raises exactly exc_type (and message)"""
    try:
        function()
    except Exception as e:  # pylint: disable=broad-except
        check(type(e) is exc_type, f'expected {exc_type}, got {e!r}')
        if message is not None:
            check(str(e) == message, f'expected {message!r}, got {str(e)!r}')
        return e
    raise AssertionError(f'expected {exc_type}, nothing raised')


# --------------------------------------------------------------------------
# configurations (python transcription of shipped yaml files + variations)
# --------------------------------------------------------------------------

MOVE_TURN = [
    'MOVE_FORWARD',
    'MOVE_BACKWARD',
    'MOVE_LEFT',
    'MOVE_RIGHT',
    'TURN_LEFT',
    'TURN_RIGHT',
]

GETTING_CLOSER = {
    'name': 'getting_closer',
    'distance_function': 'manhattan',
    'object_type': 'Exit',
    'reward_closer': 0.2,
    'reward_further': -0.2,
}
REACH_EXIT = {'name': 'reach_exit', 'reward_on': 5.0, 'reward_off': 0.0}
LIVING = {'name': 'living_reward', 'reward': -0.05}
DEFAULT_OBS = {'name': 'partially_occluded', 'area': [[-6, 0], [-3, 3]]}


def cfg_empty(shape, random_agent=True):
    return {
        'state_space': {'objects': ['Wall', 'Floor', 'Exit'], 'colors': ['NONE']},
        'action_space': list(MOVE_TURN),
        'observation_space': {
            'objects': ['Wall', 'Floor', 'Exit'],
            'colors': ['NONE'],
        },
        'reset_function': {
            'name': 'empty',
            'shape': list(shape),
            'random_agent': random_agent,
        },
        'transition_functions': [{'name': 'move_agent'}, {'name': 'turn_agent'}],
        'reward_functions': [REACH_EXIT, GETTING_CLOSER, LIVING],
        'observation_function': DEFAULT_OBS,
        'terminating_function': {'name': 'reach_exit'},
    }


def cfg_keydoor(shape):
    objects = ['Wall', 'Floor', 'Exit', 'Door', 'Key']
    return {
        'state_space': {'objects': objects, 'colors': ['NONE', 'YELLOW']},
        'observation_space': {'objects': objects, 'colors': ['NONE', 'YELLOW']},
        'reset_function': {'name': 'keydoor', 'shape': list(shape)},
        'transition_functions': [
            {'name': 'move_agent'},
            {'name': 'turn_agent'},
            {'name': 'actuate_door'},
            {'name': 'pickndrop'},
        ],
        'reward_functions': [
            REACH_EXIT,
            {
                'name': 'pickndrop',
                'object_type': 'Key',
                'reward_pick': 1.0,
                'reward_drop': -1.0,
            },
            {'name': 'actuate_door', 'reward_open': 1.0, 'reward_close': -1.0},
            GETTING_CLOSER,
            LIVING,
        ],
        'observation_function': DEFAULT_OBS,
        'terminating_function': {'name': 'reach_exit'},
    }


def cfg_dynamic_obstacles(shape, num_obstacles, random_agent=False):
    objects = ['Wall', 'Floor', 'Exit', 'MovingObstacle']
    return {
        'state_space': {'objects': objects, 'colors': ['NONE']},
        'action_space': list(MOVE_TURN),
        'observation_space': {'objects': objects, 'colors': ['NONE']},
        'reset_function': {
            'name': 'dynamic_obstacles',
            'shape': list(shape),
            'num_obstacles': num_obstacles,
            'random_agent': random_agent,
        },
        'transition_functions': [
            {'name': 'move_agent'},
            {'name': 'turn_agent'},
            {'name': 'move_obstacles'},
        ],
        'reward_functions': [
            REACH_EXIT,
            {'name': 'bump_moving_obstacle', 'reward': -1.0},
            {'name': 'bump_into_wall', 'reward': -1.0},
            GETTING_CLOSER,
            LIVING,
        ],
        'observation_function': DEFAULT_OBS,
        'terminating_function': {
            'name': 'reduce_any',
            'terminating_functions': [
                {'name': 'reach_exit'},
                {'name': 'bump_moving_obstacle'},
                {'name': 'bump_into_wall'},
            ],
        },
    }


def cfg_teleport(shape):
    objects = ['Wall', 'Floor', 'Exit', 'Telepod']
    return {
        'state_space': {'objects': objects, 'colors': ['NONE', 'RED']},
        'action_space': list(MOVE_TURN),
        'observation_space': {'objects': objects, 'colors': ['NONE', 'RED']},
        'reset_function': {
            'name': 'teleport',
            'shape': list(shape),
            'random_agent': True,
        },
        'transition_functions': [
            {'name': 'move_agent'},
            {'name': 'turn_agent'},
            {'name': 'teleport'},
        ],
        'reward_functions': [REACH_EXIT, GETTING_CLOSER, LIVING],
        'observation_function': DEFAULT_OBS,
        'terminating_function': {'name': 'reach_exit'},
    }


def cfg_memory(shape):
    objects = ['Wall', 'Floor', 'Exit', 'Beacon']
    colors = ['NONE', 'RED', 'GREEN', 'BLUE', 'YELLOW']
    return {
        'state_space': {'objects': objects, 'colors': colors},
        'action_space': list(MOVE_TURN),
        'observation_space': {'objects': objects, 'colors': colors},
        'reset_function': {
            'name': 'memory',
            'shape': list(shape),
            'colors': ['RED', 'GREEN', 'BLUE', 'YELLOW'],
        },
        'transition_functions': [{'name': 'move_agent'}, {'name': 'turn_agent'}],
        'reward_functions': [
            {'name': 'reach_exit_memory', 'reward_good': 5.0, 'reward_bad': -5.0},
            LIVING,
        ],
        'observation_function': DEFAULT_OBS,
        'terminating_function': {'name': 'reach_exit'},
    }


def cfg_crossing(shape, num_rivers):
    cfg = cfg_empty(shape)
    cfg['reset_function'] = {
        'name': 'crossing',
        'shape': list(shape),
        'num_rivers': num_rivers,
        'object_type': 'Wall',
    }
    return cfg


def cfg_rooms(shape, layout):
    cfg = cfg_empty(shape)
    cfg['reset_function'] = {
        'name': 'rooms',
        'shape': list(shape),
        'layout': list(layout),
    }
    return cfg


def with_observation(cfg, name, area):
    cfg = copy.deepcopy(cfg)
    cfg['observation_function'] = {'name': name, 'area': area}
    return cfg


def shipped_configs():
    return {
        'empty.4x4': cfg_empty((4, 4)),
        'empty.8x8': cfg_empty((8, 8)),
        'keydoor.5x5': cfg_keydoor((5, 5)),
        'keydoor.7x7': cfg_keydoor((7, 7)),
        'dynamic_obstacles.5x5': cfg_dynamic_obstacles((5, 5), 1),
        'dynamic_obstacles.7x7': cfg_dynamic_obstacles((7, 7), 3),
        'teleport.5x5': cfg_teleport((5, 5)),
        'teleport.7x7': cfg_teleport((7, 7)),
        'memory.5x5': cfg_memory((5, 5)),
        'crossing.5x5': cfg_crossing((5, 5), 1),
        'crossing.7x7': cfg_crossing((7, 7), 2),
        'four_rooms.7x7': cfg_rooms((7, 7), (2, 2)),
        'nine_rooms.10x10': cfg_rooms((10, 10), (3, 3)),
    }


def random_configs(prng, n):
    """random variations: base config x observation function x area"""
    bases = [
        lambda: cfg_empty(prng.choice([(4, 4), (5, 7), (6, 5)]), prng.random() < 0.5),
        lambda: cfg_keydoor(prng.choice([(5, 5), (6, 7), (9, 9)])),
        lambda: cfg_dynamic_obstacles(
            prng.choice([(5, 5), (6, 6), (7, 5)]),
            prng.choice([1, 2, 3]),
            prng.random() < 0.5,
        ),
        lambda: cfg_teleport(prng.choice([(5, 5), (6, 8)])),
        lambda: cfg_memory(prng.choice([(5, 5), (7, 9)])),
        lambda: cfg_crossing(prng.choice([(5, 5), (7, 7), (9, 7)]), 1),
        lambda: cfg_rooms((7, 7), (2, 2)),
    ]
    obs_names = [
        'partially_occluded',
        'fully_transparent',
        'raytracing',
        'stochastic_raytracing',
        'stochastic_raytracing',
    ]
    areas = [
        [[-6, 0], [-3, 3]],
        [[-2, 2], [-2, 2]],
        [[-3, 1], [-1, 1]],
        [[-1, 0], [-1, 1]],
        [[-4, 4], [-4, 4]],
    ]
    configs = {}
    for i in range(n):
        base = prng.choice(bases)()
        name = prng.choice(obs_names)
        area = prng.choice(areas)
        if name == 'partially_occluded':
            # only implemented for agents on the bottom row of the view
            area = [[area[0][0] - area[0][1], 0], area[1]]
        configs[f'random{i}.{base["reset_function"]["name"]}.{name}'] = (
            with_observation(base, name, area)
        )
    return configs


# --------------------------------------------------------------------------
# building components / environments
# --------------------------------------------------------------------------


def build_components(cfg):
    """raw callables + spaces, built WITHOUT going through GridWorld"""
    data = copy.deepcopy(cfg)
    state_space_builder = yfactory.factory_state_space_builder(
        copy.deepcopy(data['state_space'])
    )
    action_space = (
        yfactory.factory_action_space(list(data['action_space']))
        if 'action_space' in data
        else yfactory.ActionSpace(list(Action))
    )
    observation_space_builder = yfactory.factory_observation_space_builder(
        copy.deepcopy(data['observation_space'])
    )
    reset_function = yfactory.factory_reset_function(
        copy.deepcopy(data['reset_function'])
    )
    transition_function = yfactory.factory_transition_function(
        {
            'name': 'chain',
            'transition_functions': copy.deepcopy(data['transition_functions']),
        }
    )
    reward_function = yfactory.factory_reward_function(
        {
            'name': 'reduce_sum',
            'reward_functions': copy.deepcopy(data['reward_functions']),
        }
    )
    observation_function = yfactory.factory_observation_function(
        copy.deepcopy(data['observation_function'])
    )
    terminating_function = yfactory.factory_terminating_function(
        copy.deepcopy(data['terminating_function'])
    )

    state = reset_function()
    state_space_builder.set_grid_shape(state.grid.shape)
    state_space = state_space_builder.build()
    observation = observation_function(state)
    observation_space_builder.set_grid_shape(observation.grid.shape)
    observation_space = observation_space_builder.build()

    return dict(
        state_space=state_space,
        action_space=action_space,
        observation_space=observation_space,
        reset_function=reset_function,
        transition_function=transition_function,
        observation_function=observation_function,
        reward_function=reward_function,
        termination_function=terminating_function,
    )


def build_env(cfg) -> InnerEnv:
    """the library's own way of building the environment"""
    return yfactory.factory_env_from_data(copy.deepcopy(cfg))


class Counter:
    """wraps a callable, counts calls and remembers the arguments"""

    def __init__(self, function):
        self.function = function
        self.calls = []

    def __call__(self, *args, **kwargs):
        self.calls.append((args, kwargs))
        return self.function(*args, **kwargs)


def build_counting_env(cfg):
    components = build_components(cfg)
    counters = {
        key: Counter(components[key])
        for key in (
            'reset_function',
            'transition_function',
            'observation_function',
            'reward_function',
            'termination_function',
        )
    }
    env = GridWorld(
        components['state_space'],
        components['action_space'],
        components['observation_space'],
        counters['reset_function'],
        counters['transition_function'],
        counters['observation_function'],
        counters['reward_function'],
        counters['termination_function'],
    )
    return env, counters


# --------------------------------------------------------------------------
# independent reference implementation
# --------------------------------------------------------------------------


class RefEnv:
    """Reference semantics of the stateful interface.

    Written from the specification;  does not use InnerEnv / GridWorld.
    """

    def __init__(self, components, seed):
        self.c = components
        self.rng = rnd.default_rng(seed)
        self.state = None
        self.observation = None  # observation of the *current* state, if read

    def reset(self):
        self.state = self.c['reset_function'](rng=self.rng)
        self.observation = None

    def step(self, action):
        assert self.state is not None
        assert action in self.c['action_space'].actions
        state = self.state
        next_state = pickle.loads(pickle.dumps(state))
        self.c['transition_function'](next_state, action, rng=self.rng)
        reward = self.c['reward_function'](state, action, next_state)
        done = self.c['termination_function'](state, action, next_state)
        self.state = next_state
        self.observation = None
        return reward, done

    def read_observation(self):
        if self.observation is None:
            self.observation = self.c['observation_function'](
                self.state, rng=self.rng
            )
        return self.observation


def rng_state(generator):
    return pickle.dumps(generator.bit_generator.state)


def env_rng_state(env):
    # no public accessor;  the generator lives in GridWorld._rng
    return rng_state(getattr(env, '_rng'))


def same_arrays(a, b):
    return (
        isinstance(a, dict)
        and isinstance(b, dict)
        and list(a.keys()) == list(b.keys())
        and all(
            isinstance(a[k], np.ndarray)
            and a[k].dtype == b[k].dtype
            and a[k].shape == b[k].shape
            and np.array_equal(a[k], b[k])
            for k in a
        )
    )


# --------------------------------------------------------------------------
# schedules:  action sequences with reads and mid-way resets
# --------------------------------------------------------------------------

READ_PATTERNS = ['none', 'once', 'thrice', 'random', 'state_only', 'sparse']


def reads_for(pattern, prng):
    """(number of observation reads, number of state reads) for one state"""
    if pattern == 'none':
        return 0, 0
    if pattern == 'once':
        return 1, 1
    if pattern == 'thrice':
        return 3, 3
    if pattern == 'state_only':
        return 0, prng.randrange(1, 4)
    if pattern == 'sparse':
        return (prng.randrange(1, 3) if prng.random() < 0.25 else 0), 0
    return prng.randrange(0, 4), prng.randrange(0, 4)


def make_schedule(prng, actions, length, pattern, reset_probability):
    """list of ('reset' | action, n_obs_reads, n_state_reads)"""
    schedule = [('reset',) + reads_for(pattern, prng)]
    for _ in range(length):
        if prng.random() < reset_probability:
            schedule.append(('reset',) + reads_for(pattern, prng))
        else:
            schedule.append((prng.choice(actions),) + reads_for(pattern, prng))
    return schedule


# --------------------------------------------------------------------------
# 1. stateful inner env == reference == functional threading
# --------------------------------------------------------------------------


def run_inner_trajectory(cfg, components, seed, schedule, reset_on_done):
    env = build_env(cfg)
    env.set_seed(seed)
    ref = RefEnv(components, seed)

    # functional threading through a *second* library environment
    fenv = build_env(cfg)
    fenv.set_seed(seed)
    fstate = None

    check(env_rng_state(env) == rng_state(ref.rng))

    pending_reset = False
    for op, n_obs, n_state in schedule:
        if pending_reset:
            op = 'reset'
            pending_reset = False

        previous_state = env.state if ref.state is not None else None
        previous_copy = copy.deepcopy(previous_state)
        previous_obs = (
            env.observation if ref.observation is not None else None
        )

        if op == 'reset':
            result = env.reset()
            check(result is None)
            ref.reset()
            fstate = fenv.functional_reset()
        else:
            reward, done = env.step(op)
            ref_reward, ref_done = ref.step(op)
            fstate_next, freward, fdone = fenv.functional_step(fstate, op)
            check(fstate is not fstate_next)
            fstate = fstate_next
            check(type(reward) is type(ref_reward) and reward == ref_reward)
            check(type(done) is type(ref_done) and done == ref_done)
            check(reward == freward and done == fdone)
            STATS['done'] += bool(done)
            STATS['steps'] += 1
            if done and reset_on_done:
                pending_reset = True

        # rng consumption identical after the state update
        check(env_rng_state(env) == rng_state(ref.rng), 'rng after update')
        check(env_rng_state(fenv) == rng_state(ref.rng), 'functional rng')

        # interleaved reads, in random-ish but deterministic order
        reads = ['o'] * n_obs + ['s'] * n_state
        random.Random(len(reads) * 7919 + n_obs).shuffle(reads)
        first_obs = None
        first_state = None
        fobs = None
        for read in reads:
            if read == 's':
                before = env_rng_state(env)
                state = env.state
                check(env_rng_state(env) == before, 'state read used rng')
                check(state == ref.state, 'state differs from reference')
                check(state == fstate, 'state differs from functional')
                if first_state is None:
                    first_state = state
                check(state is first_state, 'state identity not stable')
                if previous_state is not None:
                    # new state object, old one untouched
                    check(state is not previous_state)
                    check(previous_state == previous_copy)
            else:
                had_observation = ref.observation is not None
                before = env_rng_state(env)
                observation = env.observation
                expected = ref.read_observation()
                check(observation == expected, 'observation differs')
                check(env_rng_state(env) == rng_state(ref.rng), 'obs rng')
                if had_observation:
                    check(env_rng_state(env) == before, 'repeat read used rng')
                if first_obs is None:
                    first_obs = observation
                    fobs = fenv.functional_observation(fstate)
                    check(env_rng_state(fenv) == rng_state(ref.rng))
                check(observation is first_obs, 'observation not memoized')
                check(observation == fobs, 'differs from functional obs')
                if previous_obs is not None:
                    check(observation is not previous_obs, 'stale observation')

        if not reads:
            # nothing was read: no randomness may have been consumed
            check(env_rng_state(env) == rng_state(ref.rng))

    # final comparison (forces reads)
    check(env.state == ref.state)
    check(env.observation == ref.read_observation())
    check(env_rng_state(env) == rng_state(ref.rng))


def section_inner(configs, seeds, prng):
    for name, cfg in configs.items():
        components = build_components(cfg)
        actions = components['action_space'].actions
        for seed in seeds:
            for pattern in READ_PATTERNS:
                schedule = make_schedule(
                    prng,
                    actions,
                    length=30,
                    pattern=pattern,
                    reset_probability=0.08,
                )
                run_inner_trajectory(
                    cfg,
                    components,
                    seed,
                    schedule,
                    reset_on_done=prng.random() < 0.7,
                )


# --------------------------------------------------------------------------
# 2. call counting:  at most one observation per state, nothing stale
# --------------------------------------------------------------------------


def section_counting(configs, seeds, prng):
    for name, cfg in configs.items():
        for seed in seeds:
            env, counters = build_counting_env(cfg)
            env.set_seed(seed)
            rng_object = getattr(env, '_rng')
            actions = env.action_space.actions
            schedule = make_schedule(prng, actions, 25, 'random', 0.1)

            n_resets = n_steps = n_observed_states = 0
            for op, n_obs, n_state in schedule:
                obs_calls_before = len(counters['observation_function'].calls)
                if op == 'reset':
                    env.reset()
                    n_resets += 1
                    args, kwargs = counters['reset_function'].calls[-1]
                    check(args == () and list(kwargs) == ['rng'])
                    check(kwargs['rng'] is rng_object)
                else:
                    state_before = env.state
                    env.step(op)
                    n_steps += 1
                    args, kwargs = counters['transition_function'].calls[-1]
                    check(len(args) == 2 and list(kwargs) == ['rng'])
                    check(kwargs['rng'] is rng_object)
                    # transition ran in place on the object which became the
                    # current state, not on the previous state
                    check(args[0] is env.state and args[0] is not state_before)
                    check(args[1] is op)
                    for key in ('reward_function', 'termination_function'):
                        args, kwargs = counters[key].calls[-1]
                        check(kwargs == {} and len(args) == 3)
                        check(args[0] is state_before)
                        check(args[1] is op)
                        check(args[2] is env.state)

                # the state update itself never generates observations
                check(
                    len(counters['observation_function'].calls)
                    == obs_calls_before
                )
                for _ in range(n_state):
                    env.state
                check(
                    len(counters['observation_function'].calls)
                    == obs_calls_before
                )
                observations = [env.observation for _ in range(n_obs)]
                if n_obs:
                    n_observed_states += 1
                    check(all(o is observations[0] for o in observations))
                    args, kwargs = counters['observation_function'].calls[-1]
                    check(len(args) == 1 and args[0] is env.state)
                    check(list(kwargs) == ['rng'])
                    check(kwargs['rng'] is rng_object)
                check(
                    len(counters['observation_function'].calls)
                    == obs_calls_before + (1 if n_obs else 0),
                    'observation function not called at most once per state',
                )

            check(len(counters['reset_function'].calls) == n_resets)
            check(len(counters['transition_function'].calls) == n_steps)
            check(len(counters['reward_function'].calls) == n_steps)
            check(len(counters['termination_function'].calls) == n_steps)
            check(
                len(counters['observation_function'].calls) == n_observed_states
            )


# --------------------------------------------------------------------------
# 3. error behaviour
# --------------------------------------------------------------------------

NOT_RESET = 'The state was not set properly;  was the environment reset?'


def section_errors(configs, seeds):
    for name, cfg in configs.items():
        env, counters = build_counting_env(cfg)
        # before reset, before seeding
        check(getattr(env, '_rng') is None)
        for _ in range(2):
            raises(RuntimeError, lambda: env.state, NOT_RESET)
            raises(RuntimeError, lambda: env.observation, NOT_RESET)
            raises(
                RuntimeError,
                lambda: env.step(env.action_space.actions[0]),
                NOT_RESET,
            )
            # .. even with an action outside of the action space
            raises(RuntimeError, lambda: env.step('not-an-action'), NOT_RESET)
        check(all(len(c.calls) == 0 for c in counters.values()))

        env.set_seed(seeds[0])
        raises(RuntimeError, lambda: env.state, NOT_RESET)
        raises(RuntimeError, lambda: env.observation, NOT_RESET)
        raises(RuntimeError, lambda: env.step(env.action_space.actions[0]), NOT_RESET)
        check(all(len(c.calls) == 0 for c in counters.values()))
        check(env_rng_state(env) == rng_state(rnd.default_rng(seeds[0])))

        # invalid action after reset:  ValueError, nothing changes
        env.reset()
        for read_first in (False, True):
            state = env.state
            observation = env.observation if read_first else None
            before = env_rng_state(env)
            n_obs_calls = len(counters['observation_function'].calls)
            invalid = [a for a in Action if a not in env.action_space.actions]
            for action in invalid + ['not-an-action', None, 0]:
                raises(
                    ValueError,
                    lambda: env.step(action),
                    'action {action} does not satisfy action-space',
                )
                raises(
                    ValueError,
                    lambda: env.functional_step(state, action),
                    'action {action} does not satisfy action-space',
                )
            check(env.state is state)
            check(env_rng_state(env) == before)
            check(len(counters['transition_function'].calls) == 0)
            check(len(counters['reward_function'].calls) == 0)
            check(len(counters['termination_function'].calls) == 0)
            if read_first:
                check(env.observation is observation)
                check(
                    len(counters['observation_function'].calls) == n_obs_calls
                )

        # failing component functions leave state and memoized observation
        class Boom(Exception):
            pass

        def boom(*args, **kwargs):
            raise Boom()

        for key in (
            'transition_function',
            'reward_function',
            'termination_function',
        ):
            env, counters = build_counting_env(cfg)
            env.set_seed(seeds[0])
            env.reset()
            state, observation = env.state, env.observation
            original = counters[key].function
            counters[key].function = boom
            raises(Boom, lambda: env.step(env.action_space.actions[0]))
            check(env.state is state and env.observation is observation)
            counters[key].function = original
            env.step(env.action_space.actions[0])
            check(env.state is not state)
            check(env.observation is not observation)

        env, counters = build_counting_env(cfg)
        env.set_seed(seeds[0])
        env.reset()
        state, observation = env.state, env.observation
        original = counters['reset_function'].function
        counters['reset_function'].function = boom
        raises(Boom, env.reset)
        check(env.state is state and env.observation is observation)
        counters['reset_function'].function = original

        # failing observation function: nothing memoized, retried next time
        original = counters['observation_function'].function
        env.reset()
        counters['observation_function'].function = boom
        raises(Boom, lambda: env.observation)
        raises(Boom, lambda: env.observation)
        counters['observation_function'].function = original
        n = len(counters['observation_function'].calls)
        observation = env.observation
        check(env.observation is observation)
        check(len(counters['observation_function'].calls) == n + 1)


# --------------------------------------------------------------------------
# 4. debug-mode validation of GridWorld (space membership)
# --------------------------------------------------------------------------


def section_validation(seeds):
    cfg = cfg_keydoor((5, 5))
    components = build_components(cfg)

    # spaces which do NOT contain what the functions produce
    small = copy.deepcopy(cfg)
    small['state_space'] = {'objects': ['Wall', 'Floor'], 'colors': ['NONE']}
    small['observation_space'] = {
        'objects': ['Wall', 'Floor'],
        'colors': ['NONE'],
    }
    small_components = build_components(small)

    def make(state_space_ok, observation_space_ok, transition=None):
        return GridWorld(
            (components if state_space_ok else small_components)['state_space'],
            components['action_space'],
            (components if observation_space_ok else small_components)[
                'observation_space'
            ],
            components['reset_function'],
            transition or components['transition_function'],
            components['observation_function'],
            components['reward_function'],
            components['termination_function'],
        )

    def key_dropper(state, action, *, rng=None):
        """in-place transition which leaves the (small) state space"""
        components['transition_function'](state, action, rng=rng)
        state.grid[Position(0, 0)] = Key(Color.GREEN)

    other_cfg = cfg_dynamic_obstacles((7, 7), 2)
    foreign_state = build_components(other_cfg)['reset_function'](
        rng=rnd.default_rng(0)
    )

    try:
        for seed in seeds:
            for debug in (True, False):
                reset_gv_debug(debug)
                ref = RefEnv(components, seed)

                # --- bad state space
                env = make(False, True)
                env.set_seed(seed)
                if debug:
                    raises(
                        ValueError,
                        env.reset,
                        'state does not satisfy state_space',
                    )
                    raises(RuntimeError, lambda: env.state, NOT_RESET)
                    raises(
                        ValueError,
                        env.functional_reset,
                        'state does not satisfy state_space',
                    )
                    # the reset function *was* run (rng consumed twice)
                    ref.reset()
                    ref.reset()
                    check(env_rng_state(env) == rng_state(ref.rng))
                    # state check comes before the action check
                    raises(
                        ValueError,
                        lambda: env.functional_step(ref.state, 'bad-action'),
                        'state does not satisfy state_space',
                    )
                    check(env_rng_state(env) == rng_state(ref.rng))
                else:
                    env.reset()
                    ref.reset()
                    check(env.state == ref.state)
                    raises(
                        ValueError,
                        lambda: env.functional_step(ref.state, 'bad-action'),
                        'action {action} does not satisfy action-space',
                    )
                    for action in list(Action) * 2:
                        check(env.step(action) == ref.step(action))
                        check(env.state == ref.state)
                        check(env.observation == ref.read_observation())
                    check(env_rng_state(env) == rng_state(ref.rng))

                # --- bad observation space
                ref = RefEnv(components, seed)
                env = make(True, False)
                env.set_seed(seed)
                env.reset()
                ref.reset()
                if debug:
                    for _ in range(2):
                        raises(
                            ValueError,
                            lambda: env.observation,
                            'observation does not satisfy observation_space',
                        )
                    # still steps fine; state unaffected
                    check(env.state == ref.state)
                    check(env.step(Action.TURN_LEFT) == ref.step(Action.TURN_LEFT))
                    check(env.state == ref.state)
                else:
                    check(env.observation == ref.read_observation())
                    check(env.observation is env.observation)
                    check(env_rng_state(env) == rng_state(ref.rng))

                # --- foreign state given to functional_step
                env = make(True, True)
                env.set_seed(seed)
                before = env_rng_state(env)
                if debug:
                    raises(
                        ValueError,
                        lambda: env.functional_step(
                            foreign_state, Action.TURN_LEFT
                        ),
                        'state does not satisfy state_space',
                    )
                    check(env_rng_state(env) == before)
                else:
                    next_state, _, _ = env.functional_step(
                        foreign_state, Action.TURN_LEFT
                    )
                    check(next_state is not foreign_state)

                # --- transition which leaves the state space
                ref = RefEnv(components, seed)
                env = make(True, True, transition=key_dropper)
                env.set_seed(seed)
                env.reset()
                ref.reset()
                state = env.state
                observation = env.observation
                ref.read_observation()
                if debug:
                    raises(
                        ValueError,
                        lambda: env.step(Action.MOVE_FORWARD),
                        'next_state does not satisfy state_space',
                    )
                    check(env.state is state)
                    check(env.observation is observation)
                    check(state == ref.state)  # input state not modified
                    check(state.grid[Position(0, 0)] != Key(Color.GREEN))
                else:
                    reward, done = env.step(Action.MOVE_FORWARD)
                    check((reward, done) == ref.step(Action.MOVE_FORWARD))
                    check(env.state is not state)
                    check(env.state.grid[Position(0, 0)] == Key(Color.GREEN))
                    check(state.grid[Position(0, 0)] != Key(Color.GREEN))
                    check(env.observation is not observation)
    finally:
        reset_gv_debug(None)  # back to the default (__debug__)


# --------------------------------------------------------------------------
# 5. outer (numeric) environment and gym wrapper
# --------------------------------------------------------------------------

REPRESENTATION_NAMES = ['default', 'no-overlap', 'compact']
OUTER_RUNS = {}


def section_outer(configs, seeds, prng):
    for name, cfg in configs.items():
        components = build_components(cfg)
        for rep_name in REPRESENTATION_NAMES:
            for seed in seeds:
                inner = build_env(cfg)
                inner.set_seed(seed)
                try:
                    state_rep = make_state_representation(
                        rep_name, inner.state_space
                    )
                    observation_rep = make_observation_representation(
                        rep_name, inner.observation_space
                    )
                except Exception:  # representation unsupported by this space
                    continue
                OUTER_RUNS[rep_name] = OUTER_RUNS.get(rep_name, 0) + 1
                outer = OuterEnv(
                    inner,
                    state_representation=state_rep,
                    observation_representation=observation_rep,
                )
                check(outer.inner_env is inner)
                check(outer.state_representation is state_rep)
                check(outer.observation_representation is observation_rep)
                check(outer.action_space is inner.action_space)

                # not reset yet
                raises(RuntimeError, lambda: outer.state, NOT_RESET)
                raises(RuntimeError, lambda: outer.observation, NOT_RESET)
                raises(
                    RuntimeError,
                    lambda: outer.step(inner.action_space.actions[0]),
                    NOT_RESET,
                )

                # independent reference representations (own objects)
                ref = RefEnv(components, seed)
                ref_state_rep = make_state_representation(
                    rep_name, components['state_space']
                )
                ref_observation_rep = make_observation_representation(
                    rep_name, components['observation_space']
                )

                actions = inner.action_space.actions
                schedule = make_schedule(prng, actions, 15, 'random', 0.1)
                for op, n_obs, n_state in schedule:
                    if op == 'reset':
                        check(outer.reset() is None)
                        ref.reset()
                    else:
                        check(outer.step(op) == ref.step(op))
                    check(env_rng_state(inner) == rng_state(ref.rng))

                    for _ in range(n_state):
                        numeric = outer.state
                        check(same_arrays(numeric, state_rep.convert(inner.state)))
                        check(same_arrays(numeric, ref_state_rep.convert(ref.state)))
                    for _ in range(n_obs):
                        numeric = outer.observation
                        expected = ref.read_observation()
                        check(inner.observation == expected)
                        check(
                            same_arrays(
                                numeric,
                                observation_rep.convert(inner.observation),
                            )
                        )
                        check(
                            same_arrays(
                                numeric, ref_observation_rep.convert(expected)
                            )
                        )
                    check(env_rng_state(inner) == rng_state(ref.rng))

        # missing representations
        inner = build_env(cfg)
        inner.set_seed(seeds[0])
        outer = OuterEnv(inner)
        check(outer.state_representation is None)
        check(outer.observation_representation is None)
        for _ in range(2):
            # representation check comes first, even before reset
            raises(
                RuntimeError,
                lambda: outer.state,
                'State representation not available',
            )
            raises(
                RuntimeError,
                lambda: outer.observation,
                'Observation representation not available',
            )
            outer.reset()
        # .. and a failing numeric read does not generate an observation
        ref = RefEnv(components, seeds[0])
        ref.reset()
        ref.reset()
        check(env_rng_state(inner) == rng_state(ref.rng))
        check(getattr(inner, '_observation') is None)

        # only one of the two
        outer = OuterEnv(
            inner,
            observation_representation=make_observation_representation(
                'default', inner.observation_space
            ),
        )
        raises(RuntimeError, lambda: outer.state, 'State representation not available')
        check(
            same_arrays(
                outer.observation,
                outer.observation_representation.convert(inner.observation),
            )
        )


def section_gym(configs, seeds, prng):
    for name, cfg in configs.items():
        components = build_components(cfg)
        for seed in seeds:
            inner = build_env(cfg)
            outer = OuterEnv(
                inner,
                state_representation=make_state_representation(
                    'default', inner.state_space
                ),
                observation_representation=make_observation_representation(
                    'default', inner.observation_space
                ),
            )
            genv = GymEnvironment(outer)
            wrapped = GymStateWrapper(genv) if seed % 2 else None
            inner.set_seed(seed)
            ref = RefEnv(components, seed)
            ref_state_rep = make_state_representation(
                'default', components['state_space']
            )
            ref_observation_rep = make_observation_representation(
                'default', components['observation_space']
            )

            actions = inner.action_space.actions
            schedule = make_schedule(prng, actions, 15, 'random', 0.1)
            for op, n_obs, n_state in schedule:
                if op == 'reset':
                    numeric = (wrapped or genv).reset()
                    ref.reset()
                    info = None
                else:
                    index = actions.index(op)
                    numeric, reward, done, info = (wrapped or genv).step(index)
                    check((reward, done) == ref.step(op))
                # gym flavour always reads exactly one observation
                expected_observation = ref_observation_rep.convert(
                    ref.read_observation()
                )
                expected_state = ref_state_rep.convert(ref.state)
                if wrapped is None:
                    check(same_arrays(numeric, expected_observation))
                    check(info is None or info == {})
                else:
                    check(same_arrays(numeric, expected_state))
                    if info is not None:
                        check(list(info) == ['observation'])
                        check(
                            same_arrays(
                                info['observation'], expected_observation
                            )
                        )
                check(env_rng_state(inner) == rng_state(ref.rng))
                for _ in range(n_obs):
                    check(same_arrays(genv.observation, expected_observation))
                for _ in range(n_state):
                    check(same_arrays(genv.state, expected_state))
                check(env_rng_state(inner) == rng_state(ref.rng))


# --------------------------------------------------------------------------
# 6. a minimal non-GridWorld InnerEnv (the base class on its own)
# --------------------------------------------------------------------------


class TickEnv(InnerEnv):
    """states / observations are plain python objects; counts all calls"""

    def __init__(self):
        super().__init__(None, None, None)  # spaces are not used by the base
        self.log = []
        self.counter = 0
        self.fail_step = False

    def set_seed(self, seed=None):
        self.log.append(('seed', seed))

    def functional_reset(self):
        self.counter += 1
        self.log.append(('reset',))
        return ('s', self.counter)

    def functional_step(self, state, action):
        self.log.append(('step', state, action))
        if self.fail_step:
            raise KeyError('fail')
        self.counter += 1
        return ('s', self.counter), float(self.counter), self.counter % 3 == 0

    def functional_observation(self, state):
        self.counter += 1
        self.log.append(('obs', state))
        return ['o', state, self.counter]


def section_base_class(prng):
    for trial in range(200):
        env = TickEnv()
        raises(RuntimeError, lambda: env.state, NOT_RESET)
        raises(RuntimeError, lambda: env.observation, NOT_RESET)
        raises(RuntimeError, lambda: env.step('a'), NOT_RESET)
        check(env.log == [])

        # model
        counter = 0
        state = None
        observation = None
        log = []
        for _ in range(prng.randrange(1, 30)):
            op = prng.choice(['reset', 'step', 'step', 'obs', 'obs', 'state', 'fail'])
            if state is None:
                op = 'reset'
            if op == 'reset':
                check(env.reset() is None)
                counter += 1
                log.append(('reset',))
                state, observation = ('s', counter), None
            elif op == 'step':
                action = prng.choice(['a', 'b', None])
                result = env.step(action)
                log.append(('step', state, action))
                counter += 1
                state, observation = ('s', counter), None
                check(result == (float(counter), counter % 3 == 0))
                check(type(result) is tuple)
            elif op == 'fail':
                env.fail_step = True
                raises(KeyError, lambda: env.step('x'))
                env.fail_step = False
                log.append(('step', state, 'x'))
            elif op == 'obs':
                result = env.observation
                if observation is None:
                    counter += 1
                    log.append(('obs', state))
                    observation = ['o', state, counter]
                check(result == observation)
                check(env.observation is result)
            else:
                check(env.state == state)
                check(env.state is env.state)
            check(env.log == log, f'{env.log} != {log}')
            check(env.counter == counter)


# --------------------------------------------------------------------------


def main():
    prng = random.Random(20240404)
    shipped = shipped_configs()
    randoms = random_configs(prng, 14)
    stochastic = {
        f'{name}.stochastic': with_observation(
            cfg, 'stochastic_raytracing', [[-6, 0], [-3, 3]]
        )
        for name, cfg in shipped.items()
        if name
        in ('empty.4x4', 'keydoor.5x5', 'dynamic_obstacles.5x5', 'teleport.5x5')
    }
    everything = {**shipped, **stochastic, **randoms}
    small = {
        name: everything[name]
        for name in list(stochastic)
        + ['keydoor.7x7', 'dynamic_obstacles.7x7', 'memory.5x5', 'crossing.5x5']
        + list(randoms)[:5]
    }

    seeds = [0, 1, 7, 1337, 2**31 - 1]

    section_base_class(prng)
    print('base class ok', CHECKS)
    section_inner(everything, seeds, prng)
    check(STATS['done'] > 50 and STATS['steps'] > 10000)
    print('inner ok', CHECKS, STATS)
    section_counting(everything, seeds[:3], prng)
    print('counting ok', CHECKS)
    section_errors(small, seeds)
    print('errors ok', CHECKS)
    section_validation(seeds[:3])
    print('validation ok', CHECKS)
    section_outer(small, seeds[:2], prng)
    check(all(OUTER_RUNS.get(name, 0) > 0 for name in REPRESENTATION_NAMES))
    print('outer ok', CHECKS, OUTER_RUNS)
    section_gym(small, seeds[:4], prng)
    print('gym ok', CHECKS)
    print(f'OK: {CHECKS} checks passed')


if __name__ == '__main__':
    main()
