"""Demo for change A (Agent.is_holding / Agent.holds / Agent.holds_key).

Checks property C10 -- doors, keys and boxes respond only to a faced ACTUATE,
and only as documented -- against a reference implementation embedded here.
Runs (and must exit 0) both on the pristine tree and with the patch applied.
"""
import itertools
import os
import sys
from functools import partial

sys.path.insert(0, os.getcwd())  # run from the worktree root

from gym_gridverse.action import Action
from gym_gridverse.agent import Agent
from gym_gridverse.envs import reset_functions as reset_fs
from gym_gridverse.envs import transition_functions as transition_fs
from gym_gridverse.envs.gridworld import GridWorld
from gym_gridverse.envs.observation_functions import fully_transparent
from gym_gridverse.envs.reward_functions import actuate_door as reward_door
from gym_gridverse.envs.terminating_functions import reach_exit
from gym_gridverse.geometry import Orientation, Position, Shape
from gym_gridverse.grid import Grid
from gym_gridverse.grid_object import (
    Beacon,
    Box,
    Color,
    Door,
    Exit,
    Floor,
    Key,
    MovingObstacle,
    NoneGridObject,
    Telepod,
    Wall,
)
from gym_gridverse.spaces import ActionSpace, ObservationSpace, StateSpace
from gym_gridverse.state import State
from gym_gridverse.utils.fast_copy import fast_copy

n_checks = 0


def check(condition, *context):
    global n_checks
    n_checks += 1
    if not condition:
        print('FAILED', *context)
        sys.exit(1)


# ---------------------------------------------------------------- helpers


def dump_object(obj):
    """structural signature (GridObject.__eq__ ignores box contents)"""
    if obj is None:
        return None
    signature = (type(obj).__name__, obj.state_index, obj.color)
    if isinstance(obj, Box):
        signature += (dump_object(obj.content),)
    if isinstance(obj, Door):
        signature += (obj.state,)
    return signature


def dump_state(state):
    grid = tuple(
        tuple(dump_object(state.grid[y, x]) for x in range(state.grid.shape.width))
        for y in range(state.grid.shape.height)
    )
    agent = (
        state.agent.position.y,
        state.agent.position.x,
        state.agent.orientation,
        dump_object(state.agent.grid_object),
    )
    return grid, agent


_FRONT = {
    Orientation.F: (-1, 0),
    Orientation.B: (1, 0),
    Orientation.L: (0, -1),
    Orientation.R: (0, 1),
}


def reference_front(state):
    """(y, x) of the faced cell, or None if it is outside the grid"""
    dy, dx = _FRONT[state.agent.orientation]
    y, x = state.agent.position.y + dy, state.agent.position.x + dx
    if 0 <= y < state.grid.shape.height and 0 <= x < state.grid.shape.width:
        return y, x
    return None


def reference_actuate(state, action, *, doors=True, boxes=True, dump=None):
    """expected dump after actuate_door / actuate_box / chain of both"""
    grid, agent = dump_state(state) if dump is None else dump
    if action is not Action.ACTUATE:
        return grid, agent
    front = reference_front(state)
    if front is None:
        return grid, agent
    y, x = front
    obj = state.grid[y, x]
    cell = grid[y][x]
    if doors and isinstance(obj, Door):
        held = state.agent.grid_object
        opens = (
            obj.state is Door.Status.OPEN
            or obj.state is Door.Status.CLOSED
            or (
                obj.state is Door.Status.LOCKED
                and isinstance(held, Key)
                and held.color is obj.color
            )
        )
        if opens:
            cell = ('Door', Door.Status.OPEN.value, obj.color, Door.Status.OPEN)
    elif boxes and isinstance(obj, Box):
        cell = dump_object(obj.content)
    grid = tuple(
        tuple(cell if (yy, xx) == (y, x) else grid[yy][xx] for xx in range(len(grid[0])))
        for yy in range(len(grid))
    )
    return grid, agent


def held_items():
    yield 'none', lambda: None
    yield 'NoneGridObject', NoneGridObject
    for color in Color:
        yield f'Key({color.name})', partial(Key, color)
    # other objects, holdable or not (a state may legally be built with them)
    yield 'Box(Key(YELLOW))', lambda: Box(Key(Color.YELLOW))
    yield 'Door(OPEN, YELLOW)', lambda: Door(Door.Status.OPEN, Color.YELLOW)
    yield 'MovingObstacle', MovingObstacle
    yield 'Telepod(YELLOW)', lambda: Telepod(Color.YELLOW)
    yield 'Beacon(YELLOW)', lambda: Beacon(Color.YELLOW)
    yield 'Floor', Floor


CHAIN = 'chain(door, box)'
TRANSITIONS = {
    'actuate_door': (transition_fs.actuate_door, dict(doors=True, boxes=False)),
    'actuate_box': (transition_fs.actuate_box, dict(doors=False, boxes=True)),
    'chain(door, box)': (
        partial(
            transition_fs.chain,
            transition_functions=[
                transition_fs.actuate_door,
                transition_fs.actuate_box,
            ],
        ),
        dict(doors=True, boxes=True),
    ),
}

# ------------------------------------------------- 1. exhaustive small grids


def make_grid(shape, target_position, target_factory):
    height, width = shape
    grid = Grid.from_shape((height, width))
    grid[target_position] = target_factory()
    return grid


def exhaustive(shape, target_positions, *, full):
    height, width = shape
    door_colors = list(Color) if full else [Color.NONE, Color.YELLOW]
    target_factories = [
        (f'Door({status.name}, {color.name})', partial(Door, status, color))
        for status in Door.Status
        for color in door_colors
    ] + [
        ('Box(Key(RED))', lambda: Box(Key(Color.RED))),
        ('Box(Box(Floor))', lambda: Box(Box(Floor()))),
        (
            'Box(Door(LOCKED, BLUE))',
            lambda: Box(Door(Door.Status.LOCKED, Color.BLUE)),
        ),
    ]
    helds = [
        (held_name, held_factory)
        for held_name, held_factory in held_items()
        if full
        or held_name
        in ('none', 'Key(NONE)', 'Key(YELLOW)', 'Key(RED)', 'Box(Key(YELLOW))')
    ]

    for target_position in target_positions:
        for target_name, target_factory in target_factories:
            for held_name, held_factory in helds:
                for y, x, orientation in itertools.product(
                    range(height), range(width), Orientation
                ):
                    state = State(
                        make_grid(shape, target_position, target_factory),
                        Agent(Position(y, x), orientation, held_factory()),
                    )
                    before = dump_state(state)
                    faced = reference_front(state) == target_position
                    for action in Action:
                        for name, (function, kwargs) in TRANSITIONS.items():
                            # every transition for ACTUATE, the chain for the rest
                            if action is not Action.ACTUATE and name != CHAIN:
                                continue
                            next_state = fast_copy(state)
                            result = function(next_state, action)
                            after = dump_state(next_state)
                            context = (
                                name, shape, target_position, target_name,
                                held_name, (y, x), orientation, action,
                            )
                            check(result is None, 'returns', *context)
                            expected = reference_actuate(
                                state, action, dump=before, **kwargs
                            )
                            check(after == expected, *context)
                            # nothing but a faced ACTUATE changes anything
                            if action is not Action.ACTUATE or not faced:
                                check(after == before, *context)
                            # agent (pose, held item) never changes: keys are not consumed
                            check(after[1] == before[1], *context)
                    # the input state of the copies is untouched
                    check(dump_state(state) == before, 'input', shape, held_name)


# non-square grids, target in corners, on borders, and inside
exhaustive((2, 3), [(0, 0)], full=True)
exhaustive((2, 3), [(1, 2), (0, 1)], full=False)
exhaustive((3, 1), [(0, 0), (1, 0), (2, 0)], full=False)
exhaustive((1, 1), [(0, 0)], full=True)
exhaustive((3, 4), [(1, 2)], full=False)

# ------------------------------ 2. wrap-around: agents facing out of the grid

# an agent on the border facing outwards must not actuate the object on the
# opposite border (negative index) -- all four headings, non-square grid
for orientation, position, opposite in [
    (Orientation.F, (0, 1), (2, 1)),
    (Orientation.L, (1, 0), (1, 3)),
    (Orientation.B, (2, 1), (0, 1)),
    (Orientation.R, (1, 3), (1, 0)),
]:
    for factory_ in [
        lambda: Door(Door.Status.CLOSED, Color.NONE),
        lambda: Box(Key(Color.GREEN)),
    ]:
        grid = Grid.from_shape((3, 4))
        grid[opposite] = factory_()
        state = State(grid, Agent(Position(*position), orientation, Key(Color.NONE)))
        before = dump_state(state)
        for action in Action:
            for name, (function, _) in TRANSITIONS.items():
                function(state, action)
                check(dump_state(state) == before, 'wrap', name, orientation, action)

# the factory-built transition is the same function
for status, held_factory in itertools.product(
    Door.Status, [lambda: None, lambda: Key(Color.NONE), lambda: Key(Color.RED)]
):
    grid = Grid.from_shape((1, 2))
    grid[0, 0] = Door(status, Color.NONE)
    state = State(grid, Agent(Position(0, 1), Orientation.L, held_factory()))
    for action in Action:
        next_state = fast_copy(state)
        transition_fs.factory('actuate_door')(next_state, action)
        check(
            dump_state(next_state)
            == reference_actuate(state, action, doors=True, boxes=False),
            'factory', status, action,
        )

# ------------------------------------- 3. interplay with the other transitions

full_transition = partial(
    transition_fs.chain,
    transition_functions=[
        transition_fs.move_agent,
        transition_fs.turn_agent,
        transition_fs.actuate_door,
        transition_fs.actuate_box,
        transition_fs.pickndrop,
    ],
)


def doors_and_boxes(state):
    return {
        (y, x): dump_object(state.grid[y, x])
        for y in range(state.grid.shape.height)
        for x in range(state.grid.shape.width)
        if isinstance(state.grid[y, x], (Door, Box))
    }


for door_status, door_color, (held_name, held_factory), orientation in itertools.product(
    Door.Status, Color, held_items(), Orientation
):
    # 3x5 room:  door at (1, 2), box at (1, 4), key on the floor, agent next to all
    grid = Grid.from_shape((3, 5))
    grid[1, 2] = Door(door_status, door_color)
    grid[1, 4] = Box(Key(door_color))
    grid[0, 3] = Key(door_color)
    grid[2, 3] = Key(Color.RED if door_color is not Color.RED else Color.BLUE)
    state = State(grid, Agent(Position(1, 3), orientation, held_factory()))

    for action in Action:
        next_state = fast_copy(state)
        full_transition(next_state, action)
        before, after = doors_and_boxes(state), doors_and_boxes(next_state)
        expected = dict(before)
        if action is Action.ACTUATE and orientation is Orientation.L:
            held = state.agent.grid_object
            if door_status is not Door.Status.LOCKED or (
                isinstance(held, Key) and held.color is door_color
            ):
                expected[1, 2] = ('Door', 0, door_color, Door.Status.OPEN)
        if action is Action.ACTUATE and orientation is Orientation.R:
            del expected[1, 4]
            check(
                dump_object(next_state.grid[1, 4]) == ('Key', 0, door_color),
                'box content', door_status, door_color, held_name,
            )
        if (
            action is Action.PICK_N_DROP
            and orientation in (Orientation.F, Orientation.B)
            and isinstance(state.agent.grid_object, (Door, Box))
        ):
            # a held door / box is put down (swapped with the key on the floor)
            front = (0, 3) if orientation is Orientation.F else (2, 3)
            expected[front] = dump_object(state.agent.grid_object)
            check(next_state.grid[front] is not None, 'dropped')
        check(after == expected, 'interplay', door_status, door_color, held_name, orientation, action)
        if action is Action.ACTUATE:
            check(
                dump_object(next_state.agent.grid_object)
                == dump_object(state.agent.grid_object),
                'held item kept', held_name,
            )

# pickndrop semantics (holding vs not holding), including dropped-object identity
for held_name, held_factory in held_items():
    for front_factory in [Floor, partial(Key, Color.GREEN), Wall, partial(Door, Door.Status.OPEN, Color.RED)]:
        grid = Grid.from_shape((2, 2))
        grid[0, 0] = front_factory()
        held = held_factory()
        state = State(grid, Agent(Position(1, 0), Orientation.F, held))
        held = state.agent.grid_object
        front = state.grid[0, 0]
        transition_fs.pickndrop(state, Action.PICK_N_DROP)
        if isinstance(front, Floor) or front.holdable:
            if isinstance(held, NoneGridObject):
                check(type(state.grid[0, 0]) is Floor, 'pickndrop floor', held_name)
            else:
                check(state.grid[0, 0] is held, 'pickndrop drop', held_name)
            if front.holdable:
                check(state.agent.grid_object is front, 'pickndrop pick', held_name)
            else:
                check(type(state.agent.grid_object) is NoneGridObject, 'pickndrop none', held_name)
        else:
            check(state.grid[0, 0] is front and state.agent.grid_object is held, 'pickndrop noop', held_name)

# ------------------------------- 4. reachable states of the key-door environment


def make_keydoor_env(shape):
    object_types = [Floor, Wall, Exit, Door, Key]
    colors = [Color.YELLOW]
    return GridWorld(
        StateSpace(shape, object_types, colors),
        ActionSpace(list(Action)),
        ObservationSpace(Shape(7, 7), object_types, colors),
        partial(reset_fs.keydoor, shape),
        full_transition,
        fully_transparent,
        reward_door,
        reach_exit,
    )


def find_doors(state):
    return {
        (y, x): state.grid[y, x].state
        for y in range(state.grid.shape.height)
        for x in range(state.grid.shape.width)
        if isinstance(state.grid[y, x], Door)
    }


import numpy as np  # noqa: E402

n_opened = 0
envs = [make_keydoor_env(Shape(5, 9)), make_keydoor_env(Shape(4, 6)), make_keydoor_env(Shape(7, 6))]
for seed, env in itertools.product(range(4), envs):
    env.set_seed(seed)
    policy_rng = np.random.default_rng(1000 + seed)
    # a policy biased towards solving:  otherwise random walks rarely open the door
    weights = np.array([4, 1, 1, 1, 2, 2, 3, 3], dtype=float)
    weights /= weights.sum()
    for _ in range(2):
        env.reset()
        for _ in range(400):
            state = env.state
            action = list(Action)[policy_rng.choice(len(Action), p=weights)]
            reward, done = env.step(action)
            next_state = env.state
            doors, next_doors = find_doors(state), find_doors(next_state)
            check(doors.keys() == next_doors.keys(), 'doors stay in place')
            for position, status in doors.items():
                next_status = next_doors[position]
                if next_status is status:
                    continue
                held = state.agent.grid_object
                check(next_status is Door.Status.OPEN, 'only towards open')
                check(action is Action.ACTUATE, 'only by ACTUATE', action)
                check(reference_front(state) == position, 'only when faced')
                check(
                    status is not Door.Status.LOCKED
                    or (isinstance(held, Key) and held.color is state.grid[position].color),
                    'locked door opened without the matching key',
                )
                check(
                    dump_object(next_state.agent.grid_object) == dump_object(held),
                    'key consumed',
                )
                check(reward == 1.0, 'reward for opening')
                n_opened += 1
            check(
                dump_state(next_state)
                == dump_state(
                    transition_fs.transition_with_copy(full_transition, state, action)
                ),
                'determinism of the step',
            )
            if done:
                break

check(n_opened > 0, 'the key-door walks never opened a door: the check is vacuous')

# re-seeding gives the same trajectory, several environments in one process
env_a, env_b = make_keydoor_env(Shape(5, 9)), make_keydoor_env(Shape(5, 9))
for env in (env_a, env_b):
    env.set_seed(7)
    env.reset()
for action in [Action.MOVE_FORWARD, Action.ACTUATE, Action.PICK_N_DROP, Action.TURN_LEFT, Action.ACTUATE] * 5:
    env_a.step(action)
    env_b.step(action)
    check(dump_state(env_a.state) == dump_state(env_b.state), 're-seeding')

# ------------------------------------------------------ 5. Agent itself

# equality / hash / repr unchanged
agent = Agent(Position(1, 2), Orientation.L)
check(repr(agent) == 'Agent(Position(y=1, x=2), Orientation.LEFT)', repr(agent))
agent = Agent(Position(1, 2), Orientation.R, Key(Color.NONE))
check(repr(agent) == 'Agent(Position(y=1, x=2), Orientation.RIGHT, Key(Color.NONE))', repr(agent))
agent = Agent(Position(0, 0), Orientation.F, NoneGridObject())
check(repr(agent) == 'Agent(Position(y=0, x=0), Orientation.FORWARD)', repr(agent))
check(Agent(Position(0, 0), Orientation.F) == agent and hash(Agent(Position(0, 0), Orientation.F)) == hash(agent))
check(Agent(Position(0, 0), Orientation.F, Key(Color.RED)) != Agent(Position(0, 0), Orientation.F, Key(Color.BLUE)))

# new helpers, when present, agree with the spelled-out conditions
if hasattr(Agent, 'holds_key'):
    for held_name, held_factory in held_items():
        agent = Agent(Position(0, 0), Orientation.F, held_factory())
        held = agent.grid_object
        check(agent.is_holding is (not isinstance(held, NoneGridObject)), 'is_holding', held_name)
        for object_type in [Key, Door, Box, Floor, NoneGridObject, MovingObstacle]:
            check(agent.holds(object_type) is isinstance(held, object_type), 'holds', held_name)
        for color in list(Color) + [None]:
            expected = isinstance(held, Key) and held.color == color
            check(agent.holds_key(color) is expected, 'holds_key', held_name, color)
        check(agent.grid_object is held, 'helpers do not release the held item')

print(f'OK ({n_checks} checks, {n_opened} doors opened in key-door walks)')
