"""Demo for change A (GridWorld wiring: debug checks behind private helpers).

Runs on the pristine tree and with the patch applied; exits 0 on both.

It embeds a reference implementation of the GridWorld wiring (``RefGridWorld``,
a verbatim copy of the pristine methods) and checks, on many environments and
states, that ``gym_gridverse.envs.gridworld.GridWorld``

* makes exactly the same calls, in the same order, on the same objects (the
  components, the spaces, the rng), in debugging mode and outside of it;
* returns the same values / raises the same errors with the same messages;
* satisfies the property C01 (closure and totality of step).
"""
import itertools
import math
import os
import sys
import warnings

sys.path.insert(0, os.getcwd())  # run from the worktree root
warnings.filterwarnings('ignore')

import numpy.random as rnd  # noqa: E402

from gym_gridverse.action import Action  # noqa: E402
from gym_gridverse.debugging import gv_debug, reset_gv_debug  # noqa: E402
from gym_gridverse.envs import (  # noqa: E402
    InnerEnv,
    observation_functions as observation_fs,
    reset_functions as reset_fs,
    reward_functions as reward_fs,
    terminating_functions as terminating_fs,
    transition_functions as transition_fs,
)
from gym_gridverse.envs.gridworld import GridWorld  # noqa: E402
from gym_gridverse.envs.transition_functions import (  # noqa: E402
    transition_with_copy,
)
from gym_gridverse.geometry import (  # noqa: E402
    Area,
    Orientation,
    Position,
    Shape,
)
from gym_gridverse.grid_object import (  # noqa: E402
    Beacon,
    Box,
    Color,
    Door,
    Exit,
    Floor,
    Key,
    MovingObstacle,
    NoneGridObject,
    Telepod,
    Wall,
)
from gym_gridverse.observation import Observation  # noqa: E402
from gym_gridverse.rng import make_rng, reset_gv_rng  # noqa: E402
from gym_gridverse.spaces import (  # noqa: E402
    ActionSpace,
    ObservationSpace,
    StateSpace,
)
from gym_gridverse.state import State  # noqa: E402
from gym_gridverse.utils.fast_copy import fast_copy  # noqa: E402

n_checks = 0


def check(condition, *message):
    global n_checks
    n_checks += 1
    if not condition:
        print('FAILED:', *message)
        sys.exit(1)


# --------------------------------------------------------------------------
# reference wiring: verbatim copy of the pristine GridWorld
# --------------------------------------------------------------------------


class RefGridWorld(InnerEnv):
    def __init__(
        self,
        state_space,
        action_space,
        observation_space,
        reset_function,
        transition_function,
        observation_function,
        reward_function,
        termination_function,
    ):
        self._reset_function = reset_function
        self._transition_function = transition_function
        self._observation_function = observation_function
        self._reward_function = reward_function
        self._termination_function = termination_function
        self._rng = None
        super().__init__(state_space, action_space, observation_space)

    def set_seed(self, seed=None):
        self._rng = make_rng(seed)

    def functional_reset(self):
        state = self._reset_function(rng=self._rng)
        if gv_debug() and not self.state_space.contains(state):
            raise ValueError('state does not satisfy state_space')

        return state

    def functional_step(self, state, action):
        if gv_debug() and not self.state_space.contains(state):
            raise ValueError('state does not satisfy state_space')
        if not self.action_space.contains(action):
            raise ValueError('action {action} does not satisfy action-space')

        next_state = transition_with_copy(
            self._transition_function,
            state,
            action,
            rng=self._rng,
        )

        if gv_debug() and not self.state_space.contains(next_state):
            raise ValueError('next_state does not satisfy state_space')

        reward = self._reward_function(state, action, next_state)
        terminal = self._termination_function(state, action, next_state)

        return (next_state, reward, terminal)

    def functional_observation(self, state):
        observation = self._observation_function(state, rng=self._rng)
        if gv_debug() and not self.observation_space.contains(observation):
            raise ValueError('observation does not satisfy observation_space')

        return observation


# --------------------------------------------------------------------------
# environments, assembled from the built-in components (as the YAML files do)
# --------------------------------------------------------------------------

ALL_ACTIONS = list(Action)
MOVE_TURN = ALL_ACTIONS[:6]
MANHATTAN = Position.manhattan_distance


def T(name, **kwargs):
    return transition_fs.factory(name, **kwargs)


def R(name, **kwargs):
    return reward_fs.factory(name, **kwargs)


def D(name, **kwargs):
    return terminating_fs.factory(name, **kwargs)


def standard_rewards():
    return [
        R('reach_exit', reward_on=5.0, reward_off=0.0),
        R(
            'getting_closer',
            distance_function=MANHATTAN,
            object_type=Exit,
            reward_closer=0.2,
            reward_further=-0.2,
        ),
        R('living_reward', reward=-0.05),
    ]


CONFIGS = {
    # name: objects, colors, actions, reset, transitions, rewards, terminating,
    #       observation function name, observation area
    'empty.4x7': dict(
        objects=[Wall, Floor, Exit],
        colors=[Color.NONE],
        actions=MOVE_TURN,
        reset=('empty', dict(shape=Shape(4, 7), random_agent=True)),
        transitions=[T('move_agent'), T('turn_agent')],
        rewards=standard_rewards(),
        terminating=D('reach_exit'),
        observation=('partially_occluded', Area((-6, 0), (-3, 3))),
    ),
    'keydoor.7x9': dict(
        objects=[Wall, Floor, Exit, Door, Key],
        colors=[Color.NONE, Color.YELLOW],
        actions=ALL_ACTIONS,
        reset=('keydoor', dict(shape=Shape(7, 9))),
        transitions=[
            T('move_agent'),
            T('turn_agent'),
            T('actuate_door'),
            T('pickndrop'),
        ],
        rewards=standard_rewards()
        + [
            R('pickndrop', object_type=Key, reward_pick=1.0, reward_drop=-1.0),
            R('actuate_door', reward_open=1.0, reward_close=-1.0),
        ],
        terminating=D('reach_exit'),
        observation=('raytracing', Area((-4, 1), (-2, 2))),
    ),
    'dynamic_obstacles.7x7': dict(
        objects=[Wall, Floor, Exit, MovingObstacle],
        colors=[Color.NONE],
        actions=MOVE_TURN,
        reset=(
            'dynamic_obstacles',
            dict(shape=Shape(7, 7), num_obstacles=3, random_agent=False),
        ),
        transitions=[T('move_agent'), T('turn_agent'), T('move_obstacles')],
        rewards=standard_rewards()
        + [
            R('bump_moving_obstacle', reward=-1.0),
            R('bump_into_wall', reward=-1.0),
        ],
        terminating=D(
            'reduce_any',
            terminating_functions=[
                D('reach_exit'),
                D('bump_moving_obstacle'),
                D('bump_into_wall'),
            ],
        ),
        observation=('stochastic_raytracing', Area((-6, 0), (-3, 3))),
    ),
    'teleport.7x8': dict(
        objects=[Wall, Floor, Exit, Telepod],
        colors=[Color.NONE, Color.RED],
        actions=MOVE_TURN,
        # NOTE: `random_agent` is not a parameter of `teleport` (as in the
        # shipped YAML): the factory drops it
        reset=('teleport', dict(shape=Shape(7, 8), random_agent=True)),
        transitions=[T('move_agent'), T('turn_agent'), T('teleport')],
        rewards=standard_rewards(),
        terminating=D('reach_exit'),
        observation=('fully_transparent', Area((-2, 2), (-1, 1))),
    ),
    'crossing.7x9': dict(
        objects=[Wall, Floor, Exit],
        colors=[Color.NONE],
        actions=MOVE_TURN,
        reset=(
            'crossing',
            dict(shape=Shape(7, 9), num_rivers=2, object_type=Wall),
        ),
        transitions=[T('move_agent'), T('turn_agent')],
        rewards=standard_rewards(),
        terminating=D('reach_exit'),
        observation=('partially_occluded', Area((-6, 0), (-3, 3))),
    ),
    'memory.5x7': dict(
        objects=[Wall, Floor, Exit, Beacon],
        colors=[Color.NONE, Color.RED, Color.GREEN, Color.BLUE, Color.YELLOW],
        actions=MOVE_TURN,
        reset=(
            'memory',
            dict(
                shape=Shape(5, 7),
                colors={Color.RED, Color.GREEN, Color.BLUE, Color.YELLOW},
            ),
        ),
        transitions=[T('move_agent'), T('turn_agent')],
        rewards=[
            R('reach_exit_memory', reward_good=5.0, reward_bad=-5.0),
            R('living_reward', reward=-0.05),
        ],
        terminating=D('reach_exit'),
        observation=('partially_occluded', Area((-6, 0), (-3, 3))),
    ),
    'memory_four_rooms.7x7': dict(
        objects=[Wall, Floor, Exit, Beacon],
        colors=[Color.NONE, Color.RED, Color.GREEN, Color.BLUE, Color.YELLOW],
        actions=MOVE_TURN,
        reset=(
            'memory_rooms',
            dict(
                shape=Shape(7, 7),
                layout=(2, 2),
                colors={Color.RED, Color.GREEN, Color.BLUE, Color.YELLOW},
                num_beacons=1,
                num_exits=2,
            ),
        ),
        transitions=[T('move_agent'), T('turn_agent')],
        rewards=[
            R('reach_exit_memory', reward_good=5.0, reward_bad=-5.0),
            R('living_reward', reward=-0.05),
        ],
        terminating=D('reach_exit'),
        observation=('partially_occluded', Area((-6, 0), (-3, 3))),
    ),
    'everything.6x9': dict(
        objects=[Wall, Floor, Exit, Door, Key, MovingObstacle, Box, Telepod],
        colors=list(Color),
        actions=ALL_ACTIONS,
        reset=('keydoor', dict(shape=Shape(6, 9))),
        transitions=[
            T('move_agent'),
            T('turn_agent'),
            T('actuate_door'),
            T('actuate_box'),
            T('pickndrop'),
            T('move_obstacles'),
            T('teleport'),
        ],
        rewards=standard_rewards()
        + [
            R('pickndrop', object_type=Key, reward_pick=1.0, reward_drop=-1.0),
            R('bump_moving_obstacle', reward=-1.0),
            R('bump_into_wall', reward=-1.0),
        ],
        terminating=D(
            'reduce_all',
            terminating_functions=[D('reach_exit'), D('bump_into_wall')],
        ),
        observation=('raytracing', Area((-3, 0), (-3, 3))),
    ),
}


def make_components(config):
    reset_name, reset_kwargs = config['reset']
    reset_function = reset_fs.factory(reset_name, **reset_kwargs)
    transition_function = T('chain', transition_functions=config['transitions'])
    reward_function = R('reduce_sum', reward_functions=config['rewards'])
    observation_name, area = config['observation']
    observation_function = observation_fs.factory(observation_name, area=area)
    termination_function = config['terminating']

    reset_gv_rng(0)
    state = reset_function()
    observation = observation_function(state)
    state_space = StateSpace(
        state.grid.shape, config['objects'], config['colors']
    )
    observation_space = ObservationSpace(
        observation.grid.shape, config['objects'], config['colors']
    )
    action_space = ActionSpace(config['actions'])
    return (
        state_space,
        action_space,
        observation_space,
        reset_function,
        transition_function,
        observation_function,
        reward_function,
        termination_function,
    )


# --------------------------------------------------------------------------
# helpers
# --------------------------------------------------------------------------


def outcome(f, *args, **kwargs):
    try:
        return ('ok', f(*args, **kwargs))
    except Exception as error:  # pylint: disable=broad-except
        return ('raise', type(error), str(error))


def rng_state(rng):
    return None if rng is None else repr(rng.bit_generator.state)


def check_property_step(env, state, action, result, label):
    next_state, reward, terminal = result
    check(isinstance(next_state, State), label, 'next state type')
    check(next_state is not state, label, 'next state is a new object')
    check(env.state_space.contains(next_state), label, 'next state in space')
    check(
        next_state.grid.shape == state.grid.shape, label, 'same grid shape'
    )
    check(
        next_state.grid.area.contains(next_state.agent.position),
        label,
        'agent in grid',
    )
    check(
        type(next_state.agent.grid_object)
        in set(env.state_space.object_types) | {NoneGridObject},
        label,
        'held item declared',
    )
    check(
        isinstance(reward, float) and math.isfinite(reward),
        label,
        'finite float reward',
        reward,
    )
    check(isinstance(terminal, bool), label, 'boolean terminal', terminal)


def awkward_states(env, state, rng):
    """border / corner agents, all headings, held items, unpaired telepods"""
    shape = state.grid.shape
    ys = sorted({0, 1, shape.height // 2, shape.height - 1})
    xs = sorted({0, 1, shape.width // 2, shape.width - 1})
    object_types = env.state_space.object_types
    held = [None]
    if Key in object_types:
        held += [Key(Color.YELLOW), Key(Color.NONE)]
    if Box in object_types:
        held += [Box(Floor())]
    if Telepod in object_types:
        held += [Telepod(Color.RED)]

    for y, x, orientation in itertools.product(ys, xs, Orientation):
        if not (y in (0, shape.height - 1) or x in (0, shape.width - 1)):
            continue
        for item in held:
            s = fast_copy(state)
            s.agent.position = Position(y, x)
            s.agent.orientation = orientation
            s.agent.grid_object = (
                NoneGridObject() if item is None else fast_copy(item)
            )
            yield s

    # a mix of declared objects sprinkled in the interior
    makers = {
        Wall: Wall,
        Floor: Floor,
        Door: lambda: Door(Door.Status.LOCKED, Color.YELLOW),
        Key: lambda: Key(Color.YELLOW),
        MovingObstacle: MovingObstacle,
        Box: lambda: Box(Key(Color.YELLOW)),
    }
    # NOTE: exits and beacons are left alone (the reward functions document
    # that they need exactly one exit / beacon-exit colours that match)
    for _ in range(3):
        s = fast_copy(state)
        for position in s.grid.area.positions():
            if isinstance(s.grid[position], (Exit, Beacon)):
                continue
            if rng.random() < 0.3:
                object_type = object_types[rng.integers(len(object_types))]
                if object_type in makers:
                    s.grid[position] = makers[object_type]()
        floors = [
            position
            for position in s.grid.area.positions()
            if isinstance(s.grid[position], Floor)
        ]
        if Telepod in object_types and len(floors) >= 3:
            # a pair of telepods, and an unpaired one with the agent on it
            s.grid[floors[0]] = Telepod(Color.RED)
            s.grid[floors[-1]] = Telepod(Color.RED)
            s.grid[floors[1]] = Telepod(Color.NONE)
            yield s
            s = fast_copy(s)
            s.agent.position = floors[1]
            yield s
            s = fast_copy(s)
            s.agent.position = floors[0]
        yield s


# --------------------------------------------------------------------------
# part 1: same results as the reference wiring + property, real components
# --------------------------------------------------------------------------


def part_equivalence(debug):
    reset_gv_debug(debug)
    for name, config in CONFIGS.items():
        components = make_components(config)
        env = GridWorld(*components)
        ref = RefGridWorld(*components)
        other = GridWorld(*components)  # another environment, same process

        for seed in (0, 12345):
            label = f'[{name} debug={debug} seed={seed}]'
            env.set_seed(seed)
            ref.set_seed(seed)
            other.set_seed(seed + 1)
            aux = make_rng(seed)

            reset_gv_rng(seed)
            state = env.functional_reset()
            reset_gv_rng(seed)
            ref_state = ref.functional_reset()
            check(state == ref_state, label, 'reset state')
            check(env.state_space.contains(state), label, 'reset in space')
            check(
                rng_state(env._rng) == rng_state(ref._rng),
                label,
                'rng after reset',
            )
            other.functional_reset()  # interleaved use of another env

            # trajectory from reset
            for t in range(40):
                action = env.action_space.actions[
                    aux.integers(env.action_space.num_actions)
                ]
                before = fast_copy(state)
                reset_gv_rng(t)
                result = outcome(env.functional_step, state, action)
                reset_gv_rng(t)
                ref_result = outcome(ref.functional_step, ref_state, action)
                check(result == ref_result, label, t, action, 'step result')
                check(state == before, label, 'input state untouched')
                check(result[0] == 'ok', label, t, action, result)
                check_property_step(env, state, action, result[1], label)
                check(
                    rng_state(env._rng) == rng_state(ref._rng),
                    label,
                    'rng after step',
                )

                observation = outcome(env.functional_observation, state)
                ref_observation = outcome(ref.functional_observation, state)
                check(observation == ref_observation, label, 'observation')
                check(observation[0] == 'ok', label, observation)
                check(
                    isinstance(observation[1], Observation)
                    and env.observation_space.contains(observation[1]),
                    label,
                    'observation in space',
                )
                check(
                    rng_state(env._rng) == rng_state(ref._rng),
                    label,
                    'rng after observation',
                )

                other.functional_step(other.functional_reset(), action)
                state, _, terminal = result[1]
                ref_state = ref_result[1][0]
                if terminal:
                    state = env.functional_reset()
                    ref_state = ref.functional_reset()
                    check(state == ref_state, label, 'reset after terminal')

            # awkward states x all actions
            for s in awkward_states(env, state, aux):
                if not env.state_space.contains(s):
                    continue
                for action in env.action_space.actions:
                    before = fast_copy(s)
                    reset_gv_rng(7)
                    result = outcome(env.functional_step, s, action)
                    reset_gv_rng(7)
                    ref_result = outcome(ref.functional_step, s, action)
                    check(result == ref_result, label, action, 'awkward step')
                    check(s == before, label, 'awkward input untouched')
                    check(result[0] == 'ok', label, s.agent, action, result)
                    check_property_step(env, s, action, result[1], label)
                observation = outcome(env.functional_observation, s)
                ref_observation = outcome(ref.functional_observation, s)
                check(observation == ref_observation, label, 'awkward obs')
                check(
                    observation[0] == 'ok'
                    and env.observation_space.contains(observation[1]),
                    label,
                    'awkward observation in space',
                )

            # actions outside of the action space: ValueError, nothing changes
            for action in list(Action) + [None, 0, 'MOVE_FORWARD']:
                if action in env.action_space.actions:
                    continue
                before = fast_copy(state)
                rng_before = rng_state(env._rng)
                result = outcome(env.functional_step, state, action)
                ref_result = outcome(ref.functional_step, state, action)
                check(result == ref_result, label, action, 'bad action')
                check(
                    result
                    == (
                        'raise',
                        ValueError,
                        'action {action} does not satisfy action-space',
                    ),
                    label,
                    action,
                    result,
                )
                check(state == before, label, 'state after bad action')
                check(rng_state(env._rng) == rng_before, label, 'rng untouched')

            # through the stateful interface (reset / step / observation)
            env.set_seed(seed)
            ref.set_seed(seed)
            env.reset()
            ref.reset()
            check(env.state == ref.state, label, 'stateful reset')
            for action in env.action_space.actions:
                check(env.step(action) == ref.step(action), label, 'step')
                check(env.state == ref.state, label, 'stateful state')
                check(env.observation == ref.observation, label, 'stateful obs')
                if not env.action_space.contains(Action.PICK_N_DROP):
                    stored = env.state
                    check(
                        outcome(env.step, Action.PICK_N_DROP)
                        == outcome(ref.step, Action.PICK_N_DROP),
                        label,
                        'stateful bad action',
                    )
                    check(env.state is stored, label, 'stored state kept')

            # re-seeding replays the same trajectory
            runs = []
            for _ in range(2):
                env.set_seed(seed)
                reset_gv_rng(seed)
                s = env.functional_reset()
                run = [s]
                for action in env.action_space.actions * 2:
                    s, reward, terminal = env.functional_step(s, action)
                    run.append((s, reward, terminal))
                    run.append(env.functional_observation(s))
                runs.append(run)
            check(runs[0] == runs[1], label, 're-seeding')


# --------------------------------------------------------------------------
# part 2: same calls, same order, same objects (recording components)
# --------------------------------------------------------------------------


class Recorder:
    def __init__(self):
        self.log = []

    def component(self, name, function):
        def wrapper(*args, **kwargs):
            self.log.append(
                (
                    name,
                    tuple(id(a) if isinstance(a, State) else a for a in args),
                    tuple(sorted((k, id(v)) for k, v in kwargs.items())),
                )
            )
            return function(*args, **kwargs)

        return wrapper

    def space(self, name, space):
        recorder = self

        class Spy:
            def contains(self, x):
                recorder.log.append((name + '.contains', id(x)))
                return space.contains(x)

            def __getattr__(self, attr):
                return getattr(space, attr)

        return Spy()


def make_recorded(cls, config, break_transition=False, break_observation=False):
    (
        state_space,
        action_space,
        observation_space,
        reset_function,
        transition_function,
        observation_function,
        reward_function,
        termination_function,
    ) = make_components(config)

    if break_transition:
        inner_transition = transition_function

        def transition_function(state, action, *, rng=None):
            inner_transition(state, action, rng=rng)
            state.grid[0, 0] = Beacon(Color.BLUE)  # undeclared type

    if break_observation:
        inner_observation = observation_function

        def observation_function(state, *, rng=None):
            observation = inner_observation(state, rng=rng)
            observation.grid[0, 0] = Beacon(Color.BLUE)  # undeclared type
            return observation

    recorder = Recorder()
    env = cls(
        recorder.space('state_space', state_space),
        recorder.space('action_space', action_space),
        recorder.space('observation_space', observation_space),
        recorder.component('reset', reset_function),
        recorder.component('transition', transition_function),
        recorder.component('observation', observation_function),
        recorder.component('reward', reward_function),
        recorder.component('termination', termination_function),
    )
    return env, recorder


def normalized(log, objects):
    """replaces ids by the names of known objects (others: 'new')"""
    names = {id(o): name for name, o in objects.items()}

    def norm(x):
        if isinstance(x, tuple):
            return tuple(norm(y) for y in x)
        if isinstance(x, int) and not isinstance(x, bool) and x > 1000:
            return names.get(x, 'new')
        return x

    return [norm(entry) for entry in log]


def part_call_order(debug):
    reset_gv_debug(debug)
    config = CONFIGS['keydoor.7x9']

    for kwargs in (
        {},
        {'break_transition': True},
        {'break_observation': True},
    ):
        logs = []
        for cls in (GridWorld, RefGridWorld):
            label = f'[calls debug={debug} {kwargs} {cls.__name__}]'
            env, recorder = make_recorded(cls, config, **kwargs)
            entries = []

            def run(f, *args, objects):
                recorder.log.clear()
                result = outcome(f, *args)
                objects = dict(objects, rng=env._rng, none=None)
                if result[0] == 'ok':
                    value = result[1]
                    if isinstance(value, tuple):
                        objects['returned'] = value[0]
                    else:
                        objects['returned'] = value
                entries.append(
                    (
                        f.__name__,
                        result if result[0] == 'raise' else 'ok',
                        normalized(recorder.log, objects),
                    )
                )
                return result

            # before seeding: components receive rng=None
            result = run(env.functional_reset, objects={})
            state = result[1]
            run(env.functional_observation, state, objects={'state': state})
            env.set_seed(3)
            check(isinstance(env._rng, rnd.Generator), label, 'seeded rng')
            result = run(env.functional_reset, objects={})
            state = result[1]
            for action in list(Action) + [None]:
                run(
                    env.functional_step,
                    state,
                    action,
                    objects={'state': state},
                )
            run(env.functional_observation, state, objects={'state': state})

            # state outside of the state space (and bad action at once)
            bad = fast_copy(state)
            bad.grid[1, 1] = Beacon(Color.GREEN)
            run(
                env.functional_step,
                bad,
                Action.MOVE_LEFT,
                objects={'state': bad},
            )
            run(env.functional_step, bad, None, objects={'state': bad})
            logs.append(entries)

        check(logs[0] == logs[1], f'debug={debug} {kwargs}', 'call traces')

        # a few hard-coded expectations on the (shared) trace
        trace = {}
        for name, result, log in logs[0]:
            trace.setdefault(name, []).append((result, log))

        first_reset = trace['functional_reset'][0]
        check(
            first_reset[1][0] == ('reset', (), (('rng', 'none'),)),
            'unseeded reset gets rng=None',
            first_reset,
        )
        seeded_reset = trace['functional_reset'][1]
        check(
            seeded_reset[1][0] == ('reset', (), (('rng', 'rng'),)),
            'seeded reset gets the env rng',
            seeded_reset,
        )
        check(
            len(seeded_reset[1]) == (2 if debug else 1),
            'reset: one component call, one debug check',
            seeded_reset,
        )

        steps = trace['functional_step']
        result, log = steps[0]  # MOVE_FORWARD, valid
        if kwargs.get('break_transition') and debug:
            expected_names = [
                'state_space.contains',
                'action_space.contains',
                'transition',
                'state_space.contains',
            ]
            check(
                result
                == (
                    'raise',
                    ValueError,
                    'next_state does not satisfy state_space',
                ),
                result,
            )
        else:
            expected_names = (
                ['state_space.contains'] if debug else []
            ) + ['action_space.contains', 'transition']
            expected_names += ['state_space.contains'] if debug else []
            expected_names += ['reward', 'termination']
            check(result == 'ok', result)
        check([e[0] for e in log] == expected_names, debug, kwargs, log)
        by_name = {e[0]: e for e in log}
        copy_name = 'returned' if result == 'ok' else 'new'
        check(
            by_name['transition']
            == (
                'transition',
                (copy_name, Action.MOVE_FORWARD),
                (('rng', 'rng'),),
            ),
            'transition runs on a copy, with the env rng',
            by_name['transition'],
        )
        if 'reward' in by_name:
            for name in ('reward', 'termination'):
                check(
                    by_name[name]
                    == (name, ('state', Action.MOVE_FORWARD, 'returned'), ()),
                    'reward / termination: (state, action, next_state), no rng',
                    by_name[name],
                )

        result, log = steps[len(list(Action))]  # action None
        check(
            result
            == (
                'raise',
                ValueError,
                'action {action} does not satisfy action-space',
            ),
            result,
        )
        check(
            [e[0] for e in log]
            == (['state_space.contains'] if debug else [])
            + ['action_space.contains'],
            'bad action: no component runs',
            log,
        )

        result, log = steps[-1]  # bad state and bad action
        expected = (
            ('raise', ValueError, 'state does not satisfy state_space')
            if debug
            else (
                'raise',
                ValueError,
                'action {action} does not satisfy action-space',
            )
        )
        check(result == expected, 'bad state + bad action', result)
        if debug:
            check([e[0] for e in log] == ['state_space.contains'], log)

        result, log = steps[-2]  # bad state, good action
        if debug:
            check(
                result
                == ('raise', ValueError, 'state does not satisfy state_space'),
                result,
            )
            check([e[0] for e in log] == ['state_space.contains'], log)

        result, log = trace['functional_observation'][-1]
        check(
            log[0] == ('observation', ('state',), (('rng', 'rng'),)),
            'observation gets the state and the env rng',
            log,
        )
        if kwargs.get('break_observation') and debug:
            check(
                result
                == (
                    'raise',
                    ValueError,
                    'observation does not satisfy observation_space',
                ),
                result,
            )
        else:
            check(result == 'ok', result)
        check(
            [e[0] for e in log]
            == ['observation']
            + (['observation_space.contains'] if debug else []),
            log,
        )


def part_set_seed():
    reset_gv_debug(True)
    components = make_components(CONFIGS['dynamic_obstacles.7x7'])
    env = GridWorld(*components)
    check(env._rng is None, 'no rng before set_seed')
    for seed in (0, 5, None):
        env.set_seed(seed)
        first = env._rng
        check(isinstance(first, rnd.Generator), 'set_seed makes a generator')
        if seed is not None:
            check(
                rng_state(first) == rng_state(rnd.default_rng(seed)),
                'set_seed state',
            )
        env.set_seed(seed)
        check(env._rng is not first, 'set_seed makes a new generator')
    # environments do not share their generator
    a, b = GridWorld(*components), GridWorld(*components)
    a.set_seed(1)
    b.set_seed(1)
    check(a._rng is not b._rng, 'separate generators')
    sa, sb = a.functional_reset(), b.functional_reset()
    check(sa == sb, 'same seed, same reset')
    for action in a.action_space.actions:
        reset_gv_rng(0)
        ra = a.functional_step(sa, action)
        reset_gv_rng(0)
        rb = b.functional_step(sb, action)
        check(ra == rb, 'same seed, same step')


def main():
    for debug in (True, False):
        part_equivalence(debug)
        part_call_order(debug)
    part_set_seed()
    reset_gv_debug(None)
    print(f'OK ({n_checks} checks)')


if __name__ == '__main__':
    main()
