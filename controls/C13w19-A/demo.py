"""Demo for change A (State.is_vacant / State.vacant_positions).

Runs on the pristine tree and on the patched tree alike; exits 0 when

* every built-in reset function yields a well-formed state (property C13) or
  raises ValueError, over a broad sweep of shapes / parameters / seeds;
* `dynamic_obstacles` and `teleport` return exactly the states (and leave the
  generator in exactly the state) of the reference implementations embedded
  below, which spell the vacant-cell scan out by hand;
* if `State` offers `is_vacant` / `vacant_positions`, they agree with the
  hand-written scan on awkward states and with off-grid / negative positions.
"""
import itertools as itt
import os
import sys

sys.path.insert(0, os.getcwd())

from gym_gridverse.agent import Agent  # noqa: E402
from gym_gridverse.envs import reset_functions as rf  # noqa: E402
from gym_gridverse.geometry import Orientation, Position, Shape  # noqa: E402
from gym_gridverse.grid import Grid  # noqa: E402
from gym_gridverse.grid_object import (  # noqa: E402
    Beacon,
    Color,
    Door,
    Exit,
    Floor,
    Key,
    MovingObstacle,
    NoneGridObject,
    Telepod,
    Wall,
)
from gym_gridverse.rng import (  # noqa: E402
    choice,
    choices,
    get_gv_rng_if_none,
    make_rng,
    reset_gv_rng,
)
from gym_gridverse.state import State  # noqa: E402

CHECKS = 0


def check(condition, *what):
    global CHECKS
    CHECKS += 1
    if not condition:
        print('FAILED:', *what)
        sys.exit(1)


# ---------------------------------------------------------------------------
# the property
# ---------------------------------------------------------------------------


def objects(state, object_type):
    return [
        (position, state.grid[position])
        for position in state.grid.area.positions()
        if isinstance(state.grid[position], object_type)
    ]


def check_common(state, shape, *what):
    grid, agent = state.grid, state.agent
    check(isinstance(state, State), 'type', *what)
    check(grid.shape == shape, 'shape', grid.shape, *what)
    check(len(grid.objects) == shape.height, 'rows', *what)
    check(all(len(row) == shape.width for row in grid.objects), 'cols', *what)
    for position in grid.area.positions('border'):
        check(isinstance(grid[position], Wall), 'boundary', position, *what)
    check(grid.area.contains(agent.position), 'agent inside', *what)
    check(isinstance(agent.orientation, Orientation), 'orientation', *what)
    check(isinstance(agent.grid_object, NoneGridObject), 'empty hands', *what)
    cell = grid[agent.position]
    check(not cell.blocks_movement, 'agent cell blocks', cell, *what)
    check(
        not isinstance(cell, (Exit, MovingObstacle, Telepod)),
        'agent cell',
        cell,
        *what,
    )


def check_counts(state, counts, *what):
    for object_type in (Exit, MovingObstacle, Door, Key, Telepod, Beacon):
        check(
            len(objects(state, object_type)) == counts.get(object_type, 0),
            'count',
            object_type.__name__,
            len(objects(state, object_type)),
            *what,
        )


def check_keydoor(state, shape, *what):
    check_common(state, shape, *what)
    check_counts(state, {Exit: 1, Door: 1, Key: 1}, *what)
    ((door_position, door),) = objects(state, Door)
    ((key_position, key),) = objects(state, Key)
    check(door.is_locked, 'door locked', *what)
    check(door.color == key.color, 'colours', *what)
    # the door is the only gap of a full-height dividing wall
    check(1 <= door_position.y <= shape.height - 2, 'door y', *what)
    check(2 <= door_position.x <= shape.width - 3, 'door x', *what)
    for y in range(shape.height):
        if y != door_position.y:
            check(
                isinstance(state.grid[y, door_position.x], Wall),
                'dividing wall',
                y,
                *what,
            )
    check(key_position.x < door_position.x, 'key side', *what)
    check(state.agent.position.x < door_position.x, 'agent side', *what)
    ((exit_position, _),) = objects(state, Exit)
    check(exit_position.x > door_position.x, 'exit side', *what)


def check_memory(state, shape, num_exits, num_beacons, colors, *what):
    check_common(state, shape, *what)
    check_counts(state, {Exit: num_exits, Beacon: num_beacons}, *what)
    exit_colors = [obj.color for _, obj in objects(state, Exit)]
    check(len(set(exit_colors)) == len(exit_colors), 'exit colours', *what)
    check(set(exit_colors) <= set(colors), 'colour set', *what)
    beacon_colors = {obj.color for _, obj in objects(state, Beacon)}
    check(len(beacon_colors) == 1, 'beacon colours', *what)
    (beacon_color,) = beacon_colors
    check(exit_colors.count(beacon_color) == 1, 'beacon match', *what)


# ---------------------------------------------------------------------------
# reference implementations (vacant-cell scan written out by hand)
# ---------------------------------------------------------------------------


def ref_vacant(state):
    return [
        position
        for position in state.grid.area.positions()
        if isinstance(state.grid[position], Floor)
        and position != state.agent.position
    ]


def ref_dynamic_obstacles(shape, num_obstacles, random_agent=False, *, rng=None):
    rng = get_gv_rng_if_none(rng)
    state = rf.empty(shape, random_agent, rng=rng)
    vacant_positions = ref_vacant(state)
    try:
        sample_positions = choices(
            rng, vacant_positions, size=num_obstacles, replace=False
        )
    except ValueError as e:
        raise ValueError('too many obstacles') from e
    for pos in sample_positions:
        assert isinstance(state.grid[pos], Floor)
        state.grid[pos] = MovingObstacle()
    return state


def ref_teleport(shape, *, rng=None):
    rng = get_gv_rng_if_none(rng)
    state = rf.empty(shape)
    state.agent.position = Position(1, 1)
    state.agent.orientation = choice(rng, [Orientation.R, Orientation.B])
    telepods = [Telepod(Color.RED) for _ in range(2)]
    positions = rng.choice(ref_vacant(state), size=2, replace=False)
    for position, telepod in zip(positions, telepods):
        state.grid[position] = telepod
    state.agent.position = Position(1, 1)
    state.agent.orientation = choice(rng, [Orientation.R, Orientation.B])
    return state


def outcome(function, *args, seed, **kwargs):
    """(state or 'ValueError', generator state afterwards)"""
    rng = make_rng(seed)
    try:
        result = function(*args, rng=rng, **kwargs)
    except ValueError:
        result = 'ValueError'
    return result, rng.bit_generator.state


def same(a, b):
    (state_a, rng_a), (state_b, rng_b) = a, b
    if isinstance(state_a, str) or isinstance(state_b, str):
        return state_a == state_b
    return (
        state_a == state_b
        and state_a.grid.shape == state_b.grid.shape
        and all(
            type(state_a.grid[p]) is type(state_b.grid[p])
            for p in state_a.grid.area.positions()
        )
        and rng_a == rng_b
    )


# ---------------------------------------------------------------------------
# sweeps
# ---------------------------------------------------------------------------

SEEDS = range(12)
SHAPES = [Shape(h, w) for h in range(1, 9) for w in range(1, 9)] + [
    Shape(4, 13),
    Shape(13, 4),
    Shape(9, 11),
    Shape(11, 5),
]


def sweep_empty():
    for shape, random_agent, random_exit, seed in itt.product(
        SHAPES, [False, True], [False, True], SEEDS
    ):
        what = ('empty', shape, random_agent, random_exit, seed)
        state, _ = outcome(rf.empty, shape, random_agent, random_exit, seed=seed)
        if shape.height < 4 or shape.width < 4:
            check(state == 'ValueError', 'expected ValueError', *what)
            continue
        check_common(state, shape, *what)
        check_counts(state, {Exit: 1}, *what)
        if not random_agent:
            check(state.agent.position == Position(1, 1), 'corner', *what)
            check(state.agent.orientation == Orientation.R, 'heading', *what)
        if not random_exit:
            check(
                isinstance(state.grid[shape.height - 2, shape.width - 2], Exit),
                'exit corner',
                *what,
            )


def sweep_dynamic_obstacles():
    for shape, random_agent, seed in itt.product(SHAPES, [False, True], SEEDS):
        if shape.height < 4 or shape.width < 4:
            capacity = -1
        else:
            capacity = (shape.height - 2) * (shape.width - 2) - 2
        for num_obstacles in sorted({0, 1, 2, 3, capacity, capacity + 1, 50}):
            if num_obstacles < 0:
                continue
            what = ('dynamic_obstacles', shape, num_obstacles, random_agent, seed)
            got = outcome(
                rf.dynamic_obstacles, shape, num_obstacles, random_agent, seed=seed
            )
            ref = outcome(
                ref_dynamic_obstacles, shape, num_obstacles, random_agent, seed=seed
            )
            check(same(got, ref), 'differs from reference', *what)
            state, _ = got
            if capacity < 0 or num_obstacles > capacity:
                check(state == 'ValueError', 'expected ValueError', *what)
                continue
            check_common(state, shape, *what)
            check_counts(state, {Exit: 1, MovingObstacle: num_obstacles}, *what)
            if not random_agent:
                check(state.agent.position == Position(1, 1), 'corner', *what)
            if num_obstacles == capacity:
                # full house: only the agent's cell is left as floor
                floors = objects(state, Floor)
                check(len(floors) == 1, 'one floor left', *what)
                check(floors[0][0] == state.agent.position, 'agent floor', *what)


def sweep_teleport():
    for shape, seed in itt.product(SHAPES, range(40)):
        what = ('teleport', shape, seed)
        got = outcome(rf.teleport, shape, seed=seed)
        ref = outcome(ref_teleport, shape, seed=seed)
        check(same(got, ref), 'differs from reference', *what)
        state, _ = got
        if shape.height < 4 or shape.width < 4:
            check(state == 'ValueError', 'expected ValueError', *what)
            continue
        check_common(state, shape, *what)
        check_counts(state, {Exit: 1, Telepod: 2}, *what)
        (p, a), (q, b) = objects(state, Telepod)
        check(a.color == b.color and a is not b and p != q, 'telepods', *what)
        check(state.agent.position == Position(1, 1), 'corner', *what)
        check(
            state.agent.orientation in (Orientation.R, Orientation.B),
            'heading',
            *what,
        )


def sweep_keydoor():
    for shape, seed in itt.product(SHAPES, SEEDS):
        what = ('keydoor', shape, seed)
        state, _ = outcome(rf.keydoor, shape, seed=seed)
        if shape.height < 4 or shape.width < 5:
            check(state == 'ValueError', 'expected ValueError', *what)
            continue
        check_keydoor(state, shape, *what)


def sweep_crossing():
    for shape, num_rivers, object_type, seed in itt.product(
        SHAPES, [-1, 0, 1, 2, 3, 20], [Wall, MovingObstacle], SEEDS
    ):
        what = ('crossing', shape, num_rivers, object_type.__name__, seed)
        state, _ = outcome(rf.crossing, shape, num_rivers, object_type, seed=seed)
        legal = (
            shape.height >= 5
            and shape.width >= 5
            and shape.height % 2 == 1
            and shape.width % 2 == 1
            and num_rivers > 0
        )
        if not legal:
            check(state == 'ValueError', 'expected ValueError', *what)
            continue
        check_common(state, shape, *what)
        if object_type is Wall:
            check_counts(state, {Exit: 1}, *what)
        else:
            check(len(objects(state, Exit)) == 1, 'one exit', *what)
        check(state.agent.position == Position(1, 1), 'corner', *what)


def sweep_rooms():
    for shape, layout, seed in itt.product(
        SHAPES, [(1, 1), (1, 2), (2, 1), (2, 2), (3, 2), (2, 3)], range(6)
    ):
        what = ('rooms', shape, layout, seed)
        state, _ = outcome(rf.rooms, shape, layout, seed=seed)
        if state == 'ValueError':
            continue
        check_common(state, shape, *what)
        check_counts(state, {Exit: 1}, *what)


def sweep_memory():
    colour_sets = [
        {Color.RED, Color.GREEN},
        {Color.BLUE, Color.YELLOW, Color.RED},
        set(Color) - {Color.NONE},
        {Color.RED},
        set(),
        {Color.RED, Color.NONE},
        {Color.RED, Color.GREEN, Color.NONE},
    ]
    for shape, colors, seed in itt.product(SHAPES, colour_sets, range(6)):
        what = ('memory', shape, sorted(c.name for c in colors), seed)
        state, _ = outcome(rf.memory, shape, colors, seed=seed)
        legal = (
            shape.height >= 5
            and shape.width >= 5
            and shape.width % 2 == 1
            and Color.NONE not in colors
            and len(colors) >= 2
        )
        if not legal:
            check(state == 'ValueError', 'expected ValueError', *what)
            continue
        check_memory(state, shape, 2, 2, colors, *what)

    for shape, layout, colors, num_beacons, num_exits, seed in itt.product(
        [Shape(5, 5), Shape(7, 9), Shape(9, 7), Shape(6, 11), Shape(3, 3)],
        [(1, 1), (2, 2), (1, 3)],
        colour_sets,
        [0, 1, 3],
        [1, 2, 3],
        range(4),
    ):
        what = ('memory_rooms', shape, layout, num_beacons, num_exits, seed)
        state, _ = outcome(
            rf.memory_rooms, shape, layout, colors, num_beacons, num_exits, seed=seed
        )
        legal = (
            Color.NONE not in colors
            and len(colors) >= 2
            and num_beacons >= 1
            and num_exits >= 2
        )
        if not legal or num_exits > len(colors):
            check(state == 'ValueError', 'expected ValueError', *what)
            continue
        if state == 'ValueError':
            continue
        check_memory(state, shape, num_exits, num_beacons, colors, *what)


def sweep_global_rng():
    """rng=None falls back on the library generator; re-seeding replays"""
    for seed in range(10):
        shape = Shape(5 + seed % 3, 4 + seed % 4)
        reset_gv_rng(seed)
        first = [
            rf.dynamic_obstacles(shape, 2, True),
            rf.teleport(shape),
            rf.dynamic_obstacles(shape, 1),
        ]
        reset_gv_rng(seed)
        again = [
            rf.dynamic_obstacles(shape, 2, True),
            rf.teleport(shape),
            rf.dynamic_obstacles(shape, 1),
        ]
        rng = make_rng(seed)
        ref = [
            ref_dynamic_obstacles(shape, 2, True, rng=rng),
            ref_teleport(shape, rng=rng),
            ref_dynamic_obstacles(shape, 1, rng=rng),
        ]
        check(first == again, 're-seeding replays', seed)
        check(first == ref, 'global generator vs reference', seed)
        check(len({id(s.grid) for s in first}) == 3, 'fresh grids', seed)

    # the factory goes through the same functions
    function = rf.factory('dynamic_obstacles', shape=Shape(6, 7), num_obstacles=4)
    check(
        function(rng=make_rng(3))
        == ref_dynamic_obstacles(Shape(6, 7), 4, rng=make_rng(3)),
        'factory dynamic_obstacles',
    )
    function = rf.factory('teleport', shape=Shape(4, 4))
    check(
        function(rng=make_rng(3)) == ref_teleport(Shape(4, 4), rng=make_rng(3)),
        'factory teleport',
    )


def sweep_helpers():
    """State.is_vacant / State.vacant_positions, when the tree has them"""
    is_vacant = getattr(State, 'is_vacant', None)
    vacant_positions = getattr(State, 'vacant_positions', None)
    if is_vacant is None or vacant_positions is None:
        return

    for height, width in [(1, 1), (1, 4), (3, 2), (4, 5), (6, 3)]:
        for seed in range(4):
            rng = make_rng(seed)
            grid = Grid.from_shape((height, width))
            kinds = [Floor, Wall, Exit, MovingObstacle, Floor, Floor]
            for position in grid.area.positions():
                kind = kinds[rng.integers(len(kinds))]
                grid[position] = kind()
            # agent everywhere: borders, corners, and even outside the grid
            agent_positions = list(grid.area.positions()) + [
                Position(-1, -1),
                Position(height, width),
            ]
            for agent_position, orientation in itt.product(
                agent_positions, Orientation
            ):
                state = State(grid, Agent(agent_position, orientation))
                expected = ref_vacant(state)
                what = ('helpers', height, width, seed, agent_position)
                got = state.vacant_positions()
                check(type(got) is list and got == expected, 'vacant', *what)
                for y in range(-3, height + 3):
                    for x in range(-3, width + 3):
                        position = Position(y, x)
                        check(
                            state.is_vacant(position) == (position in expected),
                            'is_vacant',
                            position,
                            *what,
                        )
                # no mutation
                check(state.agent.position == agent_position, 'agent', *what)
                check(state.vacant_positions() == expected, 'repeat', *what)


def main():
    sweep_empty()
    sweep_dynamic_obstacles()
    sweep_teleport()
    sweep_keydoor()
    sweep_crossing()
    sweep_rooms()
    sweep_memory()
    sweep_global_rng()
    sweep_helpers()
    print(f'OK ({CHECKS} checks)')


if __name__ == '__main__':
    main()
