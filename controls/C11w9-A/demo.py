"""Demo / regression script for property C11 (stochastic dynamics).

Runs the library's ``move_obstacles`` and ``teleport`` against reference
implementations embedded below (verbatim copies of the pristine algorithms) on
a broad set of layouts x seeds x actions x headings, and independently checks
the property itself:

* every moving obstacle moves to one of its (at its turn) floor neighbours, or
  stays only if it has none; none lost / duplicated / moved twice / placed on
  non-floor; every free neighbour is a possible destination;
* an agent on a telepod with a same-coloured partner lands on one of the other
  telepods of that colour (each possible); otherwise it is not displaced.

Exits 0 on success; raises AssertionError otherwise.  Does not depend on any
patch being applied.
"""
import copy
import itertools as itt
import os
import sys

sys.path.insert(0, os.getcwd())

import numpy.random as rnd  # noqa: E402

import gym_gridverse.rng as gv_rng  # noqa: E402
from gym_gridverse.action import Action  # noqa: E402
from gym_gridverse.agent import Agent  # noqa: E402
from gym_gridverse.envs.transition_functions import (  # noqa: E402
    chain,
    factory,
    move_obstacles,
    teleport,
    transition_with_copy,
)
from gym_gridverse.geometry import Orientation, Position  # noqa: E402
from gym_gridverse.grid import Grid  # noqa: E402
from gym_gridverse.grid_object import (  # noqa: E402
    Color,
    Exit,
    Floor,
    Key,
    MovingObstacle,
    Telepod,
    Wall,
)
from gym_gridverse.state import State  # noqa: E402

NUM_SEEDS = 40


# --------------------------------------------------------------------------
# reference implementations (pristine algorithms, spelled with plain indices)
# --------------------------------------------------------------------------


def ref_move_obstacles(state, action, *, rng=None):
    rng = gv_rng.get_gv_rng_if_none(rng)
    grid = state.grid
    height, width = len(grid.objects), len(grid.objects[0])

    positions = [
        (y, x)
        for y in range(height)
        for x in range(width)
        if isinstance(grid.objects[y][x], MovingObstacle)
    ]
    for y, x in positions:
        # clockwise from top: up, right, down, left
        candidates = [(y - 1, x), (y, x + 1), (y + 1, x), (y, x - 1)]
        free = [
            (ny, nx)
            for ny, nx in candidates
            if 0 <= ny < height
            and 0 <= nx < width
            and isinstance(grid.objects[ny][nx], Floor)
        ]
        try:
            i = rng.choice(len(free))
        except ValueError:
            pass
        else:
            ny, nx = free[i]
            grid.objects[y][x], grid.objects[ny][nx] = (
                grid.objects[ny][nx],
                grid.objects[y][x],
            )


def ref_teleport(state, action, *, rng=None):
    rng = gv_rng.get_gv_rng_if_none(rng)
    grid = state.grid
    height, width = len(grid.objects), len(grid.objects[0])
    ay, ax = state.agent.position.yx
    telepod = grid.objects[ay][ax]

    if isinstance(telepod, Telepod):
        positions = [
            Position(y, x)
            for y in range(height)
            for x in range(width)
            if (y, x) != (ay, ax)
            and isinstance(grid.objects[y][x], Telepod)
            and grid.objects[y][x].color == telepod.color
        ]
        try:
            i = rng.choice(len(positions))
        except ValueError:
            pass
        else:
            state.agent.position = positions[i]


# --------------------------------------------------------------------------
# helpers
# --------------------------------------------------------------------------


class FastObstacle(MovingObstacle, register=False):
    """a subclass must be treated like a MovingObstacle"""


class Carpet(Floor, register=False):
    """a subclass of Floor is a legal destination"""


class FancyTelepod(Telepod, register=False):
    """a subclass of Telepod is a telepod"""


_CHARS = {
    '.': Floor,
    '#': Wall,
    'o': MovingObstacle,
    'O': FastObstacle,
    ',': Carpet,
    'E': Exit,
    'k': lambda: Key(Color.RED),
    'r': lambda: Telepod(Color.RED),
    'g': lambda: Telepod(Color.GREEN),
    'b': lambda: Telepod(Color.BLUE),
    'n': lambda: Telepod(Color.NONE),
    'R': lambda: FancyTelepod(Color.RED),
}


def make_grid(rows):
    assert len({len(row) for row in rows}) == 1
    return Grid([[_CHARS[c]() for c in row] for row in rows])


def make_state(rows, agent_yx=(0, 0), orientation=Orientation.F, holding=None):
    return State(
        make_grid(rows), Agent(Position(*agent_yx), orientation, holding)
    )


def identity_matrix(state):
    return [[id(obj) for obj in row] for row in state.grid.objects]


def type_matrix(state):
    return [[type(obj) for obj in row] for row in state.grid.objects]


def agent_signature(state):
    agent = state.agent
    return (agent.position, agent.orientation, id(agent.grid_object))


def rng_signature(rng):
    return repr(rng.bit_generator.state)


def neighbours(y, x, height, width):
    for ny, nx in [(y - 1, x), (y, x + 1), (y + 1, x), (y, x - 1)]:
        if 0 <= ny < height and 0 <= nx < width:
            yield ny, nx


# --------------------------------------------------------------------------
# moving obstacles
# --------------------------------------------------------------------------

OBSTACLE_LAYOUTS = [
    # no obstacle at all (empty list of obstacles)
    ['...', '...'],
    ['#'],
    ['.'],
    # a single cell grid holding an obstacle: nowhere to go
    ['o'],
    # one row / one column (non-square, every cell on the border)
    ['o....'],
    ['....o'],
    ['.o.o.o.'],
    ['oo.oo'],
    ['o', '.', '.'],
    ['.', 'o', '.', 'o'],
    ['o', 'o', '.'],
    # corners and borders of non-square grids
    ['o..o', '....', 'o..o'],
    ['.o..', 'o..o', '..o.'],
    ['o.', '..', '..', '..', '.o'],
    # boxed in by walls / other objects: has to stay
    ['#o#', '###'],
    ['###', '#o#', '###'],
    ['ko', 'E#'],
    ['ooo', 'ooo', 'ooo'],
    ['oo', 'oo'],
    # chains: an earlier move frees / takes a cell of a later obstacle
    ['oo.'],
    ['.oo'],
    ['o.o'],
    ['#o#', '#o#', '#.#'],
    ['#.#', '#o#', '#o#'],
    ['o.o', '.o.', 'o.o'],
    ['ooo.', 'o.oo', '.ooo'],
    # exactly one free neighbour (forced move; consumes no randomness)
    ['#o.#'],
    ['#.o#'],
    ['#.#', '#o#', '###'],
    # mixtures, subclasses, telepods and exits are not floor
    ['O.o', '...', 'o.O'],
    ['o,', ',.'],
    ['rog', 'non', 'bob'],
    ['.r.', 'ror', '.r.'],
    ['#######', '#o...o#', '#.#.#.#', '#o...o#', '#######'],
    ['#####', '#.o.#', '#o.o#', '#.o.#', '#..E#', '#####'],
]


def check_obstacle_step(before_ids, before_types, after_ids, after_types):
    """checks the property for one transition, by replaying turn order"""
    height, width = len(before_ids), len(before_ids[0])

    # same multiset of objects: nothing lost, nothing duplicated, nothing new
    flat_before = sorted(itt.chain.from_iterable(before_ids))
    flat_after = sorted(itt.chain.from_iterable(after_ids))
    assert flat_before == flat_after
    assert len(set(flat_after)) == len(flat_after)

    where_after = {
        after_ids[y][x]: (y, x) for y in range(height) for x in range(width)
    }
    obstacles = [
        (y, x)
        for y in range(height)
        for x in range(width)
        if issubclass(before_types[y][x], MovingObstacle)
    ]

    # replay, in row-major turn order, on a scratch copy
    ids = [row[:] for row in before_ids]
    types = [row[:] for row in before_types]
    for y, x in obstacles:
        obstacle = ids[y][x]
        assert issubclass(types[y][x], MovingObstacle)
        free = [
            (ny, nx)
            for ny, nx in neighbours(y, x, height, width)
            if issubclass(types[ny][nx], Floor)
        ]
        destination = where_after[obstacle]
        if free:
            # moves exactly once, to a cell that was floor at its turn
            assert destination in free, (destination, free)
            ny, nx = destination
            ids[y][x], ids[ny][nx] = ids[ny][nx], ids[y][x]
            types[y][x], types[ny][nx] = types[ny][nx], types[y][x]
        else:
            # only stays if it has nowhere to go
            assert destination == (y, x)

    # and nothing else happened: the replay reproduces the final grid
    assert ids == after_ids
    assert types == after_types

    # non-obstacle, non-floor objects never move
    for y in range(height):
        for x in range(width):
            if not issubclass(
                before_types[y][x], (MovingObstacle, Floor)
            ):
                assert after_ids[y][x] == before_ids[y][x]


def run_obstacles():
    count = 0
    for rows in OBSTACLE_LAYOUTS:
        height, width = len(rows), len(rows[0])
        agent_cells = {(0, 0), (height - 1, width - 1), (height // 2, 0)}
        first_destinations = {}

        for seed in range(NUM_SEEDS):
            action = list(Action)[seed % len(Action)]
            orientation = list(Orientation)[seed % len(Orientation)]
            agent_yx = sorted(agent_cells)[seed % len(agent_cells)]

            state = make_state(rows, agent_yx, orientation)
            # reference runs on a copy sharing the very same objects
            ref_state = State(
                Grid([row[:] for row in state.grid.objects]),
                Agent(Position(*agent_yx), orientation),
            )

            before_ids = identity_matrix(state)
            before_types = type_matrix(state)
            before_agent = agent_signature(state)

            rng, ref_rng = rnd.default_rng(seed), rnd.default_rng(seed)
            result = move_obstacles(state, action, rng=rng)
            ref_move_obstacles(ref_state, action, rng=ref_rng)

            assert result is None
            # same outcome as the reference, object by object
            assert identity_matrix(state) == identity_matrix(ref_state), rows
            # same amount of randomness consumed
            assert rng_signature(rng) == rng_signature(ref_rng), rows
            # agent untouched, shape untouched
            assert agent_signature(state) == before_agent
            assert state.grid.shape.as_tuple == (height, width)

            check_obstacle_step(
                before_ids,
                before_types,
                identity_matrix(state),
                type_matrix(state),
            )

            # where did the first obstacle (in turn order) go?
            obstacles = [
                (y, x)
                for y in range(height)
                for x in range(width)
                if issubclass(before_types[y][x], MovingObstacle)
            ]
            if obstacles:
                y, x = obstacles[0]
                after_ids = identity_matrix(state)
                (destination,) = [
                    (yy, xx)
                    for yy in range(height)
                    for xx in range(width)
                    if after_ids[yy][xx] == before_ids[y][x]
                ]
                first_destinations.setdefault((y, x), set()).add(destination)

            # repeated calls with the same generator keep agreeing
            for _ in range(3):
                previous_ids = identity_matrix(state)
                previous_types = type_matrix(state)
                move_obstacles(state, action, rng=rng)
                ref_move_obstacles(ref_state, action, rng=ref_rng)
                assert identity_matrix(state) == identity_matrix(ref_state)
                assert rng_signature(rng) == rng_signature(ref_rng)
                check_obstacle_step(
                    previous_ids,
                    previous_types,
                    identity_matrix(state),
                    type_matrix(state),
                )
            count += 1

        # every free neighbour of the first obstacle is a possible destination
        for (y, x), destinations in first_destinations.items():
            free = {
                (ny, nx)
                for ny, nx in neighbours(y, x, height, width)
                if rows[ny][nx] in '.,'
            }
            assert destinations == (free or {(y, x)}), (rows, destinations)
    return count


def run_obstacles_single_free_neighbour_exhaustive():
    """every obstacle of a sparse layout reaches each of its free neighbours"""
    rows = ['o...o', '.....', '..o..', '.....', 'o...o', '.....']
    height, width = len(rows), len(rows[0])
    starts = [
        (y, x) for y in range(height) for x in range(width) if rows[y][x] == 'o'
    ]
    seen = {start: set() for start in starts}
    for seed in range(200):
        state = make_state(rows)
        before = identity_matrix(state)
        move_obstacles(state, Action.ACTUATE, rng=rnd.default_rng(seed))
        after = identity_matrix(state)
        for y, x in starts:
            (destination,) = [
                (yy, xx)
                for yy in range(height)
                for xx in range(width)
                if after[yy][xx] == before[y][x]
            ]
            seen[(y, x)].add(destination)
    for (y, x), destinations in seen.items():
        assert destinations == set(neighbours(y, x, height, width))


# --------------------------------------------------------------------------
# teleport
# --------------------------------------------------------------------------

TELEPOD_LAYOUTS = [
    # no telepods at all
    ['...', '.#.'],
    ['.'],
    # a single telepod (no partner)
    ['r'],
    ['r..', '...'],
    ['..', '..', '.g'],
    # telepods of other colours only
    ['r.g', '.b.', 'n..'],
    # a pair, in the corners of non-square grids
    ['r...r'],
    ['r', '.', '.', 'r'],
    ['r...', '....', '...r'],
    ['...g', '....', 'g...'],
    # three or more of one colour, plus other colours
    ['r.r', '.g.', 'r.g'],
    ['rrr', 'rrr'],
    ['nbn', 'b.b', 'nbn'],
    ['r.R', 'R.r'],
    # colour NONE telepods are a colour like any other
    ['n..n', '.rr.'],
    ['n', 'n', 'n'],
    # with obstacles, walls, exits around
    ['#####', '#r.o#', '#.#.#', '#o.r#', '#####'],
    ['rE', 'or', 'ko'],
]


def run_teleport():
    count = 0
    for rows in TELEPOD_LAYOUTS:
        height, width = len(rows), len(rows[0])
        for ay, ax in itt.product(range(height), range(width)):
            char = rows[ay][ax]
            partners = {
                (y, x)
                for y in range(height)
                for x in range(width)
                if (y, x) != (ay, ax)
                and char in 'rRgbn'
                and rows[y][x].lower() == char.lower()
            }
            landings = set()

            for seed in range(NUM_SEEDS):
                action = list(Action)[seed % len(Action)]
                orientation = list(Orientation)[seed % len(Orientation)]
                holding = Key(Color.BLUE) if seed % 3 == 0 else None

                state = make_state(rows, (ay, ax), orientation, holding)
                ref_state = State(
                    Grid([row[:] for row in state.grid.objects]),
                    Agent(Position(ay, ax), orientation, state.agent.grid_object),
                )
                before_ids = identity_matrix(state)

                rng, ref_rng = rnd.default_rng(seed), rnd.default_rng(seed)
                result = teleport(state, action, rng=rng)
                ref_teleport(ref_state, action, rng=ref_rng)

                assert result is None
                assert agent_signature(state) == agent_signature(ref_state)
                assert rng_signature(rng) == rng_signature(ref_rng)
                # the grid is never touched by teleportation
                assert identity_matrix(state) == before_ids
                assert isinstance(state.agent.position, Position)
                assert state.agent.orientation is orientation

                landing = state.agent.position.yx
                if partners:
                    assert landing in partners
                else:
                    assert landing == (ay, ax)
                landings.add(landing)

                # repeated calls: ping-pong between same-coloured telepods
                for _ in range(3):
                    previous = state.agent.position.yx
                    teleport(state, action, rng=rng)
                    ref_teleport(ref_state, action, rng=ref_rng)
                    assert agent_signature(state) == agent_signature(ref_state)
                    assert rng_signature(rng) == rng_signature(ref_rng)
                    if partners:
                        colour_mates = (partners | {(ay, ax)}) - {previous}
                        assert state.agent.position.yx in colour_mates
                    else:
                        assert state.agent.position.yx == previous
                count += 1

            # each partner is a possible destination
            assert landings == (partners or {(ay, ax)}), (rows, ay, ax)
    return count


def run_teleport_shared_object():
    """the same Telepod instance placed in two cells still forms a pair"""
    shared = Telepod(Color.YELLOW)
    for seed in range(10):
        grid = Grid(
            [[shared, Floor(), Floor()], [Floor(), Floor(), shared]]
        )
        state = State(grid, Agent(Position(1, 2), Orientation.R))
        ref_state = State(
            Grid([row[:] for row in grid.objects]),
            Agent(Position(1, 2), Orientation.R, state.agent.grid_object),
        )
        rng, ref_rng = rnd.default_rng(seed), rnd.default_rng(seed)
        teleport(state, Action.MOVE_FORWARD, rng=rng)
        ref_teleport(ref_state, Action.MOVE_FORWARD, rng=ref_rng)
        assert state.agent.position == Position(0, 0)
        assert agent_signature(state) == agent_signature(ref_state)
        assert rng_signature(rng) == rng_signature(ref_rng)


# --------------------------------------------------------------------------
# library-level generator, chaining, factory, copies
# --------------------------------------------------------------------------


def run_global_rng_and_chain():
    rows = ['#######', '#r.o.g#', '#.o.o.#', '#g.o.r#', '#######']

    for seed in range(15):
        # rng=None uses the library generator; re-seeding reproduces results
        outcomes = []
        for _ in range(2):
            gv_rng.reset_gv_rng(seed)
            state = make_state(rows, (1, 1), Orientation.B)
            for action in Action:
                move_obstacles(state, action)
                teleport(state, action)
            outcomes.append((type_matrix(state), state.agent.position))
        assert outcomes[0] == outcomes[1]

        # ... and matches the reference driven by an explicit generator
        ref_state = make_state(rows, (1, 1), Orientation.B)
        ref_rng = rnd.default_rng(seed)
        for action in Action:
            ref_move_obstacles(ref_state, action, rng=ref_rng)
            ref_teleport(ref_state, action, rng=ref_rng)
        assert outcomes[0] == (type_matrix(ref_state), ref_state.agent.position)
        # the library generator advanced exactly as much as the reference one
        gv_rng.reset_gv_rng(seed)
        state = make_state(rows, (1, 1), Orientation.B)
        for action in Action:
            move_obstacles(state, action)
            teleport(state, action)
        assert rng_signature(gv_rng.get_gv_rng()) == rng_signature(ref_rng)

        # two independent "environments" in one process do not interfere
        rng_a, rng_b = rnd.default_rng(seed), rnd.default_rng(seed + 1000)
        state_a = make_state(rows, (3, 1), Orientation.L)
        state_b = make_state(rows, (3, 1), Orientation.L)
        solo_b = make_state(rows, (3, 1), Orientation.L)
        solo_rng_b = rnd.default_rng(seed + 1000)
        for action in Action:
            move_obstacles(state_a, action, rng=rng_a)
            move_obstacles(state_b, action, rng=rng_b)
            teleport(state_a, action, rng=rng_a)
            teleport(state_b, action, rng=rng_b)
            move_obstacles(solo_b, action, rng=solo_rng_b)
            teleport(solo_b, action, rng=solo_rng_b)
        assert type_matrix(state_b) == type_matrix(solo_b)
        assert state_b.agent.position == solo_b.agent.position

        # through the factory / chain / transition_with_copy entry points
        chained = factory(
            'chain',
            transition_functions=[
                factory('move_obstacles'),
                factory('teleport'),
            ],
        )
        state = make_state(rows, (1, 5), Orientation.R)
        ref_state = make_state(rows, (1, 5), Orientation.R)
        untouched = copy.deepcopy(state)
        rng, ref_rng = rnd.default_rng(seed), rnd.default_rng(seed)
        next_state = transition_with_copy(
            chained, state, Action.TURN_LEFT, rng=rng
        )
        ref_move_obstacles(ref_state, Action.TURN_LEFT, rng=ref_rng)
        ref_teleport(ref_state, Action.TURN_LEFT, rng=ref_rng)
        assert type_matrix(next_state) == type_matrix(ref_state)
        assert next_state.agent.position == ref_state.agent.position
        assert rng_signature(rng) == rng_signature(ref_rng)
        assert state == untouched
        chain(
            state,
            Action.TURN_LEFT,
            transition_functions=[move_obstacles, teleport],
            rng=rnd.default_rng(seed),
        )
        assert state == next_state


def run_hardcoded():
    """a few outcomes pinned to literal expectations"""
    # forced moves need no randomness: any generator gives the same answer
    for seed in range(5):
        state = make_state(['#o.#'])
        move_obstacles(state, Action.PICK_N_DROP, rng=rnd.default_rng(seed))
        assert [type(o) for o in state.grid.objects[0]] == [
            Wall,
            Floor,
            MovingObstacle,
            Wall,
        ]
        # the upper obstacle has its turn first, while still boxed in: it
        # stays, even though the lower one then moves away
        state = make_state(['#o#', '#o#', '#.#'])
        move_obstacles(state, Action.MOVE_LEFT, rng=rnd.default_rng(seed))
        assert [type(row[1]) for row in state.grid.objects] == [
            MovingObstacle,
            Floor,
            MovingObstacle,
        ]
        # upper obstacle (first in turn order) moves up, the lower one follows
        state = make_state(['#.#', '#o#', '#o#'])
        move_obstacles(state, Action.MOVE_LEFT, rng=rnd.default_rng(seed))
        assert [type(row[1]) for row in state.grid.objects] == [
            MovingObstacle,
            MovingObstacle,
            Floor,
        ]
        # one partner only: forced teleport
        state = make_state(['g..', '..r', 'r.g'], (2, 0), Orientation.L)
        teleport(state, Action.MOVE_BACKWARD, rng=rnd.default_rng(seed))
        assert state.agent.position == Position(1, 2)
        teleport(state, Action.MOVE_BACKWARD, rng=rnd.default_rng(seed))
        assert state.agent.position == Position(2, 0)
        # other colours only / not on a telepod: stays
        state = make_state(['g..', '..r', 'b.n'], (2, 2), Orientation.L)
        teleport(state, Action.MOVE_BACKWARD, rng=rnd.default_rng(seed))
        assert state.agent.position == Position(2, 2)
        state = make_state(['g..', '..g', 'b.n'], (0, 1), Orientation.L)
        teleport(state, Action.MOVE_BACKWARD, rng=rnd.default_rng(seed))
        assert state.agent.position == Position(0, 1)


def main():
    n_obstacles = run_obstacles()
    run_obstacles_single_free_neighbour_exhaustive()
    n_teleport = run_teleport()
    run_teleport_shared_object()
    run_global_rng_and_chain()
    run_hardcoded()
    print(
        f'OK: {n_obstacles} obstacle scenarios, {n_teleport} teleport scenarios'
    )


if __name__ == '__main__':
    main()
