"""Demo for change A (`Space.tile` used by the grid representations).

Checks C15 -- "numeric representations always lie inside their declared
spaces" -- and the exact equality of the declared spaces and of the converted
arrays with a reference implementation embedded below.  Runs (and exits 0)
both on the pristine tree and with the change applied.

Run from the worktree root:  /venv/bin/python _seed/A/demo.py
"""
import glob
import itertools as itt
import os
import random
import re
import sys
import warnings

warnings.filterwarnings('ignore')
sys.path.insert(0, os.getcwd())

import numpy as np  # noqa: E402

from gym_gridverse.agent import Agent  # noqa: E402
from gym_gridverse.envs.yaml.factory import factory_env_from_data  # noqa: E402
from gym_gridverse.geometry import Orientation, Position, Shape  # noqa: E402
from gym_gridverse.grid import Grid  # noqa: E402
from gym_gridverse.grid_object import (  # noqa: E402
    Beacon,
    Box,
    Color,
    Door,
    Exit,
    Floor,
    Hidden,
    Key,
    MovingObstacle,
    NoneGridObject,
    Telepod,
    Wall,
    grid_object_registry,
)
from gym_gridverse.observation import Observation  # noqa: E402
from gym_gridverse.outer_env import OuterEnv  # noqa: E402
from gym_gridverse.representations.observation_representations import (  # noqa: E402
    make_observation_representation,
)
from gym_gridverse.representations.spaces import Space, SpaceType  # noqa: E402
from gym_gridverse.representations.state_representations import (  # noqa: E402
    make_state_representation,
)
from gym_gridverse.spaces import ObservationSpace, StateSpace  # noqa: E402
from gym_gridverse.state import State  # noqa: E402

NAMES = ['default', 'no-overlap', 'compact']
INT = np.dtype(int)
FLOAT = np.dtype(float)

n_checks = 0


def check(condition, *message):
    global n_checks
    n_checks += 1
    if not condition:
        print('FAILED:', *message)
        sys.exit(1)


# ---------------------------------------------------------------------------
# reference implementation (independent of gym_gridverse.representations)
# ---------------------------------------------------------------------------


def ref_object_space(name, types, colors):
    """upper bounds of the 3 channels (lower bounds are zeros)"""
    types = sorted(set(types), key=lambda t: t.type_index())
    colors = sorted(set(colors) | {Color.NONE}, key=lambda c: c.value)
    max_type = max(t.type_index() for t in types)
    max_state = max(t.num_states() for t in types)  # sic: num, not num - 1
    max_color = max(c.value for c in colors)

    if name == 'default':
        return [max_type, max_state, max_color]
    if name == 'no-overlap':
        return [
            max_type,
            max_type + max_state + 1,
            max_type + max_state + max_color + 2,
        ]
    if name == 'compact':
        n_types = len(types)
        n_states = sum(t.num_states() for t in types)
        n_colors = len(colors)
        return [
            n_types - 1,
            n_types + n_states - 1,
            n_types + n_states + n_colors - 1,
        ]
    raise AssertionError(name)


def ref_object_convert(name, types, colors, obj):
    types = sorted(set(types), key=lambda t: t.type_index())
    colors = sorted(set(colors) | {Color.NONE}, key=lambda c: c.value)
    max_type = max(t.type_index() for t in types)
    max_state = max(t.num_states() for t in types)

    i, j, k = obj.type_index(), obj.state_index, obj.color.value
    if name == 'default':
        return [i, j, k]
    if name == 'no-overlap':
        return [i, max_type + j + 1, max_type + max_state + k + 2]
    if name == 'compact':
        type_rank = [t.type_index() for t in types].index(i)
        state_rank = sum(t.num_states() for t in types[:type_rank]) + j
        color_rank = [c.value for c in colors].index(k)
        n_types = len(types)
        n_states = sum(t.num_states() for t in types)
        return [
            type_rank,
            n_types + state_rank,
            n_types + n_states + color_rank,
        ]
    raise AssertionError(name)


def ref_tile(bound, height, width):
    """(height, width, channels) array, every cell equal to `bound`"""
    out = np.empty((height, width, len(bound)), dtype=np.asarray(bound).dtype)
    for y in range(height):
        for x in range(width):
            out[y, x, :] = bound
    return out


def ref_space(name, kind, shape, types, colors):
    """{key: (space_type, lower, upper)}"""
    extra = {NoneGridObject} if kind == 'state' else {NoneGridObject, Hidden}
    upper = np.array(ref_object_space(name, set(types) | extra, colors))
    lower = np.zeros(3, dtype=int)
    h, w = shape.height, shape.width
    out = {
        'grid': (
            SpaceType.CATEGORICAL,
            ref_tile(lower, h, w),
            ref_tile(upper, h, w),
        ),
        'agent_id_grid': (
            SpaceType.DISCRETE,
            np.zeros((h, w), dtype=int),
            np.ones((h, w), dtype=int),
        ),
        'item': (SpaceType.CATEGORICAL, lower, upper),
    }
    if kind == 'state':
        out['agent'] = (
            SpaceType.CONTINUOUS,
            np.array([-1.0, -1.0, 0.0, 0.0, 0.0, 0.0]),
            np.array([1.0, 1.0, 1.0, 1.0, 1.0, 1.0]),
        )
        out['item'] = out.pop('item')  # key order: ..., agent, item
    return out


def ref_convert(name, kind, types, colors, thing):
    extra = {NoneGridObject} if kind == 'state' else {NoneGridObject, Hidden}
    types = set(types) | extra
    h, w = thing.grid.shape.height, thing.grid.shape.width
    grid = np.zeros((h, w, 3), dtype=int)
    for y in range(h):
        for x in range(w):
            grid[y, x] = ref_object_convert(
                name, types, colors, thing.grid[y, x]
            )
    agent_id_grid = np.zeros((h, w), dtype=int)
    agent_id_grid[thing.agent.position.y, thing.agent.position.x] = 1
    out = {
        'grid': grid,
        'agent_id_grid': agent_id_grid,
        'item': np.array(
            ref_object_convert(name, types, colors, thing.agent.grid_object)
        ),
    }
    if kind == 'state':
        agent = np.zeros(6)
        agent[0] = (2 * thing.agent.position.y - h + 1) / (h - 1)
        agent[1] = (2 * thing.agent.position.x - w + 1) / (w - 1)
        agent[2 + thing.agent.orientation.value] = 1
        out['agent'] = agent
        out['item'] = out.pop('item')  # key order: ..., agent, item
    return out


# ---------------------------------------------------------------------------
# checks
# ---------------------------------------------------------------------------


def check_space_equals_reference(space, reference, where):
    check(list(space.keys()) == list(reference.keys()), where, 'keys')
    for key, (space_type, lower, upper) in reference.items():
        s = space[key]
        check(isinstance(s, Space), where, key, 'not a Space')
        check(s.space_type is space_type, where, key, 'space type')
        dtype = FLOAT if space_type is SpaceType.CONTINUOUS else INT
        for bound, ref_bound, bname in [
            (s.lower_bound, lower, 'lower'),
            (s.upper_bound, upper, 'upper'),
        ]:
            check(isinstance(bound, np.ndarray), where, key, bname, 'type')
            check(bound.dtype == dtype, where, key, bname, bound.dtype)
            check(bound.shape == ref_bound.shape, where, key, bname, 'shape')
            check(np.array_equal(bound, ref_bound), where, key, bname, 'value')
        check(s.shape == lower.shape, where, key, 'Space.shape')
        # the two bounds must not be the same buffer (nor views of the
        # per-object bounds): writing into one must not move the other
        check(
            not np.shares_memory(s.lower_bound, s.upper_bound),
            where,
            key,
            'bounds share memory',
        )


def check_member(space, arrays, where):
    """own membership test + the library's"""
    check(list(arrays.keys()) == list(space.keys()), where, 'keys')
    for key, x in arrays.items():
        s = space[key]
        check(isinstance(x, np.ndarray), where, key, 'not an array')
        check(x.shape == s.lower_bound.shape, where, key, 'shape', x.shape)
        if s.space_type is SpaceType.CONTINUOUS:
            check(x.dtype == FLOAT, where, key, 'dtype', x.dtype)
        else:
            check(x.dtype == INT, where, key, 'dtype', x.dtype)
        check(np.all(s.lower_bound <= x), where, key, 'below lower bound', x)
        check(np.all(x <= s.upper_bound), where, key, 'above upper bound', x)
        check(s.contains(x), where, key, 'Space.contains')


def check_equal_arrays(arrays, reference, where):
    check(list(arrays.keys()) == list(reference.keys()), where, 'keys')
    for key, x in arrays.items():
        check(x.dtype == reference[key].dtype, where, key, 'ref dtype')
        check(np.array_equal(x, reference[key]), where, key, 'ref value', x)


def instances(object_type, colors):
    """every instance (status x colour) of an object type"""
    colors = sorted(set(colors) | {Color.NONE}, key=lambda c: c.value)
    if object_type in (NoneGridObject, Hidden, Floor, Wall, MovingObstacle):
        return [object_type()]
    if object_type in (Exit, Key, Telepod, Beacon):
        return [object_type(color) for color in colors]
    if object_type is Door:
        return [
            Door(status, color) for status in Door.Status for color in colors
        ]
    if object_type is Box:
        return [Box(Floor()), Box(Key(colors[-1]))]
    raise AssertionError(object_type)


def grids(shape, objects, n):
    """`n` grids of the shape in which the objects cycle through the cells"""
    h, w = shape.height, shape.width
    out = []
    for shift in range(n):
        cells = [
            objects[(shift * 7 + y * w + x) % len(objects)]
            for y in range(h)
            for x in range(w)
        ]
        out.append(Grid([cells[y * w : (y + 1) * w] for y in range(h)]))
    return out


def poses(shape, full):
    h, w = shape.height, shape.width
    positions = [Position(y, x) for y in range(h) for x in range(w)]
    if not full:
        corners = {(0, 0), (0, w - 1), (h - 1, 0), (h - 1, w - 1)}
        positions = [
            p
            for p in positions
            if (p.y, p.x) in corners or (p.y, p.x) == (h // 2, w // 2)
        ]
    return [(p, o) for p in positions for o in Orientation]


ALL_TYPES = [
    NoneGridObject,
    Hidden,
    Floor,
    Wall,
    Exit,
    Door,
    Key,
    MovingObstacle,
    Box,
    Telepod,
    Beacon,
]
STATE_TYPES = [t for t in ALL_TYPES if t.can_be_represented_in_state()]

COLOR_SUBSETS = [
    [],
    [Color.NONE],
    [Color.YELLOW],
    [Color.RED, Color.BLUE],
    [Color.NONE, Color.GREEN],
    list(Color),
]


def type_subsets(pool, rng):
    subsets = [[t] for t in pool]
    subsets += [list(c) for c in itt.combinations(pool, 2)][::3]
    for size in (3, 4, 5, 6):
        subsets += [rng.sample(pool, min(size, len(pool))) for _ in range(3)]
    subsets.append(list(pool))
    subsets.append(list(reversed(pool)))  # order of the list is irrelevant
    subsets.append([pool[0], pool[0], pool[-1]])  # repeated entries
    return subsets


def check_state_spaces(rng):
    shapes = [Shape(2, 2), Shape(2, 5), Shape(5, 2), Shape(3, 4), Shape(6, 3)]
    for n, types in enumerate(type_subsets(STATE_TYPES, rng)):
        for m, colors in enumerate(COLOR_SUBSETS):
            if (n + m) % 2 and 3 < n < 40:
                continue  # (keeps the run time reasonable)
            shape = shapes[(n + m) % len(shapes)]
            space = StateSpace(shape, types, colors)
            objects = [o for t in set(types) for o in instances(t, colors)]
            items = objects + [NoneGridObject()]
            full = (n + m) % 11 == 0
            members = []
            for g, grid in enumerate(grids(shape, objects, 2 if full else 1)):
                for p, (position, orientation) in enumerate(poses(shape, full)):
                    item = items[(g + p) % len(items)]
                    members.append(
                        State(grid, Agent(position, orientation, item))
                    )
            # every held item at least once
            for i, item in enumerate(items):
                position, orientation = poses(shape, True)[
                    i % (4 * shape.height * shape.width)
                ]
                members.append(
                    State(
                        grids(shape, objects, 1)[0],
                        Agent(position, orientation, item),
                    )
                )

            for name in NAMES:
                where = ('state', name, [t.__name__ for t in types], colors)
                representation = make_state_representation(name, space)
                reference = ref_space(name, 'state', shape, types, colors)
                check_space_equals_reference(
                    representation.space, reference, where
                )
                # repeated calls give equal, independent spaces
                again = representation.space
                check(
                    all(again[k] == representation.space[k] for k in again),
                    where,
                    'space not stable',
                )
                again['grid'].upper_bound[...] = -7
                check_space_equals_reference(
                    representation.space, reference, where
                )

                declared = representation.space
                for state in members:
                    check(space.contains(state), where, 'not a member', state)
                    arrays = representation.convert(state)
                    check_member(declared, arrays, where)
                    check_equal_arrays(
                        arrays,
                        ref_convert(name, 'state', types, colors, state),
                        where,
                    )


def check_observation_spaces(rng):
    shapes = [Shape(2, 3), Shape(2, 1), Shape(5, 3), Shape(3, 5), Shape(4, 7)]
    for n, types in enumerate(type_subsets(ALL_TYPES, rng)):
        for m, colors in enumerate(COLOR_SUBSETS):
            if (n + m) % 2 and 3 < n < 40:
                continue  # (keeps the run time reasonable)
            shape = shapes[(n + m) % len(shapes)]
            space = ObservationSpace(shape, types, colors)
            objects = [
                o for t in set(types) | {Hidden} for o in instances(t, colors)
            ]
            items = [o for t in set(types) for o in instances(t, colors)] + [
                NoneGridObject()
            ]
            full = (n + m) % 11 == 0
            members = []
            for g, grid in enumerate(grids(shape, objects, 2 if full else 1)):
                for p, (position, orientation) in enumerate(poses(shape, full)):
                    item = items[(g + p) % len(items)]
                    members.append(
                        Observation(grid, Agent(position, orientation, item))
                    )
            for i, item in enumerate(items):
                members.append(
                    Observation(
                        grids(shape, objects, 1)[0],
                        Agent(space.agent_position, Orientation.F, item),
                    )
                )

            for name in NAMES:
                where = ('obs', name, [t.__name__ for t in types], colors)
                representation = make_observation_representation(name, space)
                reference = ref_space(name, 'observation', shape, types, colors)
                check_space_equals_reference(
                    representation.space, reference, where
                )
                again = representation.space
                again['grid'].lower_bound[...] = 99
                check_space_equals_reference(
                    representation.space, reference, where
                )

                declared = representation.space
                for observation in members:
                    check(space.contains(observation), where, 'not a member')
                    arrays = representation.convert(observation)
                    check_member(declared, arrays, where)
                    check_equal_arrays(
                        arrays,
                        ref_convert(
                            name, 'observation', types, colors, observation
                        ),
                        where,
                    )


def check_empty_type_lists():
    """no object types at all:  default / no-overlap spaces exist, compact raises"""
    shape = Shape(3, 3)
    for colors in ([], [Color.BLUE]):
        state_space = StateSpace(shape, [], colors)
        observation_space = ObservationSpace(shape, [], colors)
        for name in ('default', 'no-overlap'):
            check_space_equals_reference(
                make_state_representation(name, state_space).space,
                ref_space(name, 'state', shape, [], colors),
                ('empty types', 'state', name),
            )
        for name in NAMES:
            check_space_equals_reference(
                make_observation_representation(name, observation_space).space,
                ref_space(name, 'observation', shape, [], colors),
                ('empty types', 'observation', name),
            )
        try:
            make_state_representation('compact', state_space)
        except ValueError:
            check(True)
        else:
            check(False, 'compact state representation of no types')


def check_hard_coded():
    """a handful of literal expectations"""
    types = [Wall, Floor, Exit, Door, Key]
    colors = [Color.NONE, Color.YELLOW]
    grid = Grid(
        [
            [Wall(), Door(Door.Status.LOCKED, Color.YELLOW), Wall()],
            [Floor(), Key(Color.YELLOW), Exit()],
        ]
    )
    state = State(
        grid, Agent(Position(1, 0), Orientation.R, Key(Color.YELLOW))
    )
    space = StateSpace(Shape(2, 3), types, colors)

    expected_upper = {
        'default': [6, 3, 4],
        'no-overlap': [6, 10, 15],
        'compact': [5, 13, 15],
    }
    expected_grid = {
        'default': [
            [[3, 0, 0], [5, 2, 4], [3, 0, 0]],
            [[2, 0, 0], [6, 0, 4], [4, 0, 0]],
        ],
        'no-overlap': [
            [[3, 7, 11], [5, 9, 15], [3, 7, 11]],
            [[2, 7, 11], [6, 7, 15], [4, 7, 11]],
        ],
        'compact': [
            [[2, 8, 14], [4, 12, 15], [2, 8, 14]],
            [[1, 7, 14], [5, 13, 15], [3, 9, 14]],
        ],
    }
    expected_item = {
        'default': [6, 0, 4],
        'no-overlap': [6, 7, 15],
        'compact': [5, 13, 15],
    }
    for name in NAMES:
        representation = make_state_representation(name, space)
        declared = representation.space
        check(
            declared['grid'].upper_bound.tolist()
            == [[expected_upper[name]] * 3] * 2,
            'literal',
            name,
            declared['grid'].upper_bound.tolist(),
        )
        check(declared['grid'].lower_bound.tolist() == [[[0, 0, 0]] * 3] * 2)
        check(declared['item'].upper_bound.tolist() == expected_upper[name])
        arrays = representation.convert(state)
        check(
            arrays['grid'].tolist() == expected_grid[name],
            'literal',
            name,
            arrays['grid'].tolist(),
        )
        check(
            arrays['item'].tolist() == expected_item[name],
            'literal',
            name,
            arrays['item'].tolist(),
        )
        check(arrays['agent_id_grid'].tolist() == [[0, 0, 0], [1, 0, 0]])
        check(arrays['agent'].tolist() == [1.0, -1.0, 0.0, 0.0, 0.0, 1.0])
        check_member(declared, arrays, ('literal', name))


# ---------------------------------------------------------------------------
# shipped configurations (YAML read by a tiny embedded parser)
# ---------------------------------------------------------------------------


def _flow(text):
    tokens = re.findall(r'\[|\]|,|[^\[\],\s][^\[\],]*', text)
    position = 0

    def parse():
        nonlocal position
        token = tokens[position]
        position += 1
        if token != '[':
            return _scalar(token)
        out = []
        while tokens[position] != ']':
            if tokens[position] == ',':
                position += 1
                continue
            out.append(parse())
        position += 1
        return out

    value = parse()
    assert position == len(tokens), text
    return value


def _scalar(text):
    text = text.strip()
    if text.startswith('['):
        return _flow(text)
    if text in ('True', 'true'):
        return True
    if text in ('False', 'false'):
        return False
    for cast in (int, float):
        try:
            return cast(text)
        except ValueError:
            pass
    return text.strip('\'"')


_ENTRY = re.compile(r'^[A-Za-z_]\w*\s*:(\s|$)')


def _block(lines, i, indent):
    if lines[i][1].startswith('- '):
        out = []
        while (
            i < len(lines)
            and lines[i][0] == indent
            and lines[i][1].startswith('- ')
        ):
            rest = lines[i][1][2:]
            inner = indent + 2 + len(rest) - len(rest.lstrip())
            rest = rest.lstrip()
            if _ENTRY.match(rest):
                lines[i] = (inner, rest)
                value, i = _block(lines, i, inner)
            else:
                value, i = _scalar(rest), i + 1
            out.append(value)
        return out, i

    out = {}
    while (
        i < len(lines)
        and lines[i][0] == indent
        and not lines[i][1].startswith('- ')
    ):
        key, _, rest = lines[i][1].partition(':')
        i += 1
        if rest.strip():
            out[key.strip()] = _scalar(rest)
        else:
            assert lines[i][0] > indent
            out[key.strip()], i = _block(lines, i, lines[i][0])
    return out, i


def load_yaml(path):
    lines = []
    with open(path) as f:
        for line in f:
            line = line.split('#')[0].rstrip()
            if line.strip():
                lines.append((len(line) - len(line.lstrip()), line.strip()))
    data, i = _block(lines, 0, 0)
    assert i == len(lines), path
    return data


def check_parser():
    data = load_yaml('gym_gridverse/registered_envs/gv_keydoor.5x5.yaml')
    check(
        data['state_space']
        == {
            'objects': ['Wall', 'Floor', 'Exit', 'Door', 'Key'],
            'colors': ['NONE', 'YELLOW'],
        },
        data,
    )
    check(data['reset_function'] == {'name': 'keydoor', 'shape': [5, 5]})
    check(
        data['observation_function']
        == {'name': 'partially_occluded', 'area': [[-6, 0], [-3, 3]]},
        data,
    )
    check(data['reward_functions'][1]['reward_drop'] == -1.0)
    check(
        data['transition_functions']
        == [
            {'name': 'move_agent'},
            {'name': 'turn_agent'},
            {'name': 'actuate_door'},
            {'name': 'pickndrop'},
        ]
    )
    data = load_yaml('gym_gridverse/registered_envs/gv_dynamic_obstacles.7x7.yaml')
    check(data['reset_function']['random_agent'] is False)
    check(len(data['action_space']) == 6)
    check(
        data['terminating_function']['terminating_functions'][2]
        == {'name': 'bump_into_wall'}
    )


def variants(path, data):
    """the shipped configuration, plus awkward variations of some of them"""
    yield path, data
    name = os.path.basename(path)
    if name in ('gv_empty.4x4.yaml', 'gv_keydoor.7x7.yaml'):
        # asymmetric (tall, narrow, looking-behind) view areas
        for function, area in (
            ('partially_occluded', [[-1, 0], [0, 0]]),
            ('partially_occluded', [[-8, 0], [-1, 1]]),
            ('partially_occluded', [[-1, 0], [-4, 4]]),
            ('fully_transparent', [[-2, 1], [-1, 1]]),
            ('raytracing', [[-4, 2], [-3, 3]]),
        ):
            data = load_yaml(path)
            data['observation_function'] = {'name': function, 'area': area}
            yield f'{name} {function} area={area}', data
    if name == 'gv_empty.4x4.yaml':
        # non-square grids
        for shape in ([4, 9], [8, 4]):
            data = load_yaml(path)
            data['reset_function']['shape'] = shape
            yield f'{name} shape={shape}', data


def check_trajectories():
    import gym_gridverse.gym as gv_gym

    paths = sorted(glob.glob('gym_gridverse/registered_envs/*.yaml'))
    check(len(paths) >= 21, paths)

    n_envs = 0
    for path in paths:
        for label, data in variants(path, load_yaml(path)):
            n_envs += 1
            state_types = [
                grid_object_registry.from_name(n)
                for n in data['state_space']['objects']
            ]
            state_colors = [Color[n] for n in data['state_space']['colors']]
            obs_types = [
                grid_object_registry.from_name(n)
                for n in data['observation_space']['objects']
            ]
            obs_colors = [Color[n] for n in data['observation_space']['colors']]

            inner = factory_env_from_data(data)
            action_rng = random.Random(n_envs)

            state_reps = {
                name: make_state_representation(name, inner.state_space)
                for name in NAMES
            }
            obs_reps = {
                name: make_observation_representation(
                    name, inner.observation_space
                )
                for name in NAMES
            }
            state_spaces = {name: r.space for name, r in state_reps.items()}
            obs_spaces = {name: r.space for name, r in obs_reps.items()}
            for name in NAMES:
                check_space_equals_reference(
                    state_spaces[name],
                    ref_space(
                        name,
                        'state',
                        inner.state_space.grid_shape,
                        state_types,
                        state_colors,
                    ),
                    (label, 'state', name),
                )
                check_space_equals_reference(
                    obs_spaces[name],
                    ref_space(
                        name,
                        'observation',
                        inner.observation_space.grid_shape,
                        obs_types,
                        obs_colors,
                    ),
                    (label, 'observation', name),
                )

            gym_env = gv_gym.GymEnvironment(
                OuterEnv(
                    inner,
                    state_representation=state_reps['default'],
                    observation_representation=obs_reps['default'],
                )
            )

            def check_now(name, observation_arrays):
                where = (label, name)
                # gym layer
                check_gym(gym_env.state_space, state_spaces[name], where)
                check_gym(gym_env.observation_space, obs_spaces[name], where)
                gym_state = gym_env.state
                check(gym_env.state_space.contains(gym_state), where, 'gym s')
                check(
                    gym_env.observation_space.contains(observation_arrays),
                    where,
                    'gym o',
                )
                check_member(state_spaces[name], gym_state, where)
                check_member(obs_spaces[name], observation_arrays, where)
                # all three representations of the same state / observation
                for other in NAMES:
                    arrays = state_reps[other].convert(inner.state)
                    check_member(state_spaces[other], arrays, (label, other))
                    check_equal_arrays(
                        arrays,
                        ref_convert(
                            other,
                            'state',
                            state_types,
                            state_colors,
                            inner.state,
                        ),
                        (label, other, 'state'),
                    )
                    arrays = obs_reps[other].convert(inner.observation)
                    check_member(obs_spaces[other], arrays, (label, other))
                    check_equal_arrays(
                        arrays,
                        ref_convert(
                            other,
                            'observation',
                            obs_types,
                            obs_colors,
                            inner.observation,
                        ),
                        (label, other, 'observation'),
                    )

            for episode, seed in enumerate([0, 1, 1, 12345]):  # re-seeding
                name = NAMES[episode % 3]
                gym_env.set_state_representation(name)
                gym_env.set_observation_representation(name)
                inner.set_seed(seed)  # (gym_env.seed needs an older gym)
                observation_arrays = gym_env.reset()
                check_now(name, observation_arrays)
                for _ in range(12):
                    action = action_rng.randrange(gym_env.action_space.n)
                    observation_arrays, _, done, _ = gym_env.step(action)
                    check_now(name, observation_arrays)
                    if done:
                        observation_arrays = gym_env.reset()
                        check_now(name, observation_arrays)
    check(n_envs >= 26, n_envs)


def check_gym(gym_space, space, where):
    check(sorted(gym_space.spaces.keys()) == sorted(space.keys()), where, 'keys')
    for key, box in gym_space.spaces.items():
        s = space[key]
        dtype = FLOAT if s.space_type is SpaceType.CONTINUOUS else INT
        check(box.dtype == dtype, where, key, 'gym dtype', box.dtype)
        check(box.shape == s.lower_bound.shape, where, key, 'gym shape')
        check(np.array_equal(box.low, s.lower_bound), where, key, 'gym low')
        check(np.array_equal(box.high, s.upper_bound), where, key, 'gym high')


# ---------------------------------------------------------------------------
# the helper introduced by the change (only when present)
# ---------------------------------------------------------------------------


def check_space_tile():
    if not hasattr(Space, 'tile'):
        print('Space.tile not present (pristine tree): skipped')
        return

    spaces = [
        Space.make_categorical_space(np.array([6, 3, 4])),
        Space.make_categorical_space(np.array([0, 0, 0])),
        Space.make_discrete_space(np.array([-3, 2]), np.array([5, 2])),
        Space.make_continuous_space(
            np.array([[-1.0, 0.5], [0.0, 0.0]]), np.array([[1.0, 0.5], [2.0, 0.0]])
        ),
        Space.make_discrete_space(np.array(4), np.array(4)),  # 0-dim
    ]
    repetitions = [
        (2, 2, 1),
        (2, 5, 1),
        (7, 1, 1),
        (1, 1, 1),
        (3,),
        (2, 3),
        (0, 4, 1),
        (),
    ]
    for space in spaces:
        lower = space.lower_bound.copy()
        upper = space.upper_bound.copy()
        for reps in repetitions:
            tiled = space.tile(*reps)
            check(isinstance(tiled, Space))
            check(tiled.space_type is space.space_type)
            for bound, original in (
                (tiled.lower_bound, lower),
                (tiled.upper_bound, upper),
            ):
                expected = np.tile(original, reps)
                check(bound.dtype == original.dtype, reps, bound.dtype)
                check(bound.shape == expected.shape, reps, bound.shape)
                check(np.array_equal(bound, expected), reps)
                check(not np.shares_memory(bound, space.lower_bound))
                check(not np.shares_memory(bound, space.upper_bound))
            # the tiled space is independent of the original one
            if tiled.lower_bound.size:
                tiled.lower_bound[...] = -100
                tiled.upper_bound[...] = -100
            check(np.array_equal(space.lower_bound, lower), 'mutated')
            check(np.array_equal(space.upper_bound, upper), 'mutated')

    # (height, width, 1) puts one copy of the space in every cell
    space = spaces[0]
    tiled = space.tile(4, 7, 1)
    check(tiled.shape == (4, 7, 3))
    for y in range(4):
        for x in range(7):
            check(tiled.upper_bound[y, x].tolist() == [6, 3, 4])
            check(tiled.lower_bound[y, x].tolist() == [0, 0, 0])
            check(space.contains(tiled.upper_bound[y, x]))
    check(tiled == Space.make_categorical_space(ref_tile([6, 3, 4], 4, 7)))


def main():
    rng = random.Random(15)
    check_hard_coded()
    check_empty_type_lists()
    check_space_tile()
    check_state_spaces(rng)
    check_observation_spaces(rng)
    check_parser()
    check_trajectories()
    print(f'OK ({n_checks} checks)')


if __name__ == '__main__':
    main()
