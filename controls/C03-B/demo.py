"""Demo / check program for refactoring B (gym_gridverse/grid.py).

Run as:  cd /tmp/wt3-C03 && /venv/bin/python -W ignore _seed/B/demo.py

Grid is the mutable container behind every state and observation;  its
indexing, slicing (`subgrid`), rotation (`*`), equality and hashing are what
the functional step / observation computations are built upon.  This program

1. exercises the Grid API directly against an independent re-implementation
   working on plain nested lists (values *and* object identities);
2. exercises `GridWorld.functional_observation` for all the built-in
   observation functions, many grids / poses / areas / seeds, against an
   independent model of the agent-centric view (and of the `partially_occluded`
   visibility), asserting that the state is never modified, that answers are
   repeatable (also across cache histories), and recording the identity
   pattern of the returned observation;
3. exercises `GridWorld.functional_step` for purity / absence of aliasing /
   equality and hashing of copies.
"""
import os
import sys

sys.path.insert(0, os.getcwd())

import copy
import itertools as itt
import random

from gym_gridverse.action import Action
from gym_gridverse.agent import Agent
from gym_gridverse.envs import (
    observation_functions,
    reward_functions,
    terminating_functions,
    transition_functions,
)
from gym_gridverse.envs.gridworld import GridWorld
from gym_gridverse.geometry import Area, Orientation, Position, Shape
from gym_gridverse.grid import Grid
from gym_gridverse.grid_object import (
    Beacon,
    Box,
    Color,
    Door,
    Exit,
    Floor,
    GridObject,
    Hidden,
    Key,
    MovingObstacle,
    NoneGridObject,
    Telepod,
    Wall,
)
from gym_gridverse.spaces import ActionSpace, ObservationSpace, StateSpace
from gym_gridverse.state import State
from gym_gridverse.utils.fast_copy import fast_copy
from gym_gridverse.utils.raytracing import (
    cached_compute_rays,
    cached_compute_rays_fancy,
)

ORIENTATIONS = [Orientation.F, Orientation.R, Orientation.B, Orientation.L]

FACTORIES = [
    Floor,
    Floor,
    Floor,
    Wall,
    Exit,
    MovingObstacle,
    lambda: Door(Door.Status.OPEN, Color.RED),
    lambda: Door(Door.Status.CLOSED, Color.RED),
    lambda: Door(Door.Status.LOCKED, Color.BLUE),
    lambda: Key(Color.RED),
    lambda: Key(Color.BLUE),
    lambda: Telepod(Color.GREEN),
    lambda: Beacon(Color.YELLOW),
    lambda: Box(Floor()),
    lambda: Box(Key(Color.RED)),
    lambda: Box(Box(Door(Door.Status.LOCKED, Color.RED))),
]
OBJECT_TYPES = [
    Floor,
    Wall,
    Exit,
    Door,
    Key,
    MovingObstacle,
    Box,
    Telepod,
    Beacon,
]


def describe(obj):
    """value description of a grid-object, finer than library equality"""
    name = type(obj).__name__
    if isinstance(obj, Box):
        return (name, describe(obj.content))
    if isinstance(obj, Door):
        return (name, obj.state.name, obj.color.name)
    return (name, obj.color.name)


def describe_rows(rows):
    return [[describe(obj) for obj in row] for row in rows]


def ids_rows(rows):
    return [[id(obj) for obj in row] for row in rows]


def random_rows(rnd, height, width):
    return [
        [rnd.choice(FACTORIES)() for _ in range(width)] for _ in range(height)
    ]


# --------------------------------------------------------------------------
# 1. Grid API vs plain lists
# --------------------------------------------------------------------------


def model_rotation(rows, orientation):
    """rotation, index by index (rigid body convention of Grid.__mul__)

    RIGHT * ABC   CFI
            DEF = BEH
            GHI   ADG
    """
    height, width = len(rows), len(rows[0])
    if orientation is Orientation.F:
        return [[rows[i][j] for j in range(width)] for i in range(height)]
    if orientation is Orientation.B:
        return [
            [rows[height - 1 - i][width - 1 - j] for j in range(width)]
            for i in range(height)
        ]
    if orientation is Orientation.R:
        return [
            [rows[j][width - 1 - i] for j in range(height)]
            for i in range(width)
        ]
    if orientation is Orientation.L:
        return [
            [rows[height - 1 - j][i] for j in range(height)]
            for i in range(width)
        ]
    raise AssertionError


def same_rows_by_identity(actual, expected):
    return len(actual) == len(expected) and all(
        len(ra) == len(re) and all(a is e for a, e in zip(ra, re))
        for ra, re in zip(actual, expected)
    )


def check_grid_api(rnd, height, width):
    rows = random_rows(rnd, height, width)
    reference = [list(row) for row in rows]  # same objects, other lists
    grid = Grid(rows)

    # construction
    assert grid.objects is rows
    assert grid.shape == Shape(height, width)
    assert grid.shape.as_tuple == (height, width)
    assert grid.area == Area((0, height - 1), (0, width - 1))

    # indexing:  Position and tuple, negative indices as for lists
    for y, x in itt.product(range(-height, height), range(-width, width)):
        assert grid[y, x] is reference[y][x]
        assert grid[Position(y, x)] is reference[y][x]
        assert grid.get((y, x), factory=Wall) is reference[y][x]
        assert grid.get(Position(y, x), factory=Wall) is reference[y][x]

    for y, x in [
        (height, 0),
        (0, width),
        (-height - 1, 0),
        (0, -width - 1),
        (height + 3, width + 3),
    ]:
        for position in [(y, x), Position(y, x)]:
            try:
                grid[position]
            except IndexError:
                pass
            else:
                raise AssertionError('IndexError expected')

            fallback = grid.get(position, factory=Wall)
            assert type(fallback) is Wall
            assert all(fallback is not obj for row in reference for obj in row)

            try:
                grid[position] = Floor()
            except IndexError:
                pass
            else:
                raise AssertionError('IndexError expected')

    # bad positions / bad objects, and which error comes first
    for bad in [None, 3, (1,), (0, 0, 0), 'abc']:
        for setting in [False, True]:
            try:
                if setting:
                    grid[bad] = 'not an object'
                else:
                    grid[bad]
            except (TypeError, ValueError) as error:
                assert 'grid can only contain' not in str(error), bad
            else:
                raise AssertionError(('error expected', bad))

    for position in [(0, 0), Position(0, 0)]:
        for bad_object in [None, 3, 'floor', Floor]:
            try:
                grid[position] = bad_object
            except TypeError as error:
                assert str(error) == 'grid can only contain grid objects'
            else:
                raise AssertionError('TypeError expected')

    # a bad object is reported before an out-of-range position (but after a
    # malformed position, see above)
    try:
        grid[height, width] = None
    except TypeError as error:
        assert str(error) == 'grid can only contain grid objects'
    else:
        raise AssertionError('TypeError expected')

    assert same_rows_by_identity(grid.objects, reference)

    # object types
    assert grid.object_types() == {
        type(obj) for row in reference for obj in row
    }
    assert type(grid.object_types()) is set

    # rotations
    for orientation in ORIENTATIONS:
        expected = model_rotation(reference, orientation)
        for rotated in (grid * orientation, orientation * grid):
            assert type(rotated) is Grid
            assert same_rows_by_identity(rotated.objects, expected)
            assert rotated.shape == Shape(len(expected), len(expected[0]))
            assert all(type(row) is list for row in rotated.objects)
            if orientation is Orientation.F:
                # recorded behaviour:  no rotation shares the nested lists
                assert rotated.objects is grid.objects
            else:
                assert rotated.objects is not grid.objects
                assert all(
                    row is not other
                    for row in rotated.objects
                    for other in grid.objects
                )
        # the source is untouched
        assert grid.objects is rows
        assert same_rows_by_identity(grid.objects, reference)

    # composition of rotations
    for o1, o2 in itt.product(ORIENTATIONS, ORIENTATIONS):
        assert same_rows_by_identity(
            ((grid * o1) * o2).objects,
            (grid * (o1 * o2)).objects,
        )

    # rotations by something else
    for other in [None, 1, 'R', Position(0, 0), (0, 1)]:
        assert grid.__mul__(other) is NotImplemented
        assert grid.__rmul__(other) is NotImplemented
        try:
            grid * other
        except TypeError:
            pass
        else:
            raise AssertionError('TypeError expected')
    try:
        grid * []  # unhashable
    except TypeError:
        pass
    else:
        raise AssertionError('TypeError expected')

    # subgrids
    areas = [
        Area((y0, y1), (x0, x1))
        for y0, y1 in itt.combinations_with_replacement(
            range(-2, height + 2), 2
        )
        for x0, x1 in itt.combinations_with_replacement(
            range(-2, width + 2), 2
        )
    ]
    if len(areas) > 400:
        areas = rnd.sample(areas, 400)
    areas.append(Area((-7, -5), (-9, -9)))
    areas.append(Area((height + 5, height + 6), (0, width - 1)))
    areas.append(grid.area)

    for area in areas:
        subgrid = grid.subgrid(area)
        assert type(subgrid) is Grid
        assert subgrid.shape == Shape(area.height, area.width)
        assert subgrid.objects is not grid.objects
        hidden_ids = set()
        for i, y in enumerate(range(area.ymin, area.ymax + 1)):
            assert type(subgrid.objects[i]) is list
            assert all(subgrid.objects[i] is not row for row in grid.objects)
            for j, x in enumerate(range(area.xmin, area.xmax + 1)):
                obj = subgrid.objects[i][j]
                if 0 <= y < height and 0 <= x < width:
                    assert obj is reference[y][x]
                else:
                    assert type(obj) is Hidden
                    # every outside cell has its own Hidden
                    assert id(obj) not in hidden_ids
                    hidden_ids.add(id(obj))
        assert same_rows_by_identity(grid.objects, reference)

        # writing into the subgrid does not write into the grid
        subgrid[0, 0] = Wall()
        subgrid.objects[-1].reverse()
        assert same_rows_by_identity(grid.objects, reference)

    # equality and hashing
    descriptions = describe_rows(reference)
    for copied in (fast_copy(grid), copy.deepcopy(grid)):
        assert copied == grid and grid == copied
        assert not (copied != grid)
        assert hash(copied) == hash(grid)
        assert describe_rows(copied.objects) == descriptions
        assert all(
            a is not b
            for ra, rb in zip(copied.objects, grid.objects)
            for a, b in zip(ra, rb)
        )
    assert hash(grid) == hash(tuple(tuple(row) for row in reference))
    assert grid == Grid(reference)
    assert grid == grid

    for other in [None, 3, 'grid', reference, (height, width), Floor()]:
        assert grid.__eq__(other) is NotImplemented
        assert (grid == other) is False
        assert (grid != other) is True

    class Shaped:
        # has a shape, but is not a grid
        shape = Shape(height, width)

    try:
        result = grid == Shaped()
    except TypeError:
        result = 'TypeError'
    assert result == 'TypeError', result

    class ShapedOther:
        shape = Shape(height + 1, width)

    assert (grid == ShapedOther()) is False

    assert grid != Grid.from_shape((height + 1, width))
    assert grid != Grid.from_shape((height, width + 1))
    assert (grid == Grid.from_shape(Shape(width, height))) is (
        height == width and grid == Grid.from_shape((height, width))
    )

    # one-cell differences
    for y, x in itt.product(range(height), range(width)):
        other = fast_copy(grid)
        assert other == grid
        original = other[y, x]
        replacement = (
            Telepod(Color.YELLOW)
            if not isinstance(original, Telepod)
            else Wall()
        )
        other[y, x] = replacement
        assert other != grid and grid != other
        assert other[Position(y, x)] is replacement
        other[Position(y, x)] = original
        assert other == grid
        assert hash(other) == hash(grid)

    # swap
    other = Grid([list(row) for row in reference])
    for _ in range(10):
        p = Position(rnd.randrange(height), rnd.randrange(width))
        q = Position(rnd.randrange(height), rnd.randrange(width))
        before = [list(row) for row in other.objects]
        other.swap(p, q)
        before[p.y][p.x], before[q.y][q.x] = before[q.y][q.x], before[p.y][p.x]
        assert same_rows_by_identity(other.objects, before)
    assert same_rows_by_identity(grid.objects, reference)


# --------------------------------------------------------------------------
# 2. observations
# --------------------------------------------------------------------------


def model_view(rows, position, orientation, area):
    """expected agent-centric view;  None stands for outside cells"""
    height, width = len(rows), len(rows[0])
    view = []
    for ry in range(area.ymin, area.ymax + 1):
        view_row = []
        for rx in range(area.xmin, area.xmax + 1):
            # (ry, rx) is relative to the agent, with -y being `ahead`
            if orientation is Orientation.F:
                dy, dx = ry, rx
            elif orientation is Orientation.R:
                dy, dx = rx, -ry
            elif orientation is Orientation.B:
                dy, dx = -ry, -rx
            else:
                dy, dx = -rx, ry
            y, x = position.y + dy, position.x + dx
            inside = 0 <= y < height and 0 <= x < width
            view_row.append(rows[y][x] if inside else None)
        view.append(view_row)
    return view


def blocks_vision(obj):
    if obj is None:
        return True
    if isinstance(obj, Door):
        return obj.state is not Door.Status.OPEN
    return isinstance(obj, (Wall, Hidden, NoneGridObject))


def model_partially_occluded(view, agent_yx):
    height, width = len(view), len(view[0])
    visible = set()
    for dx in (-1, 1):
        seen = set()
        stack = [agent_yx]
        while stack:
            y, x = stack.pop()
            if not (0 <= y < height and 0 <= x < width) or (y, x) in seen:
                continue
            seen.add((y, x))
            if not blocks_vision(view[y][x]):
                stack.extend([(y - 1, x), (y, x + dx), (y - 1, x + dx)])
        visible |= seen
    return visible


def make_env(shape, observation_name, observation_shape) -> GridWorld:
    shape = Shape(*shape)
    transition_function = transition_functions.factory(
        'chain',
        transition_functions=[
            transition_functions.factory(name)
            for name in [
                'move_agent',
                'turn_agent',
                'actuate_door',
                'actuate_box',
                'pickndrop',
                'move_obstacles',
                'teleport',
            ]
        ],
    )
    reward_function = reward_functions.factory(
        'reduce_sum',
        reward_functions=[
            reward_functions.factory('living_reward', reward=-1.0),
            reward_functions.factory('bump_into_wall', reward=-3.0),
            reward_functions.factory('reach_exit'),
        ],
    )
    termination_function = terminating_functions.factory('reach_exit')
    observation_space = ObservationSpace(
        Shape(*observation_shape), OBJECT_TYPES, list(Color)
    )
    observation_function = observation_functions.factory(
        observation_name, area=observation_space.area
    )

    def reset_function(*, rng=None):
        raise AssertionError('not used')

    return GridWorld(
        StateSpace(shape, OBJECT_TYPES, list(Color)),
        ActionSpace(list(Action)),
        observation_space,
        reset_function,
        transition_function,
        observation_function,
        reward_function,
        termination_function,
    )


ENVS = {}


def get_env(shape, observation_name, observation_shape) -> GridWorld:
    key = (shape, observation_name, observation_shape)
    if key not in ENVS:
        ENVS[key] = make_env(*key)
    return ENVS[key]


HELD_FACTORIES = [
    NoneGridObject,
    lambda: Key(Color.RED),
    lambda: Key(Color.BLUE),
]
OBSERVATION_NAMES = [
    'fully_transparent',
    'partially_occluded',
    'raytracing',
    'stochastic_raytracing',
]
OBSERVATION_SHAPES = [(1, 1), (2, 3), (3, 3), (4, 5), (7, 7), (2, 9)]

counts = {'observations': 0, 'hidden': 0, 'steps': 0}


def snapshot(state):
    return (
        describe_rows(state.grid.objects),
        ids_rows(state.grid.objects),
        id(state.grid),
        id(state.grid.objects),
        [id(row) for row in state.grid.objects],
        id(state.agent),
        id(state.agent.transform),
        state.agent.position,
        state.agent.orientation,
        describe(state.agent.grid_object),
        id(state.agent.grid_object),
    )


def check_observations(rnd, shape, *, every_pose):
    height, width = shape
    rows = random_rows(rnd, height, width)
    poses = list(
        itt.product(range(height), range(width), ORIENTATIONS)
    )
    if not every_pose:
        poses = rnd.sample(poses, min(len(poses), 6))

    for y, x, orientation in poses:
        held = rnd.choice(HELD_FACTORIES)()
        state = State(
            Grid([list(row) for row in rows]),
            Agent(Position(y, x), orientation, held),
        )
        before = snapshot(state)
        state_hash = hash(state)

        for observation_shape in OBSERVATION_SHAPES:
            area = ObservationSpace(
                Shape(*observation_shape), OBJECT_TYPES, list(Color)
            ).area
            view = model_view(rows, Position(y, x), orientation, area)
            agent_yx = (-area.ymin, -area.xmin)
            expected_visible = model_partially_occluded(view, agent_yx)

            for name in OBSERVATION_NAMES:
                context = (shape, (y, x), orientation, observation_shape, name)
                env = get_env(shape, name, observation_shape)
                seed = rnd.randrange(10**6)

                env.set_seed(seed)
                observation = env.functional_observation(state)
                counts['observations'] += 1

                # purity
                assert snapshot(state) == before, context
                assert hash(state) == state_hash, context

                # shape and agent
                assert observation.grid.shape == Shape(*observation_shape)
                assert observation.agent.position == Position(*agent_yx)
                assert observation.agent.orientation is Orientation.F
                assert observation.agent.grid_object is held  # recorded
                assert observation.agent is not state.agent
                assert observation.agent.transform is not state.agent.transform
                assert observation.grid is not state.grid
                assert observation.grid.objects is not state.grid.objects
                assert all(
                    row is not other
                    for row in observation.grid.objects
                    for other in state.grid.objects
                )

                # content:  each cell is the viewed object or Hidden
                hidden_ids = set()
                visible = set()
                for i, j in itt.product(
                    range(area.height), range(area.width)
                ):
                    obj = observation.grid[i, j]
                    if type(obj) is Hidden:
                        assert id(obj) not in hidden_ids, context
                        hidden_ids.add(id(obj))
                        counts['hidden'] += 1
                    else:
                        # recorded behaviour: visible cells are the very
                        # objects of the state
                        assert obj is view[i][j], context
                        visible.add((i, j))

                if name == 'fully_transparent':
                    assert visible == {
                        (i, j)
                        for i, j in itt.product(
                            range(area.height), range(area.width)
                        )
                        if view[i][j] is not None
                    }, context
                elif name == 'partially_occluded':
                    assert visible == {
                        (i, j)
                        for (i, j) in expected_visible
                        if view[i][j] is not None
                    }, context
                elif name == 'raytracing':
                    # at the very least, the agent's own cell
                    assert agent_yx in visible, context

                # history independence:  other questions in between (other
                # environments, shapes, caches dropped or warm), same answer
                other_shape = rnd.choice(OBSERVATION_SHAPES)
                other_env = get_env(shape, rnd.choice(OBSERVATION_NAMES), other_shape)
                other_env.functional_observation(state)
                if rnd.random() < 0.05:
                    cached_compute_rays_fancy.cache_clear()
                    cached_compute_rays.cache_clear()
                env.functional_observation(state)

                env.set_seed(seed)
                again = env.functional_observation(state)
                assert again == observation, context
                assert hash(again) == hash(observation), context
                assert describe_rows(again.grid.objects) == describe_rows(
                    observation.grid.objects
                ), context
                assert again.grid is not observation.grid
                assert again.grid.objects is not observation.grid.objects
                assert snapshot(state) == before, context

                # an equal copy of the state gives an equal observation
                env.set_seed(seed)
                copied = env.functional_observation(fast_copy(state))
                assert copied == observation, context
                assert hash(copied) == hash(observation), context

                # changing the observation's containers does not affect the state
                for i, j in itt.product(
                    range(area.height), range(area.width)
                ):
                    observation.grid[i, j] = Wall()
                observation.grid.objects.reverse()
                observation.agent.position = Position(0, 0)
                observation.agent.orientation = Orientation.B
                observation.agent.grid_object = Beacon(Color.RED)
                assert snapshot(state) == before, context
                assert describe_rows(again.grid.objects) == describe_rows(
                    copied.grid.objects
                ), context


# --------------------------------------------------------------------------
# 3. steps
# --------------------------------------------------------------------------


def mutable_ids(state):
    ids = {
        id(state.grid),
        id(state.grid.objects),
        id(state.agent),
        id(state.agent.transform),
    }

    def visit(obj):
        ids.add(id(obj))
        if isinstance(obj, Box):
            visit(obj.content)

    for row in state.grid.objects:
        ids.add(id(row))
        for obj in row:
            visit(obj)
    visit(state.agent.grid_object)
    return ids


def check_steps(rnd, shape):
    height, width = shape
    env = get_env(shape, 'partially_occluded', (3, 3))
    rows = random_rows(rnd, height, width)
    y, x = rnd.randrange(height), rnd.randrange(width)
    rows[y][x] = Floor()
    state = State(
        Grid(rows),
        Agent(
            Position(y, x),
            rnd.choice(ORIENTATIONS),
            rnd.choice(HELD_FACTORIES)(),
        ),
    )

    for _ in range(12):
        action = rnd.choice(list(Action))
        seed = rnd.randrange(10**6)
        before = snapshot(state)
        state_hash = hash(state)

        env.set_seed(seed)
        next_state, reward, terminal = env.functional_step(state, action)
        counts['steps'] += 1

        assert snapshot(state) == before
        assert hash(state) == state_hash
        assert not (mutable_ids(state) & mutable_ids(next_state))
        assert next_state.grid.shape == state.grid.shape

        # turning changes the orientation
        if action.is_turn():
            assert next_state.agent.orientation is not state.agent.orientation
        else:
            assert next_state.agent.orientation is state.agent.orientation

        # equality and hash of copies
        for original in (state, next_state):
            for copied in (fast_copy(original), copy.deepcopy(original)):
                assert copied == original
                assert hash(copied) == hash(original)
                assert describe_rows(copied.grid.objects) == describe_rows(
                    original.grid.objects
                )
                assert not (mutable_ids(copied) & mutable_ids(original))

        # ask something else, then the same again
        get_env(shape, 'raytracing', (3, 3)).functional_step(
            next_state, rnd.choice(list(Action))
        )
        env.functional_observation(next_state)
        env.set_seed(seed)
        again, reward_again, terminal_again = env.functional_step(state, action)
        assert again == next_state and hash(again) == hash(next_state)
        assert describe_rows(again.grid.objects) == describe_rows(
            next_state.grid.objects
        )
        assert (reward_again, terminal_again) == (reward, terminal)
        assert not (mutable_ids(again) & mutable_ids(next_state))

        # independence after the fact
        expected = describe_rows(again.grid.objects)
        for position in next_state.grid.area.positions():
            next_state.grid[position] = Wall()
        next_state.agent.position = Position(0, 0)
        assert snapshot(state) == before
        for position in state.grid.area.positions():
            obj = state.grid[position]
            if isinstance(obj, Door):
                obj.state = Door.Status.LOCKED
            state.grid[position] = Exit()
        assert describe_rows(again.grid.objects) == expected

        state = again


def main():
    rnd = random.Random(31337)

    shapes = [(1, 1), (1, 2), (2, 1), (1, 5), (2, 2), (2, 3), (3, 3), (4, 3), (3, 5), (5, 5)]
    for shape in shapes:
        for _ in range(6):
            check_grid_api(rnd, *shape)

    for shape in [(1, 1), (1, 3), (2, 2), (3, 3)]:
        for _ in range(3):
            check_observations(rnd, shape, every_pose=True)
    for shape in [(3, 4), (5, 5), (6, 4), (7, 7)]:
        for _ in range(4):
            check_observations(rnd, shape, every_pose=False)

    for shape in [(1, 1), (1, 4), (2, 2), (3, 3), (4, 5), (6, 6)]:
        for _ in range(25):
            check_steps(rnd, shape)

    assert counts['hidden'] > 1000, counts
    print(
        f"OK: grid api on {len(shapes)} shapes, "
        f"{counts['observations']} observations "
        f"({counts['hidden']} hidden cells), {counts['steps']} steps"
    )


if __name__ == '__main__':
    main()
