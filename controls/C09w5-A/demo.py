"""Demo / regression program for refactoring A (pickndrop, actuate_door, actuate_box).

Run as:  cd /tmp/wt5-C09 && /venv/bin/python -W ignore _seed/A/demo.py

The expected outcome of every step is computed by an INDEPENDENT reference
model written in this file (plain tuples / dicts, no library logic); the
library is only used to build states, to run the transition functions, and to
read the result back.  Besides values, object *identity* is checked (which
object ends up where, which objects are freshly created), and the
conservation property C09 (multiset of non-floor objects + held item is
preserved, a box being replaced by its content) is asserted on every step.
"""
import itertools
import os
import random
import sys
from collections import Counter

sys.path.insert(0, os.getcwd())

from gym_gridverse.action import Action  # noqa: E402
from gym_gridverse.agent import Agent  # noqa: E402
from gym_gridverse.envs import transition_functions as tf  # noqa: E402
from gym_gridverse.envs.yaml.factory import factory_env_from_data  # noqa: E402
from gym_gridverse.geometry import Orientation, Position  # noqa: E402
from gym_gridverse.grid import Grid  # noqa: E402
from gym_gridverse.grid_object import (  # noqa: E402
    Beacon,
    Box,
    Color,
    Door,
    Exit,
    Floor,
    GridObject,
    Key,
    MovingObstacle,
    NoneGridObject,
    Telepod,
    Wall,
)
from gym_gridverse.state import State  # noqa: E402


# --------------------------------------------------------------------------
# two custom object types, to exercise unusual corners
# --------------------------------------------------------------------------
class Gem(GridObject):
    """a holdable object which is not a Key"""

    state_index = 0
    color = Color.NONE
    blocks_movement = False
    blocks_vision = False
    holdable = True

    @classmethod
    def can_be_represented_in_state(cls):
        return True

    @classmethod
    def num_states(cls):
        return 1


class Rug(Floor):
    """a Floor subclass which is holdable (both pickndrop conditions hold)"""

    holdable = True


# --------------------------------------------------------------------------
# descriptors (value of an object as a plain tuple)
# --------------------------------------------------------------------------
def desc(obj):
    name = type(obj).__name__
    if name == 'NoneGridObject':
        return None
    if name == 'Door':
        return ('Door', obj.state.name, obj.color.name)
    if name == 'Box':
        return ('Box', desc(obj.content))
    return (name, obj.color.name)


HOLDABLE_NAMES = {'Key', 'Gem', 'Rug'}
FLOOR_NAMES = {'Floor', 'Rug'}  # isinstance(., Floor)
FRESH_FLOOR = ('fresh', ('Floor', 'NONE'))
FRESH_NONE = ('fresh', None)

DELTA = {
    'FORWARD': (-1, 0),
    'RIGHT': (0, 1),
    'BACKWARD': (1, 0),
    'LEFT': (0, -1),
}
TURN_LEFT_OF = {
    'FORWARD': 'LEFT',
    'LEFT': 'BACKWARD',
    'BACKWARD': 'RIGHT',
    'RIGHT': 'FORWARD',
}
TURN_RIGHT_OF = {v: k for k, v in TURN_LEFT_OF.items()}
OPPOSITE_OF = {k: TURN_LEFT_OF[TURN_LEFT_OF[k]] for k in TURN_LEFT_OF}


# --------------------------------------------------------------------------
# reference model;  a token is (uid, descriptor), uid == 'fresh' for objects
# that must have been newly created by the step
# --------------------------------------------------------------------------
class Model:
    def __init__(self, height, width, cells, pos, ori, held, contents):
        self.height = height
        self.width = width
        self.cells = cells  # {(y, x): token}
        self.pos = pos
        self.ori = ori
        self.held = held  # token (descriptor None == empty hand)
        self.contents = contents  # {uid of box: token of its content}

    def inside(self, p):
        return 0 <= p[0] < self.height and 0 <= p[1] < self.width

    def front(self):
        dy, dx = DELTA[self.ori]
        return (self.pos[0] + dy, self.pos[1] + dx)

    def key(self):
        return (
            self.height,
            self.width,
            tuple(sorted(self.cells.items(), key=lambda kv: kv[0])),
            self.pos,
            self.ori,
            self.held,
        )


def blocks(d):
    if d[0] in ('Wall', 'Box'):
        return True
    if d[0] == 'Door':
        return d[1] != 'OPEN'
    return False


def ref_move_agent(m, action):
    table = {
        'MOVE_FORWARD': m.ori,
        'MOVE_LEFT': TURN_LEFT_OF[m.ori],
        'MOVE_RIGHT': TURN_RIGHT_OF[m.ori],
        'MOVE_BACKWARD': OPPOSITE_OF[m.ori],
    }
    if action not in table:
        return
    dy, dx = DELTA[table[action]]
    target = (m.pos[0] + dy, m.pos[1] + dx)
    if m.inside(target) and not blocks(m.cells[target][1]):
        m.pos = target


def ref_turn_agent(m, action):
    if action == 'TURN_LEFT':
        m.ori = TURN_LEFT_OF[m.ori]
    elif action == 'TURN_RIGHT':
        m.ori = TURN_RIGHT_OF[m.ori]


def ref_pickndrop(m, action):
    """decision table on (kind of thing in front, hand empty?)"""
    if action != 'PICK_N_DROP':
        return
    front = m.front()
    if not m.inside(front):
        return
    in_front = m.cells[front]
    name = in_front[1][0]
    kind = (
        'holdable'
        if name in HOLDABLE_NAMES
        else 'floor'
        if name in FLOOR_NAMES
        else 'scenery'
    )
    empty = m.held[1] is None
    outcome = {
        # (kind, empty hand): (new cell content, new hand)
        ('holdable', True): (FRESH_FLOOR, in_front),  # pick up
        ('holdable', False): (m.held, in_front),  # swap
        ('floor', True): (FRESH_FLOOR, FRESH_NONE),  # nothing, really
        ('floor', False): (m.held, FRESH_NONE),  # drop
        ('scenery', True): None,
        ('scenery', False): None,
    }[kind, empty]
    if outcome is not None:
        m.cells[front], m.held = outcome


def ref_actuate_door(m, action):
    if action != 'ACTUATE':
        return
    front = m.front()
    if not m.inside(front):
        return
    uid, d = m.cells[front]
    if d[0] != 'Door':
        return
    _, status, color = d
    held = m.held[1]
    opens = {
        'OPEN': False,
        'CLOSED': True,
        'LOCKED': held is not None and held[0] == 'Key' and held[1] == color,
    }[status]
    if opens:
        m.cells[front] = (uid, ('Door', 'OPEN', color))


def ref_actuate_box(m, action):
    if action != 'ACTUATE':
        return
    front = m.front()
    if not m.inside(front):
        return
    uid, d = m.cells[front]
    if d[0] == 'Box':
        m.cells[front] = m.contents[uid]


REFS = {
    'move_agent': ref_move_agent,
    'turn_agent': ref_turn_agent,
    'pickndrop': ref_pickndrop,
    'actuate_door': ref_actuate_door,
    'actuate_box': ref_actuate_box,
}


# --------------------------------------------------------------------------
# snapshot / read-back of library states
# --------------------------------------------------------------------------
def snapshot(state, use_ids=True):
    """-> (Model, keepalive list)"""
    keepalive = []
    contents = {}

    def token(obj):
        keepalive.append(obj)
        uid = id(obj)
        if isinstance(obj, Box):
            contents[uid] = token(obj.content)
        return (uid, desc(obj))

    height, width = state.grid.shape.height, state.grid.shape.width
    cells = {
        (y, x): token(state.grid[y, x])
        for y in range(height)
        for x in range(width)
    }
    held = token(state.agent.grid_object)
    pos = (state.agent.position.y, state.agent.position.x)
    model = Model(
        height, width, cells, pos, state.agent.orientation.name, held, contents
    )
    return model, keepalive


def readback(state, known_ids):
    """actual result, as comparable structure"""

    def token(obj):
        uid = id(obj) if id(obj) in known_ids else 'fresh'
        return (uid, desc(obj))

    height, width = state.grid.shape.height, state.grid.shape.width
    cells = {
        (y, x): token(state.grid[y, x])
        for y in range(height)
        for x in range(width)
    }
    return (
        height,
        width,
        tuple(sorted(cells.items(), key=lambda kv: kv[0])),
        (state.agent.position.y, state.agent.position.x),
        state.agent.orientation.name,
        token(state.agent.grid_object),
    )


def nostatus(d):
    """descriptor without the (mutable) door status, also inside boxes"""
    if d[0] == 'Door':
        return ('Door', d[2])
    if d[0] == 'Box':
        return ('Box', nostatus(d[1]))
    return d


def multiset(model_key):
    """multiset of non-floor objects (type, color, content) on the grid + held item"""
    _, _, cells, _, _, held = model_key
    c = Counter()
    for _, (_, d) in cells:
        if d != ('Floor', 'NONE'):
            c[nostatus(d)] += 1
    if held[1] is not None:
        c[nostatus(held[1])] += 1
    return c


def check_conservation(before_key, after_key, context):
    """C09:  equal multisets, up to boxes replaced by their content"""
    b, a = multiset(before_key), multiset(after_key)
    if b == a:
        return
    lost = b - a
    gained = a - b
    assert sum(lost.values()) == 1, (context, lost, gained)
    (box,) = lost.elements()
    assert box[0] == 'Box', (context, lost, gained)
    content = box[1]
    expected_gain = Counter() if content == ('Floor', 'NONE') else Counter([content])
    assert gained == expected_gain, (context, lost, gained)
    assert context[-1] == 'ACTUATE', context


# --------------------------------------------------------------------------
# part 1:  exhaustive small scenarios, in-place, with identity checks
# --------------------------------------------------------------------------
FRONT_KINDS = [
    ('floor', lambda: Floor()),
    ('wall', lambda: Wall()),
    ('exit', lambda: Exit()),
    ('exit-red', lambda: Exit(Color.RED)),
    ('door-open-red', lambda: Door(Door.Status.OPEN, Color.RED)),
    ('door-closed-red', lambda: Door(Door.Status.CLOSED, Color.RED)),
    ('door-locked-red', lambda: Door(Door.Status.LOCKED, Color.RED)),
    ('door-locked-blue', lambda: Door(Door.Status.LOCKED, Color.BLUE)),
    ('door-locked-none', lambda: Door(Door.Status.LOCKED, Color.NONE)),
    ('key-red', lambda: Key(Color.RED)),
    ('key-blue', lambda: Key(Color.BLUE)),
    ('obstacle', lambda: MovingObstacle()),
    ('box-key', lambda: Box(Key(Color.RED))),
    ('box-floor', lambda: Box(Floor())),
    ('box-box-key', lambda: Box(Box(Key(Color.BLUE)))),
    ('box-door', lambda: Box(Door(Door.Status.LOCKED, Color.RED))),
    ('telepod', lambda: Telepod(Color.GREEN)),
    ('beacon', lambda: Beacon(Color.YELLOW)),
    ('gem', lambda: Gem()),
    ('rug', lambda: Rug()),
]

HELD_KINDS = [
    ('nothing', lambda: None),
    ('key-red', lambda: Key(Color.RED)),
    ('key-blue', lambda: Key(Color.BLUE)),
    ('key-none', lambda: Key(Color.NONE)),
    ('gem', lambda: Gem()),
    ('wall', lambda: Wall()),  # not reachable in practice; still well defined
    ('box-key', lambda: Box(Key(Color.RED))),
]

BACKGROUND = [
    lambda: Floor(),
    lambda: Wall(),
    lambda: Key(Color.GREEN),
    lambda: Door(Door.Status.LOCKED, Color.RED),
    lambda: Box(Key(Color.YELLOW)),
    lambda: Exit(),
    lambda: MovingObstacle(),
    lambda: Door(Door.Status.CLOSED, Color.BLUE),
    lambda: Telepod(Color.RED),
]

SHAPES = [(1, 1), (1, 2), (2, 1), (2, 2), (3, 3), (2, 4)]

REDUNDANT_ACTIONS = {'MOVE_LEFT', 'MOVE_RIGHT', 'MOVE_BACKWARD', 'TURN_RIGHT'}

ORIENTATIONS = [
    Orientation.FORWARD,
    Orientation.RIGHT,
    Orientation.BACKWARD,
    Orientation.LEFT,
]


def transition_functions_under_test():
    """(label, callable, [names of the reference steps])"""
    chain_all = tf.factory(
        'chain',
        transition_functions=[
            tf.factory('move_agent'),
            tf.factory('turn_agent'),
            tf.factory('actuate_door'),
            tf.factory('pickndrop'),
        ],
    )

    def chain_kw(state, action, *, rng=None):
        tf.chain(
            state,
            action,
            transition_functions=[tf.actuate_box, tf.actuate_door, tf.pickndrop],
            rng=rng,
        )

    def chain_rev(state, action, *, rng=None):
        tf.chain(
            state,
            action,
            transition_functions=[tf.pickndrop, tf.actuate_door, tf.actuate_box],
            rng=rng,
        )

    def twice_pick(state, action, *, rng=None):
        tf.pickndrop(state, action)
        tf.pickndrop(state, action, rng=rng)

    return [
        ('pickndrop', tf.pickndrop, ['pickndrop']),
        ('actuate_door', tf.actuate_door, ['actuate_door']),
        ('actuate_box', tf.actuate_box, ['actuate_box']),
        ('factory-pickndrop', tf.factory('pickndrop'), ['pickndrop']),
        ('factory-door', tf.factory('actuate_door'), ['actuate_door']),
        ('factory-box', tf.factory('actuate_box'), ['actuate_box']),
        (
            'chain-keydoor',
            chain_all,
            ['move_agent', 'turn_agent', 'actuate_door', 'pickndrop'],
        ),
        ('chain-kw', chain_kw, ['actuate_box', 'actuate_door', 'pickndrop']),
        ('chain-rev', chain_rev, ['pickndrop', 'actuate_door', 'actuate_box']),
        ('twice-pick', twice_pick, ['pickndrop', 'pickndrop']),
    ]


def build_state(shape, pos, orientation, front_factory, held_factory):
    height, width = shape
    objects = [
        [BACKGROUND[(3 * y + 5 * x + height) % len(BACKGROUND)]() for x in range(width)]
        for y in range(height)
    ]
    dy, dx = DELTA[orientation.name]
    fy, fx = pos[0] + dy, pos[1] + dx
    front_inside = 0 <= fy < height and 0 <= fx < width
    if front_inside:
        objects[fy][fx] = front_factory()
    grid = Grid(objects)
    agent = Agent(Position(pos[0], pos[1]), orientation, held_factory())
    return State(grid, agent), front_inside


def part1():
    tfs = transition_functions_under_test()
    count = 0
    seen_outcomes = Counter()
    for shape in SHAPES:
        positions = list(itertools.product(range(shape[0]), range(shape[1])))
        for pos, orientation in itertools.product(positions, ORIENTATIONS):
            for k, (front_label, front_factory) in enumerate(FRONT_KINDS):
                for held_label, held_factory in HELD_KINDS:
                    for action in Action:
                        for label, function, ref_names in tfs:
                            if (
                                'move_agent' not in ref_names
                                and action.name in REDUNDANT_ACTIONS
                            ):
                                # a no-op exactly like MOVE_FORWARD / TURN_LEFT
                                continue
                            state, front_inside = build_state(
                                shape, pos, orientation, front_factory, held_factory
                            )
                            if not front_inside and k > 0:
                                continue
                            context = (
                                shape,
                                pos,
                                orientation.name,
                                front_label if front_inside else 'outside',
                                held_label,
                                label,
                                action.name,
                            )

                            # the agent's front as computed by the library
                            # agrees with the model's idea of "front"
                            model, keepalive = snapshot(state)
                            front = state.agent.front()
                            assert (front.y, front.x) == model.front(), context

                            before_key = model.key()
                            known_ids = {id(o) for o in keepalive}
                            for ref_name in ref_names:
                                REFS[ref_name](model, action.name)
                            expected = model.key()

                            result = function(state, action)
                            assert result is None, context
                            actual = readback(state, known_ids)
                            assert actual == expected, (context, actual, expected)

                            check_conservation(before_key, actual, context)
                            seen_outcomes[actual == before_key] += 1
                            count += 1
    # sanity: the scenarios include many that change something
    assert seen_outcomes[False] > 1000, seen_outcomes
    return count, seen_outcomes


# --------------------------------------------------------------------------
# part 2:  transition_with_copy + random walks on random cluttered grids
# --------------------------------------------------------------------------
def part2():
    py_rng = random.Random(1234)
    tfs = transition_functions_under_test()
    steps = 0
    for trial in range(300):
        height, width = py_rng.randint(1, 6), py_rng.randint(1, 6)
        pool = [f for _, f in FRONT_KINDS] + [lambda: Floor()] * 12
        objects = [[py_rng.choice(pool)() for _ in range(width)] for _ in range(height)]
        agent = Agent(
            Position(py_rng.randrange(height), py_rng.randrange(width)),
            py_rng.choice(ORIENTATIONS),
            py_rng.choice(HELD_KINDS)[1](),
        )
        state = State(Grid(objects), agent)
        initial_key = snapshot(state, use_ids=False)[0].key()
        opened = Counter()
        label, function, ref_names = py_rng.choice(tfs)
        for t in range(60):
            action = py_rng.choice(list(Action))
            model, keepalive = snapshot(state, use_ids=False)
            before_key = model.key()
            for ref_name in ref_names:
                REFS[ref_name](model, action.name)
            expected = model.key()

            next_state = tf.transition_with_copy(function, state, action)
            # the original is untouched, the copy holds the expected value
            assert snapshot(state, use_ids=False)[0].key() == before_key
            actual = snapshot(next_state, use_ids=False)[0].key()

            def strip(key):  # forget about freshness
                h, w, cells, p, o, held = key
                return (h, w, tuple((q, d) for q, (_, d) in cells), p, o, held[1])

            assert strip(actual) == strip(expected), (trial, t, label, action)
            check_conservation(before_key, actual, (trial, t, label, action.name))
            state = next_state
            steps += 1
    return steps


# --------------------------------------------------------------------------
# part 3:  histories of the shipped key-door and obstacle environments
# --------------------------------------------------------------------------
def keydoor_data(size):
    return {
        'state_space': {
            'objects': ['Wall', 'Floor', 'Exit', 'Door', 'Key'],
            'colors': ['NONE', 'YELLOW'],
        },
        'observation_space': {
            'objects': ['Wall', 'Floor', 'Exit', 'Door', 'Key'],
            'colors': ['NONE', 'YELLOW'],
        },
        'reset_function': {'name': 'keydoor', 'shape': [size, size]},
        'transition_functions': [
            {'name': 'move_agent'},
            {'name': 'turn_agent'},
            {'name': 'actuate_door'},
            {'name': 'pickndrop'},
        ],
        'reward_functions': [
            {'name': 'reach_exit', 'reward_on': 5.0, 'reward_off': 0.0},
            {
                'name': 'pickndrop',
                'object_type': 'Key',
                'reward_pick': 1.0,
                'reward_drop': -1.0,
            },
            {'name': 'actuate_door', 'reward_open': 1.0, 'reward_close': -1.0},
            {
                'name': 'getting_closer',
                'distance_function': 'manhattan',
                'object_type': 'Exit',
                'reward_closer': 0.2,
                'reward_further': -0.2,
            },
            {'name': 'living_reward', 'reward': -0.05},
        ],
        'observation_function': {
            'name': 'partially_occluded',
            'area': [[-6, 0], [-3, 3]],
        },
        'terminating_function': {'name': 'reach_exit'},
    }


def obstacles_data(size, num_obstacles):
    return {
        'state_space': {
            'objects': ['Wall', 'Floor', 'Exit', 'MovingObstacle'],
            'colors': ['NONE'],
        },
        'action_space': [
            'MOVE_FORWARD',
            'MOVE_BACKWARD',
            'MOVE_LEFT',
            'MOVE_RIGHT',
            'TURN_LEFT',
            'TURN_RIGHT',
        ],
        'observation_space': {
            'objects': ['Wall', 'Floor', 'Exit', 'MovingObstacle'],
            'colors': ['NONE'],
        },
        'reset_function': {
            'name': 'dynamic_obstacles',
            'shape': [size, size],
            'num_obstacles': num_obstacles,
            'random_agent': False,
        },
        'transition_functions': [
            {'name': 'move_agent'},
            {'name': 'turn_agent'},
            {'name': 'move_obstacles'},
        ],
        'reward_functions': [
            {'name': 'reach_exit', 'reward_on': 5.0, 'reward_off': 0.0},
            {'name': 'bump_moving_obstacle', 'reward': -1.0},
            {'name': 'bump_into_wall', 'reward': -1.0},
            {
                'name': 'getting_closer',
                'distance_function': 'manhattan',
                'object_type': 'Exit',
                'reward_closer': 0.2,
                'reward_further': -0.2,
            },
            {'name': 'living_reward', 'reward': -0.05},
        ],
        'observation_function': {
            'name': 'partially_occluded',
            'area': [[-6, 0], [-3, 3]],
        },
        'terminating_function': {
            'name': 'reduce_any',
            'terminating_functions': [
                {'name': 'reach_exit'},
                {'name': 'bump_moving_obstacle'},
                {'name': 'bump_into_wall'},
            ],
        },
    }


def guided_action(py_rng, model):
    """a policy that actually picks keys and opens doors every now and then"""
    front = model.front()
    if model.inside(front):
        name = model.cells[front][1][0]
        if name == 'Key' and py_rng.random() < 0.7:
            return Action.PICK_N_DROP
        if name == 'Door' and py_rng.random() < 0.7:
            return Action.ACTUATE
    return py_rng.choice(list(Action))


def part3():
    py_rng = random.Random(99)
    steps = 0
    picks = 0
    opens = 0
    for size in (5, 7, 9):
        env = factory_env_from_data(keydoor_data(size))
        for seed in range(12):
            env.set_seed(seed)
            env.reset()
            initial = multiset(snapshot(env.state, use_ids=False)[0].key())
            for t in range(250):
                model, _ = snapshot(env.state, use_ids=False)
                before_key = model.key()
                action = guided_action(py_rng, model)
                for ref_name in ('move_agent', 'turn_agent', 'actuate_door', 'pickndrop'):
                    REFS[ref_name](model, action.name)
                expected = model.key()
                _, done = env.step(action)
                actual = snapshot(env.state, use_ids=False)[0].key()

                def strip(key):
                    h, w, cells, p, o, held = key
                    return (h, w, tuple((q, d) for q, (_, d) in cells), p, o, held[1])

                assert strip(actual) == strip(expected), (size, seed, t, action)
                picks += strip(actual)[5] != strip(before_key)[5]
                opens += Counter(d for _, d in strip(actual)[2]) != Counter(
                    d for _, d in strip(before_key)[2]
                )
                # conservation over the whole history
                assert multiset(actual) == initial, (size, seed, t)
                steps += 1
                if done:
                    env.reset()
                    initial = multiset(snapshot(env.state, use_ids=False)[0].key())

    # obstacle environments (random dynamics: conservation + scenery only)
    for size, num_obstacles in ((5, 1), (7, 2)):
        env = factory_env_from_data(obstacles_data(size, num_obstacles))
        actions = [a for a in Action if a.name.startswith(('MOVE', 'TURN'))]
        for seed in range(12):
            env.set_seed(seed)
            env.reset()
            for t in range(150):
                before = snapshot(env.state, use_ids=False)[0].key()
                action = py_rng.choice(actions)
                _, done = env.step(action)
                after = snapshot(env.state, use_ids=False)[0].key()
                assert multiset(before) == multiset(after), (size, seed, t)
                for (q, (_, d0)), (_, (_, d1)) in zip(before[2], after[2]):
                    if d0 != d1:
                        assert {d0[0], d1[0]} == {'Floor', 'MovingObstacle'}, (q, d0, d1)
                assert after[5][1] is None
                steps += 1
                if done:
                    env.reset()
    assert picks > 20 and opens > 20, (picks, opens)
    return steps, picks, opens


def main():
    # the reference orientation tables agree with the library's
    for o in ORIENTATIONS:
        p = Position.from_orientation(o)
        assert (p.y, p.x) == DELTA[o.name]
        assert (o * Orientation.LEFT).name == TURN_LEFT_OF[o.name]
        assert (o * Orientation.RIGHT).name == TURN_RIGHT_OF[o.name]

    n1, outcomes = part1()
    print(f'part 1: {n1} exhaustive scenarios ok ({outcomes[False]} changed the state)')
    n2 = part2()
    print(f'part 2: {n2} random steps with transition_with_copy ok')
    n3, picks, opens = part3()
    print(f'part 3: {n3} environment steps ok ({picks} hand changes, {opens} grid changes)')
    print('OK')


if __name__ == '__main__':
    main()
