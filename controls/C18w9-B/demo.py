"""Demo for change B (Transform.neighbor, used by Agent.front and
get_next_position).

Checks property C18 -- geometry is a consistent algebra of quarter turns and
rigid motions, and the tentative-next-position helper agrees with it --
against a reference implementation embedded below (plain tuples, no library
code).  Does not use the new method, so it runs (and exits 0) both on the
pristine tree and with the patch.
"""
import itertools as itt
import os
import random
import sys

sys.path.insert(0, os.getcwd())

from gym_gridverse.action import Action  # noqa: E402
from gym_gridverse.agent import Agent  # noqa: E402
from gym_gridverse.envs.transition_functions import (  # noqa: E402
    move_agent,
    turn_agent,
)
from gym_gridverse.envs.utils import get_next_position  # noqa: E402
from gym_gridverse.geometry import (  # noqa: E402
    Area,
    Orientation,
    Position,
    Transform,
)
from gym_gridverse.grid import Grid  # noqa: E402
from gym_gridverse.grid_object import (  # noqa: E402
    Color,
    Door,
    Floor,
    Key,
    Wall,
)
from gym_gridverse.state import State  # noqa: E402

O_ = Orientation
ORIENTATIONS = [O_.F, O_.R, O_.B, O_.L]

# ---------------------------------------------------------------------------
# reference implementation: quarter turns counted clockwise, F=0 R=1 B=2 L=3
# ---------------------------------------------------------------------------
TURNS = {O_.F: 0, O_.R: 1, O_.B: 2, O_.L: 3}
FROM_TURNS = {v: k for k, v in TURNS.items()}
# unit step (dy, dx) when heading F (up), R, B (down), L
UNIT = {O_.F: (-1, 0), O_.R: (0, 1), O_.B: (1, 0), O_.L: (0, -1)}
MOVES = {
    Action.MOVE_FORWARD: O_.F,
    Action.MOVE_LEFT: O_.L,
    Action.MOVE_RIGHT: O_.R,
    Action.MOVE_BACKWARD: O_.B,
}
# hard-coded table: (heading, move action) -> displacement (dy, dx)
EXPECTED_DELTA = {
    (O_.F, Action.MOVE_FORWARD): (-1, 0),
    (O_.F, Action.MOVE_RIGHT): (0, 1),
    (O_.F, Action.MOVE_BACKWARD): (1, 0),
    (O_.F, Action.MOVE_LEFT): (0, -1),
    #
    (O_.R, Action.MOVE_FORWARD): (0, 1),
    (O_.R, Action.MOVE_RIGHT): (1, 0),
    (O_.R, Action.MOVE_BACKWARD): (0, -1),
    (O_.R, Action.MOVE_LEFT): (-1, 0),
    #
    (O_.B, Action.MOVE_FORWARD): (1, 0),
    (O_.B, Action.MOVE_RIGHT): (0, -1),
    (O_.B, Action.MOVE_BACKWARD): (-1, 0),
    (O_.B, Action.MOVE_LEFT): (0, 1),
    #
    (O_.L, Action.MOVE_FORWARD): (0, -1),
    (O_.L, Action.MOVE_RIGHT): (-1, 0),
    (O_.L, Action.MOVE_BACKWARD): (0, 1),
    (O_.L, Action.MOVE_LEFT): (1, 0),
}


def ref_mul(o1, o2):
    return FROM_TURNS[(TURNS[o1] + TURNS[o2]) % 4]


def ref_neg(o):
    return FROM_TURNS[(-TURNS[o]) % 4]


def ref_rot(o, yx):
    y, x = yx
    for _ in range(TURNS[o]):
        y, x = x, -y
    return y, x


def ref_transform(t, yx):
    (ty, tx), o = t
    y, x = ref_rot(o, yx)
    return ty + y, tx + x


def ref_compose(t, s):
    (sy, sx), so = s
    return ref_transform(t, (sy, sx)), ref_mul(t[1], so)


def ref_inverse(t):
    (ty, tx), o = t
    y, x = ref_rot(ref_neg(o), (ty, tx))
    return (-y, -x), ref_neg(o)


def as_ref(t: Transform):
    return t.position.yx, t.orientation


BIG = 10**30
COORDS = [-BIG, -7, -2, -1, 0, 1, 2, 5, BIG]
rng = random.Random(1818)
POSITIONS = [Position(y, x) for y in COORDS for x in COORDS]
TRANSFORMS = [Transform(p, o) for p in POSITIONS for o in ORIENTATIONS]
SOME_TRANSFORMS = [
    Transform(Position(y, x), o)
    for y in [-BIG, -4, 0, 3]
    for x in [-5, 0, 1, BIG]
    for o in ORIENTATIONS
]

checks = 0


def check(condition, *info):
    global checks
    checks += 1
    if not condition:
        print('FAILED', *info)
        sys.exit(1)


# ---------------------------------------------------------------------------
# 1. orientations and their action on positions
# ---------------------------------------------------------------------------
for o in ORIENTATIONS:
    check(O_.F * o is o and o * O_.F is o, 'identity', o)
    check(o * -o is O_.F and -o * o is O_.F and -o is ref_neg(o), 'inverse', o)
    check(o * o * o * o is O_.F, 'order', o)
    check(Position.from_orientation(o).yx == UNIT[o], 'unit step', o)
    check(o * Position.from_orientation(O_.F) == Position.from_orientation(o))
    for p in POSITIONS:
        r = o * p
        check(type(r) is Position and r.yx == ref_rot(o, p.yx), 'rot', o, p)
        check(r.y**2 + r.x**2 == p.y**2 + p.x**2, 'isometry', o, p)
        check(-o * r == p, 'undone', o, p)
    for _ in range(200):
        p, q = rng.choice(POSITIONS), rng.choice(POSITIONS)
        check(o * (p + q) == o * p + o * q, 'additive', o, p, q)
for o1, o2 in itt.product(ORIENTATIONS, repeat=2):
    check(o1 * o2 is ref_mul(o1, o2), 'mul', o1, o2)
    # the unit steps are an orbit of the quarter turns
    check(
        o1 * Position.from_orientation(o2) == Position.from_orientation(o1 * o2),
        'unit steps',
        o1,
        o2,
    )
    for p in rng.sample(POSITIONS, 30):
        check((o1 * o2) * p == o1 * (o2 * p), 'action', o1, o2, p)
for o1, o2, o3 in itt.product(ORIENTATIONS, repeat=3):
    check((o1 * o2) * o3 is o1 * (o2 * o3), 'assoc', o1, o2, o3)

# ---------------------------------------------------------------------------
# 2. pose transforms
# ---------------------------------------------------------------------------
IDENTITY = Transform(Position(0, 0), O_.F)
for t in TRANSFORMS:
    check(t * IDENTITY == t and IDENTITY * t == t, 'identity', t)
    check(t * -t == IDENTITY and -t * t == IDENTITY, 'inverse', t)
    check(as_ref(-t) == ref_inverse(as_ref(t)), 'ref inverse', t)
    for o in ORIENTATIONS:
        check(t * o is ref_mul(t.orientation, o), 'orientation', t, o)
    for p in rng.sample(POSITIONS, 8):
        check((t * p).yx == ref_transform(as_ref(t), p.yx), 'act', t, p)
        check(-t * (t * p) == p, 'undo', t, p)
for t, s in itt.product(SOME_TRANSFORMS, repeat=2):
    check(as_ref(t * s) == ref_compose(as_ref(t), as_ref(s)), 'compose', t, s)
    p = rng.choice(POSITIONS)
    check((t * s) * p == t * (s * p), 'successive', t, s, p)
    area = Area((-6, 0), (-1, 5))
    check((t * s) * area == t * (s * area), 'successive area', t, s)
    check(
        {t * q for q in area.positions()} == set((t * area).positions()),
        'area image',
        t,
    )
for _ in range(3000):
    t, s, u = (rng.choice(SOME_TRANSFORMS) for _ in range(3))
    check((t * s) * u == t * (s * u), 'assoc', t, s, u)

# ---------------------------------------------------------------------------
# 3. tentative next position agrees with the pose algebra
# ---------------------------------------------------------------------------
check(set(EXPECTED_DELTA) == set(itt.product(ORIENTATIONS, MOVES)))
for t in TRANSFORMS:
    position, orientation = t.position, t.orientation
    before = (position.yx, orientation)
    for action in Action:
        result = get_next_position(position, orientation, action)
        check(type(result) is Position, 'type', t, action)
        if action in MOVES:
            dy, dx = EXPECTED_DELTA[orientation, action]
            check(result.yx == (position.y + dy, position.x + dx), 'table', t, action)
            step = Position.from_orientation(MOVES[action])
            check(result == t * step, 'pose algebra', t, action)
            check(
                result == position + Position.from_orientation(orientation * MOVES[action]),
                'old spelling',
                t,
                action,
            )
            check(
                result == t * Transform(step, O_.F) * Position(0, 0),
                'composed pose',
                t,
                action,
            )
            check(-t * result == step, 'back in the agent frame', t, action)
            check(Position.manhattan_distance(result, position) == 1, 'adjacent')
            check(hash(result) == hash(Position(position.y + dy, position.x + dx)))
            # opposite moves cancel
            opposite = {
                Action.MOVE_FORWARD: Action.MOVE_BACKWARD,
                Action.MOVE_BACKWARD: Action.MOVE_FORWARD,
                Action.MOVE_LEFT: Action.MOVE_RIGHT,
                Action.MOVE_RIGHT: Action.MOVE_LEFT,
            }[action]
            check(
                get_next_position(result, orientation, opposite) == position,
                'round trip',
                t,
                action,
            )
            # repeated calls
            check(get_next_position(position, orientation, action) == result)
        else:
            check(result is position, 'non-move returns the position', t, action)
        # arguments untouched
        check((position.yx, orientation) == before and as_ref(t) == before)

# four steps around a unit square come back
for t in SOME_TRANSFORMS:
    p = t.position
    for action in [
        Action.MOVE_FORWARD,
        Action.MOVE_RIGHT,
        Action.MOVE_BACKWARD,
        Action.MOVE_LEFT,
    ]:
        p = get_next_position(p, t.orientation, action)
    check(p == t.position, 'loop', t)

# ---------------------------------------------------------------------------
# 4. Agent.front is the forward neighbour, also after the pose is mutated
# ---------------------------------------------------------------------------
for t in TRANSFORMS:
    agent = Agent(t.position, t.orientation)
    dy, dx = UNIT[t.orientation]
    front = agent.front()
    check(type(front) is Position, 'type', t)
    check(front.yx == (t.position.y + dy, t.position.x + dx), 'front', t)
    check(front == t * Position(-1, 0), 'front pose algebra', t)
    check(
        front == get_next_position(t.position, t.orientation, Action.MOVE_FORWARD),
        'front == forward move',
        t,
    )
    check(agent.front() == front and agent.transform == t, 'repeatable', t)
    check(agent.position is t.position and agent.orientation is t.orientation)

agent = Agent(Position(0, 0), O_.F, Key(Color.NONE))
check(agent.front() == Position(-1, 0))
agent.orientation = O_.L
check(agent.front() == Position(0, -1))
agent.position = Position(-3, 7)
check(agent.front() == Position(-3, 6))
agent.orientation *= O_.L
check(agent.orientation is O_.B and agent.front() == Position(-2, 7))
agent.transform = Transform(Position(5, 5), O_.R)
check(agent.front() == Position(5, 6))
check(isinstance(agent.grid_object, Key))

# ---------------------------------------------------------------------------
# 5. through the transition functions: non-square grids, borders, corners
# ---------------------------------------------------------------------------
def make_state(height, width, blocked, position, orientation):
    grid = Grid.from_shape((height, width))
    for y, x in blocked:
        grid[y, x] = Wall()
    return State(grid, Agent(position, orientation))


def ref_move(height, width, blocked, yx, orientation, action):
    if action not in MOVES:
        return yx
    dy, dx = EXPECTED_DELTA[orientation, action]
    y, x = yx[0] + dy, yx[1] + dx
    if not (0 <= y < height and 0 <= x < width):
        return yx
    if (y, x) in blocked:
        return yx
    return y, x


SHAPES = [(1, 1), (1, 4), (5, 1), (2, 3), (3, 2), (4, 6)]
for height, width in SHAPES:
    cells = list(itt.product(range(height), range(width)))
    for blocked in [set(), set(rng.sample(cells, len(cells) // 3))]:
        for y, x in cells:
            if (y, x) in blocked:
                continue
            for o in ORIENTATIONS:
                for action in Action:
                    state = make_state(height, width, blocked, Position(y, x), o)
                    move_agent(state, action)
                    expected = ref_move(height, width, blocked, (y, x), o, action)
                    check(
                        state.agent.position.yx == expected,
                        'move_agent',
                        (height, width),
                        (y, x),
                        o,
                        action,
                    )
                    check(state.agent.orientation is o, 'heading kept')

# a closed door blocks, an open one does not; two environments side by side
state1 = make_state(3, 4, set(), Position(1, 1), O_.R)
state2 = make_state(3, 4, set(), Position(1, 1), O_.R)
state1.grid[1, 2] = Door(Door.Status.CLOSED, Color.NONE)
state2.grid[1, 2] = Door(Door.Status.OPEN, Color.NONE)
move_agent(state1, Action.MOVE_FORWARD)
move_agent(state2, Action.MOVE_FORWARD)
check(state1.agent.position == Position(1, 1) and state1.agent.front() == Position(1, 2))
check(state2.agent.position == Position(1, 2) and state2.agent.front() == Position(1, 3))
check(isinstance(state1.grid[1, 1], Floor))

# random walks: turning and moving track the reference pose
for height, width in [(3, 7), (6, 2), (5, 5)]:
    state = make_state(height, width, set(), Position(0, 0), O_.F)
    yx, o = (0, 0), O_.F
    walk = random.Random(height * 10 + width)
    for _ in range(400):
        action = walk.choice(list(Action))
        move_agent(state, action)
        turn_agent(state, action)
        yx = ref_move(height, width, set(), yx, o, action)
        if action is Action.TURN_LEFT:
            o = ref_mul(o, O_.L)
        elif action is Action.TURN_RIGHT:
            o = ref_mul(o, O_.R)
        check(state.agent.position.yx == yx and state.agent.orientation is o, 'walk')
        fy, fx = UNIT[o]
        check(state.agent.front().yx == (yx[0] + fy, yx[1] + fx), 'walk front')

print(f'OK ({checks} checks)')
