"""Demo / regression check for refactoring A (compute_ray rewritten as a loop).

Run as:  cd /tmp/wt5-C19 && /venv/bin/python -W ignore _seed/A/demo.py

The reference results are computed by an independent re-implementation which
lives in this file (plain tuples, while-loops, no itertools), not by the
library.  The program exits 0 iff every comparison and every property check
succeeds.
"""
import math
import os
import random
import sys

sys.path.insert(0, os.getcwd())

import numpy as np  # noqa: E402

from gym_gridverse.envs import visibility_functions as vf  # noqa: E402
from gym_gridverse.geometry import Area, Position  # noqa: E402
from gym_gridverse.grid import Grid  # noqa: E402
from gym_gridverse.grid_object import Floor, Wall  # noqa: E402
from gym_gridverse.utils import raytracing as rt  # noqa: E402

CHECKS = 0


def check(condition, *info):
    global CHECKS
    CHECKS += 1
    if not condition:
        print('FAILED', *info)
        sys.exit(1)


# --------------------------------------------------------------------------
# independent reference implementation
# --------------------------------------------------------------------------


def ref_inside(y, x, box):
    ymin, ymax, xmin, xmax = box
    return ymin <= y <= ymax and xmin <= x <= xmax


def ref_ray(origin, box, radians, step_size, unique=True):
    """cells (y, x) hit by the sampled line until it leaves the box"""
    oy, ox = origin
    assert ref_inside(oy, ox, box)
    fy, fx = float(oy), float(ox)
    sy = step_size * math.sin(radians)
    sx = step_size * math.cos(radians)
    cells = []
    k = 0
    while True:
        y = round(fy + k * sy)
        x = round(fx + k * sx)
        k += 1
        if not ref_inside(y, x, box):
            return cells
        if unique and (y, x) in cells:
            continue
        cells.append((y, x))


def ref_fancy_angles(origin, box):
    """sorted directions towards all cell corners of the box"""
    oy, ox = origin
    ymin, ymax, xmin, xmax = box
    num, den = [], []
    for cy in range(ymin, ymax + 2):
        for cx in range(xmin, xmax + 2):
            num.append((cy - 0.5) - oy)
            den.append((cx - 0.5) - ox)
    angles = np.arctan2(np.array(num), np.array(den))
    return sorted(angles.tolist())


def ref_degree_angles():
    return [deg * (math.pi / 180.0) for deg in range(360)]


def ref_fan(origin, box, angles):
    return [ref_ray(origin, box, a, 0.01) for a in angles]


def as_tuples(ray):
    return [(p.y, p.x) for p in ray]


def box_of(area):
    return (area.ymin, area.ymax, area.xmin, area.xmax)


def border(y, x, box):
    ymin, ymax, xmin, xmax = box
    return y in (ymin, ymax) or x in (xmin, xmax)


def check_ray_properties(cells, origin, box, info):
    check(cells[0] == origin, 'starts at origin', info)
    check(all(ref_inside(y, x, box) for y, x in cells), 'inside', info)
    check(len(set(cells)) == len(cells), 'unique', info)
    check(
        all(
            max(abs(y1 - y0), abs(x1 - x0)) == 1
            for (y0, x0), (y1, x1) in zip(cells, cells[1:])
        ),
        'adjacent',
        info,
    )
    check(border(*cells[-1], box), 'ends on border', info)


# --------------------------------------------------------------------------
# 1. compute_ray against the reference, many areas/origins/angles/steps
# --------------------------------------------------------------------------

pyrandom = random.Random(19)

AREAS = [
    Area((0, 0), (0, 0)),
    Area((0, 0), (0, 5)),
    Area((0, 6), (0, 0)),
    Area((0, 1), (0, 1)),
    Area((0, 2), (0, 2)),
    Area((0, 4), (0, 3)),
    Area((0, 6), (0, 6)),
    Area((-3, 3), (-2, 4)),
    Area((-6, 0), (-3, 3)),
    Area((2, 8), (5, 9)),
    Area((-4, -1), (-7, -2)),
    Area((0, 8), (0, 10)),
]

BASE_ANGLES = [k * math.pi / 8 for k in range(16)]
EXTRA_ANGLES = (
    [math.radians(d) for d in (1, 44, 45, 46, 89, 91, 179, 181, 269, 271, 359)]
    + [-math.pi, -math.pi / 2, -0.3, 2 * math.pi, 7.5, -9.25, 1e-9, 100.0]
    + [math.atan2(a, b) for a in (-3, -1, 1, 2) for b in (-2, 1, 3)]
    + [pyrandom.uniform(-10, 10) for _ in range(12)]
    + [np.float64(0.75), np.float64(-2.5)]
)


def origins_of(area, limit=None):
    origins = [(p.y, p.x) for p in area.positions()]
    if limit is not None and len(origins) > limit:
        corners = [
            (area.ymin, area.xmin),
            (area.ymin, area.xmax),
            (area.ymax, area.xmin),
            (area.ymax, area.xmax),
        ]
        rest = [o for o in origins if o not in corners]
        origins = corners + pyrandom.sample(rest, limit - 4)
    return origins


n_rays = 0
for area in AREAS:
    box = box_of(area)
    for origin in origins_of(area, limit=14):
        position = Position(*origin)
        for step_size, angles in [
            (0.01, BASE_ANGLES),
            (0.05, BASE_ANGLES + EXTRA_ANGLES),
            (0.3, BASE_ANGLES + EXTRA_ANGLES),
            (0.5, BASE_ANGLES + EXTRA_ANGLES),
            (1.0, BASE_ANGLES + EXTRA_ANGLES),
            (1.7, BASE_ANGLES + EXTRA_ANGLES),
            (np.float64(0.125), BASE_ANGLES),
        ]:
            for radians in angles:
                info = (area, origin, radians, step_size)
                expected_unique = ref_ray(origin, box, radians, step_size)
                expected_all = ref_ray(
                    origin, box, radians, step_size, unique=False
                )

                ray_default = rt.compute_ray(
                    position, area, radians=radians, step_size=step_size
                )
                ray_unique = rt.compute_ray(
                    position,
                    area,
                    radians=radians,
                    step_size=step_size,
                    unique=True,
                )
                ray_all = rt.compute_ray(
                    position,
                    area,
                    radians=radians,
                    step_size=step_size,
                    unique=False,
                )
                n_rays += 3

                check(type(ray_default) is list, 'type', info)
                check(type(ray_all) is list, 'type', info)
                check(
                    all(type(p) is Position for p in ray_all),
                    'element type',
                    info,
                )
                check(
                    all(
                        type(p.y) is int and type(p.x) is int for p in ray_all
                    ),
                    'coordinate type',
                    info,
                )
                check(ray_default is not ray_unique, 'fresh list', info)
                check(as_tuples(ray_default) == expected_unique, 'def', info)
                check(as_tuples(ray_unique) == expected_unique, 'uniq', info)
                check(as_tuples(ray_all) == expected_all, 'all', info)

                # non-unique ray collapses to the unique one
                collapsed = list(dict.fromkeys(as_tuples(ray_all)))
                check(collapsed == expected_unique, 'collapse', info)

                if step_size <= 0.5:
                    check_ray_properties(
                        as_tuples(ray_default), origin, box, info
                    )
                    cells = as_tuples(ray_all)
                    check(
                        all(
                            max(abs(y1 - y0), abs(x1 - x0)) <= 1
                            for (y0, x0), (y1, x1) in zip(cells, cells[1:])
                        ),
                        'connected (non unique)',
                        info,
                    )
                    check(border(*cells[-1], box), 'border (non unique)', info)

print(f'compute_ray: {n_rays} rays compared with the reference')

# --------------------------------------------------------------------------
# 2. error behaviour
# --------------------------------------------------------------------------

for area, outside in [
    (Area((0, 2), (0, 2)), (3, 0)),
    (Area((0, 2), (0, 2)), (0, -1)),
    (Area((0, 2), (0, 2)), (-1, 3)),
    (Area((-2, 2), (4, 6)), (0, 0)),
    (Area((-2, 2), (4, 6)), (3, 5)),
]:
    position = Position(*outside)
    for unique in (True, False):
        try:
            rt.compute_ray(
                position, area, radians=0.3, step_size=0.01, unique=unique
            )
        except ValueError as error:
            check(
                str(error)
                == f'Position {position} is not inside area {area}',
                'message',
                str(error),
            )
        else:
            check(False, 'no ValueError', area, outside)

    for function in (rt.compute_rays, rt.compute_rays_fancy):
        try:
            function(position, area)
        except ValueError:
            check(True)
        else:
            check(False, 'no ValueError', function, area, outside)

# non-finite directions are errors as well (never an endless loop)
for bad in (math.nan, math.inf, -math.inf):
    try:
        rt.compute_ray(
            Position(1, 1), Area((0, 2), (0, 2)), radians=bad, step_size=0.01
        )
    except ValueError:
        check(True)
    else:
        check(False, 'no ValueError for', bad)

# signature / public names
try:
    rt.compute_ray(Position(0, 0), Area((0, 1), (0, 1)), 0.0, 0.01)
except TypeError:
    check(True)
else:
    check(False, 'radians/step_size must be keyword-only')

for name in (
    'Ray',
    'compute_ray',
    'compute_rays',
    'compute_rays_fancy',
    'cached_compute_rays',
    'cached_compute_rays_fancy',
):
    check(hasattr(rt, name), 'public name', name)

# --------------------------------------------------------------------------
# 3. the fans: compared with the reference, sweep, determinism, caching
# --------------------------------------------------------------------------

FAN_AREAS = [
    Area((0, 0), (0, 0)),
    Area((0, 1), (0, 2)),
    Area((0, 2), (0, 2)),
    Area((0, 3), (0, 4)),
    Area((0, 6), (0, 6)),
    Area((-2, 2), (-3, 0)),
    Area((3, 5), (1, 6)),
]

queries = []
for area in FAN_AREAS:
    box = box_of(area)
    everything = {(p.y, p.x) for p in area.positions()}
    for origin in origins_of(area, limit=12):
        position = Position(*origin)
        queries.append((position, area))

        fancy = rt.compute_rays_fancy(position, area)
        expected = ref_fan(origin, box, ref_fancy_angles(origin, box))
        check(len(fancy) == (area.height + 1) * (area.width + 1), 'count')
        check([as_tuples(r) for r in fancy] == expected, 'fancy', area, origin)

        for ray in fancy:
            check_ray_properties(as_tuples(ray), origin, box, (area, origin))

        swept = {(p.y, p.x) for ray in fancy for p in ray}
        check(swept == everything, 'fancy fan sweeps the area', area, origin)

        # deterministic
        check(rt.compute_rays_fancy(position, area) == fancy, 'determinism')

degree_angles = ref_degree_angles()
for area, origins in [
    (Area((0, 0), (0, 0)), [(0, 0)]),
    (Area((0, 2), (0, 2)), [(0, 0), (1, 1), (2, 1)]),
    (Area((0, 6), (0, 6)), [(6, 3), (3, 3), (0, 6)]),
    (Area((-2, 2), (-3, 0)), [(0, -1), (-2, -3)]),
]:
    box = box_of(area)
    everything = {(p.y, p.x) for p in area.positions()}
    for origin in origins:
        position = Position(*origin)
        queries.append((position, area))
        rays = rt.compute_rays(position, area)
        check(len(rays) == 360, 'count')
        check(
            [as_tuples(r) for r in rays] == ref_fan(origin, box, degree_angles),
            'degrees',
            area,
            origin,
        )
        for ray in rays:
            check_ray_properties(as_tuples(ray), origin, box, (area, origin))
        swept = {(p.y, p.x) for ray in rays for p in ray}
        check(swept == everything, 'degree fan sweeps the area', area, origin)

# caching: any order of earlier queries, same values, memoized objects
uncached = {
    (position, area): (
        rt.compute_rays_fancy(position, area),
        rt.compute_rays(position, area) if area.height * area.width <= 9 else None,
    )
    for position, area in queries
}
for order_seed in range(3):
    rt.cached_compute_rays.cache_clear()
    rt.cached_compute_rays_fancy.cache_clear()
    order = list(queries) * 2
    random.Random(order_seed).shuffle(order)
    first = {}
    for position, area in order:
        fancy_reference, degree_reference = uncached[position, area]
        fancy = rt.cached_compute_rays_fancy(position, area)
        check(fancy == fancy_reference, 'cached fancy', position, area)
        check(
            first.setdefault(('f', position, area), fancy) is fancy,
            'memoized',
        )
        if degree_reference is not None:
            rays = rt.cached_compute_rays(position, area)
            check(rays == degree_reference, 'cached degrees', position, area)
            check(
                first.setdefault(('d', position, area), rays) is rays,
                'memoized',
            )
    check(
        rt.cached_compute_rays_fancy.cache_info().misses == len(set(queries)),
        'one computation per distinct query',
    )

print('fans: reference, sweep, determinism and caching checks done')

# --------------------------------------------------------------------------
# 4. ray-traced visibility through the registered visibility functions
# --------------------------------------------------------------------------


def ref_counts(walls, height, width, origin):
    box = (0, height - 1, 0, width - 1)
    num = [[0] * width for _ in range(height)]
    den = [[0] * width for _ in range(height)]
    for cells in ref_fan(origin, box, ref_fancy_angles(origin, box)):
        lit = True
        for y, x in cells:
            if lit:
                num[y][x] += 1
            den[y][x] += 1
            if (y, x) in walls:
                lit = False
    return np.array(num), np.array(den)


raytracing = vf.visibility_function_registry['raytracing']
stochastic_raytracing = vf.visibility_function_registry['stochastic_raytracing']
check(vf.factory('raytracing') is not None, 'factory')

SHAPES = [(1, 1), (1, 4), (3, 3), (2, 5), (5, 4), (7, 7)]
for shape_index, (height, width) in enumerate(SHAPES):
    # unobstructed view shows everything, from every origin
    empty = Grid.from_shape((height, width))
    for y in range(height):
        for x in range(width):
            visibility = raytracing(empty, Position(y, x))
            check(visibility.dtype == bool, 'dtype')
            check(visibility.shape == (height, width), 'shape')
            check(visibility.all(), 'unobstructed view', height, width, y, x)

    for wall_seed in range(3):
        wall_rng = random.Random(1000 * shape_index + wall_seed)
        walls = {
            (y, x)
            for y in range(height)
            for x in range(width)
            if wall_rng.random() < 0.25
        }
        grid = Grid(
            [
                [Wall() if (y, x) in walls else Floor() for x in range(width)]
                for y in range(height)
            ]
        )
        origins = [(y, x) for y in range(height) for x in range(width)]
        if len(origins) > 10:
            origins = wall_rng.sample(origins, 10)
        for origin in origins:
            position = Position(*origin)
            num, den = ref_counts(walls, height, width, origin)
            check((den > 0).all(), 'every cell is on some ray')

            check(
                np.array_equal(raytracing(grid, position), num >= 1),
                'raytracing',
                walls,
                origin,
            )
            for threshold in (2, 5):
                check(
                    np.array_equal(
                        raytracing(grid, position, threshold=threshold),
                        num >= threshold,
                    ),
                    'raytracing threshold',
                )
            for threshold in (0.1, 0.5, 1.0):
                check(
                    np.array_equal(
                        raytracing(
                            grid,
                            position,
                            absolute_counts=False,
                            threshold=threshold,
                        ),
                        (num / den) >= threshold,
                    ),
                    'raytracing relative threshold',
                )

            for seed in (0, 7):
                expected = np.random.default_rng(seed).random(
                    (height, width)
                ) < (num / den)
                rng = np.random.default_rng(seed)
                visibility = stochastic_raytracing(grid, position, rng=rng)
                check(np.array_equal(visibility, expected), 'stochastic')
                # same number of random draws
                check(
                    rng.random()
                    == np.random.default_rng(seed).random(
                        height * width + 1
                    )[-1],
                    'random stream position',
                )

print('visibility: raytracing and stochastic_raytracing checks done')
print(f'OK ({CHECKS} checks)')
