"""Demo for change A (terminating_functions.py: registry checks / factory).

Checks that termination components mean what they say and agree with the
rewards, that composite terminations are the any/all of their parts (with the
same lazy evaluation of the parts), that the factory binds exactly the
non-protocol keyword arguments, and that signature checking at registration
raises / warns exactly as documented.

Run from the worktree root:  /venv/bin/python _seed/A/demo.py
Exits 0 on the pristine tree and with the patch applied.
"""
import functools
import inspect
import itertools as itt
import os
import sys
import warnings
from typing import Optional

import numpy.random as rnd

sys.path.insert(0, os.getcwd())  # the worktree root, not `_seed/A`

from gym_gridverse.action import Action
from gym_gridverse.agent import Agent
from gym_gridverse.envs import reset_functions as reset_fs
from gym_gridverse.envs import reward_functions as reward_fs
from gym_gridverse.envs import terminating_functions as term_fs
from gym_gridverse.envs import transition_functions as trans_fs
from gym_gridverse.geometry import Orientation, Position, Shape
from gym_gridverse.grid import Grid
from gym_gridverse.grid_object import (
    Color,
    Exit,
    Floor,
    GridObject,
    Key,
    MovingObstacle,
    Wall,
)
from gym_gridverse.rng import make_rng
from gym_gridverse.state import State

CHECKS = 0


def check(condition, *info):
    global CHECKS
    CHECKS += 1
    if not condition:
        print('FAILED:', *info)
        sys.exit(1)


# ---------------------------------------------------------------------------
# reference implementation (independent of the library helpers)

# heading -> move action -> (dy, dx); F faces up (decreasing y)
DELTAS = {
    Orientation.F: {
        Action.MOVE_FORWARD: (-1, 0),
        Action.MOVE_BACKWARD: (1, 0),
        Action.MOVE_LEFT: (0, -1),
        Action.MOVE_RIGHT: (0, 1),
    },
    Orientation.R: {
        Action.MOVE_FORWARD: (0, 1),
        Action.MOVE_BACKWARD: (0, -1),
        Action.MOVE_LEFT: (-1, 0),
        Action.MOVE_RIGHT: (1, 0),
    },
    Orientation.B: {
        Action.MOVE_FORWARD: (1, 0),
        Action.MOVE_BACKWARD: (-1, 0),
        Action.MOVE_LEFT: (0, 1),
        Action.MOVE_RIGHT: (0, -1),
    },
    Orientation.L: {
        Action.MOVE_FORWARD: (0, -1),
        Action.MOVE_BACKWARD: (0, 1),
        Action.MOVE_LEFT: (1, 0),
        Action.MOVE_RIGHT: (-1, 0),
    },
}

ORIENTATIONS = [Orientation.F, Orientation.R, Orientation.B, Orientation.L]


def ref_target(state, action):
    dy, dx = DELTAS[state.agent.orientation].get(action, (0, 0))
    return state.agent.position.y + dy, state.agent.position.x + dx


def ref_cell(state, y, x):
    """object at (y, x) or None when off-grid (no negative-index wrapping)"""
    height, width = state.grid.shape.height, state.grid.shape.width
    if 0 <= y < height and 0 <= x < width:
        return state.grid.objects[y][x]
    return None


def ref_bump_into_wall(state, action, next_state):
    return isinstance(ref_cell(state, *ref_target(state, action)), Wall)


def ref_on(next_state, object_type):
    y, x = next_state.agent.position.yx
    return isinstance(ref_cell(next_state, y, x), object_type)


# ---------------------------------------------------------------------------
# grids

LAYOUTS = {
    # walled, non-square, interior walls, exit in a corner of the inside
    'walled_4x7': [
        '#######',
        '#..#.E#',
        '#.O...#',
        '#######',
    ],
    # no boundary walls: attempted moves leave the grid on borders/corners
    'open_3x5': [
        '.#..E',
        'O...#',
        'E.#..',
    ],
    # tall and thin, exits on the border
    'tall_6x2': [
        'E.',
        '.#',
        '..',
        '#O',
        '..',
        '.E',
    ],
    # single row
    'row_1x4': ['.#E.'],
    # no exit, no wall at all
    'bare_2x3': ['...', '...'],
}

CELLS = {
    '#': Wall,
    '.': Floor,
    'E': Exit,
    'O': MovingObstacle,
}


def make_grid(layout):
    return Grid([[CELLS[c]() for c in row] for row in layout])


def move_and_turn(state, action, *, rng=None):
    trans_fs.move_agent(state, action, rng=rng)
    trans_fs.turn_agent(state, action, rng=rng)


def all_states(layout):
    grid = make_grid(layout)
    for position in grid.area.positions():
        for orientation in ORIENTATIONS:
            yield State(make_grid(layout), Agent(position, orientation))


# ---------------------------------------------------------------------------
# 1. every component, on every (state, action, next_state)


def check_components():
    reward_exit = functools.partial(
        reward_fs.reach_exit, reward_on=7.5, reward_off=-0.25
    )
    for name, layout in LAYOUTS.items():
        for state in all_states(layout):
            for action in Action:
                real_next = trans_fs.transition_with_copy(
                    move_and_turn, state, action
                )
                # real next state, plus arbitrary ones (agent anywhere,
                # including on walls and obstacles)
                next_states = [real_next] + [
                    State(make_grid(layout), Agent(position, orientation))
                    for position in state.grid.area.positions()
                    for orientation in (Orientation.F, Orientation.L)
                ]
                for next_state in next_states:
                    args = (state, action, next_state)
                    info = (name, state.agent, action, next_state.agent)

                    on_exit = ref_on(next_state, Exit)
                    on_obstacle = ref_on(next_state, MovingObstacle)
                    bumps = ref_bump_into_wall(*args)

                    # termination components
                    r = term_fs.reach_exit(*args)
                    check(r is on_exit, 'reach_exit', *info)
                    r = term_fs.bump_moving_obstacle(*args)
                    check(r is on_obstacle, 'bump_moving_obstacle', *info)
                    r = term_fs.bump_into_wall(*args)
                    check(r is bumps, 'bump_into_wall', *info)
                    for object_type in (Exit, Wall, Floor, MovingObstacle, Key):
                        r = term_fs.overlap(*args, object_type=object_type)
                        check(
                            r is ref_on(next_state, object_type),
                            'overlap',
                            object_type,
                            *info,
                        )

                    # rewards agree with terminations
                    check(
                        reward_exit(*args) == (7.5 if on_exit else -0.25),
                        'reach_exit reward',
                        *info,
                    )
                    check(
                        (reward_exit(*args) == 7.5)
                        is term_fs.reach_exit(*args),
                        'exit reward iff exit termination',
                        *info,
                    )
                    check(
                        reward_fs.bump_into_wall(*args, reward=-3.0)
                        == (-3.0 if bumps else 0.0),
                        'bump_into_wall reward',
                        *info,
                    )
                    check(
                        reward_fs.bump_moving_obstacle(*args, reward=-2.0)
                        == (-2.0 if on_obstacle else 0.0),
                        'bump_moving_obstacle reward',
                        *info,
                    )

                # the real dynamics: a bump leaves the agent in place
                if ref_bump_into_wall(state, action, real_next):
                    check(
                        real_next.agent.position == state.agent.position,
                        'bump moves agent',
                        name,
                        state.agent,
                        action,
                    )

                # determinism / repeated calls / no mutation of arguments
                before = (state.agent.position, state.agent.orientation)
                first = term_fs.bump_into_wall(state, action, real_next)
                second = term_fs.bump_into_wall(state, action, real_next)
                check(first is second, 'repeat', name)
                check(
                    before == (state.agent.position, state.agent.orientation),
                    'mutation',
                    name,
                )
                check(state.grid == make_grid(layout), 'grid mutation', name)


# ---------------------------------------------------------------------------
# 2. composite terminations


class Counting:
    """terminating function with a fixed answer which records its calls"""

    def __init__(self, value, log, tag):
        self.value = value
        self.log = log
        self.tag = tag

    def __call__(self, state, action, next_state, *, rng=None):
        self.log.append((self.tag, state, action, next_state, rng))
        return self.value


def check_composites():
    layout = LAYOUTS['walled_4x7']
    state = State(make_grid(layout), Agent(Position(1, 4), Orientation.R))
    action = Action.MOVE_FORWARD
    next_state = trans_fs.transition_with_copy(move_and_turn, state, action)
    check(next_state.agent.position == Position(1, 5), 'setup')
    rng = make_rng(3)

    # all boolean combinations up to length 4 (and the empty composition)
    for n in range(5):
        for values in itt.product([False, True], repeat=n):
            for reducer_name, reducer in (('any', any), ('all', all)):
                expected = reducer(values)

                # expected calls under lazy (short-circuit) evaluation
                expected_calls = []
                for i, value in enumerate(values):
                    expected_calls.append(i)
                    if reducer is any and value:
                        break
                    if reducer is all and not value:
                        break

                spellings = {
                    'direct': lambda parts: getattr(
                        term_fs, f'reduce_{reducer_name}'
                    )(
                        state,
                        action,
                        next_state,
                        terminating_functions=parts,
                        rng=rng,
                    ),
                    'reduce': lambda parts: term_fs.reduce(
                        state,
                        action,
                        next_state,
                        terminating_functions=parts,
                        reduction=reducer,
                        rng=rng,
                    ),
                    'factory': lambda parts: term_fs.factory(
                        f'reduce_{reducer_name}',
                        terminating_functions=parts,
                    )(state, action, next_state, rng=rng),
                    'factory_reduce': lambda parts: term_fs.factory(
                        'reduce',
                        terminating_functions=parts,
                        reduction=reducer,
                    )(state, action, next_state, rng=rng),
                }
                for spelling, run in spellings.items():
                    log = []
                    parts = [
                        Counting(value, log, i)
                        for i, value in enumerate(values)
                    ]
                    result = run(parts)
                    info = (spelling, reducer_name, values)
                    check(result is expected, 'composite value', *info)
                    check(
                        [entry[0] for entry in log] == expected_calls,
                        'composite evaluation order',
                        *info,
                        log,
                    )
                    check(
                        all(
                            entry[1] is state
                            and entry[2] is action
                            and entry[3] is next_state
                            and entry[4] is rng
                            for entry in log
                        ),
                        'composite arguments',
                        *info,
                    )

    # a reduction which needs every part (a count) sees every part
    log = []
    parts = [Counting(v, log, i) for i, v in enumerate([True, False, True])]
    majority = term_fs.factory(
        'reduce',
        terminating_functions=parts,
        reduction=lambda values: sum(values) >= 2,
    )
    check(majority(state, action, next_state) is True, 'majority')
    check([entry[0] for entry in log] == [0, 1, 2], 'majority calls')
    check(all(entry[4] is None for entry in log), 'majority rng default')

    # composites of the real components, over every state of every layout
    for name, layout in LAYOUTS.items():
        parts = [
            term_fs.factory('reach_exit'),
            term_fs.factory('bump_moving_obstacle'),
            term_fs.factory('bump_into_wall'),
            term_fs.factory('overlap', object_type=Wall),
        ]
        any_f = term_fs.factory('reduce_any', terminating_functions=parts)
        all_f = term_fs.factory('reduce_all', terminating_functions=parts)
        nested = term_fs.factory(
            'reduce_all',
            terminating_functions=[
                any_f,
                term_fs.factory('reduce_any', terminating_functions=[]),
            ],
        )
        reward = reward_fs.factory(
            'reduce_sum',
            reward_functions=[
                reward_fs.factory('living_reward', reward=-0.5),
                reward_fs.factory('reach_exit', reward_on=10.0, reward_off=0.0),
                reward_fs.factory('bump_into_wall', reward=-100.0),
            ],
        )
        for state in all_states(layout):
            for action in Action:
                next_state = trans_fs.transition_with_copy(
                    move_and_turn, state, action
                )
                args = (state, action, next_state)
                values = [
                    ref_on(next_state, Exit),
                    ref_on(next_state, MovingObstacle),
                    ref_bump_into_wall(*args),
                    ref_on(next_state, Wall),
                ]
                check(any_f(*args) is any(values), 'any', name, values)
                check(all_f(*args) is all(values), 'all', name, values)
                check(nested(*args) is False, 'nested', name)
                expected_reward = (
                    -0.5
                    + (10.0 if values[0] else 0.0)
                    + (-100.0 if values[2] else 0.0)
                )
                check(reward(*args) == expected_reward, 'sum', name)
                # exit reward is paid exactly when exit-termination fires
                exit_paid = (
                    reward(*args)
                    - (-0.5)
                    - (-100.0 if values[2] else 0.0)
                ) == 10.0
                check(exit_paid is parts[0](*args), 'exit paid iff', name)


# ---------------------------------------------------------------------------
# 3. the factory


def check_factory():
    # what gets bound
    f = term_fs.factory('reach_exit')
    check(isinstance(f, functools.partial), 'partial')
    check(f.func is term_fs.reach_exit, 'func')
    check(f.keywords == {}, 'keywords', f.keywords)

    # unrelated keywords are dropped, protocol keywords are never bound
    sentinel = make_rng(0)
    f = term_fs.factory(
        'reach_exit', rng=sentinel, state=1, action=2, next_state=3, foo=4
    )
    check(f.keywords == {}, 'protocol keywords bound', f.keywords)

    f = term_fs.factory('overlap', object_type=Exit, rng=sentinel, other=1)
    check(f.func is term_fs.overlap, 'func overlap')
    check(f.keywords == {'object_type': Exit}, 'keywords overlap', f.keywords)

    parts = []
    f = term_fs.factory('reduce', terminating_functions=parts, reduction=all)
    check(f.keywords['terminating_functions'] is parts, 'identity kept')
    check(f.keywords['reduction'] is all, 'reduction kept')
    check(list(f.keywords) == ['terminating_functions', 'reduction'], 'order')
    # keyword order follows the caller's, as before
    f = term_fs.factory('reduce', reduction=all, terminating_functions=parts)
    check(list(f.keywords) == ['reduction', 'terminating_functions'], 'order2')

    # errors
    def raises(exception_type, message, function, *args, **kwargs):
        try:
            function(*args, **kwargs)
        except exception_type as error:
            check(str(error) == message, 'message', str(error), message)
            check(type(error) is exception_type, 'type', type(error))
        else:
            check(False, 'did not raise', message)

    raises(
        ValueError,
        'invalid terminating function name no_such_function',
        term_fs.factory,
        'no_such_function',
    )
    raises(
        ValueError,
        'missing keyword argument `object_type`',
        term_fs.factory,
        'overlap',
    )
    raises(
        ValueError,
        'missing keyword argument `terminating_functions`',
        term_fs.factory,
        'reduce',
        reduction=any,
    )
    raises(
        ValueError,
        'missing keyword argument `reduction`',
        term_fs.factory,
        'reduce',
        terminating_functions=[],
    )
    # first missing key (in signature order) is the one reported
    raises(
        ValueError,
        'missing keyword argument `terminating_functions`',
        term_fs.factory,
        'reduce',
    )
    raises(
        ValueError,
        'missing keyword argument `terminating_functions`',
        term_fs.factory,
        'reduce_any',
    )

    # a custom function with required and optional extra parameters, in a
    # private registry entry which is removed afterwards
    def custom(
        state,
        action,
        next_state,
        *,
        threshold,
        flip=False,
        label='x',
        rng=None,
    ):
        result = next_state.agent.position.x >= threshold
        return (not result) if flip else result

    registry = term_fs.terminating_function_registry
    name = '_demo_custom_termination'
    check(name not in registry, 'name clash')
    registry.register(custom, name=name)
    try:
        raises(
            ValueError,
            'missing keyword argument `threshold`',
            term_fs.factory,
            name,
            flip=True,
        )
        f = term_fs.factory(name, threshold=2)
        check(f.keywords == {'threshold': 2}, 'custom required only')
        f = term_fs.factory(name, flip=True, threshold=2, junk=0, rng=None)
        check(
            f.keywords == {'flip': True, 'threshold': 2},
            'custom keywords',
            f.keywords,
        )
        layout = LAYOUTS['open_3x5']
        for state in all_states(layout):
            expected = not state.agent.position.x >= 2
            check(f(state, Action.ACTUATE, state) is expected, 'custom value')

        # same function, repeated factory calls are independent
        g = term_fs.factory(name, threshold=4)
        check(g.keywords == {'threshold': 4}, 'second factory call')
        check(f.keywords == {'flip': True, 'threshold': 2}, 'first unchanged')
    finally:
        del registry[name]

    # the registry still lists exactly the built-in names
    check(
        sorted(registry.keys())
        == sorted(
            [
                'reduce',
                'reduce_any',
                'reduce_all',
                'overlap',
                'reach_exit',
                'bump_moving_obstacle',
                'bump_into_wall',
            ]
        ),
        'registry names',
        sorted(registry.keys()),
    )
    for key, function in registry.items():
        check(function is getattr(term_fs, key), 'registry function', key)


# ---------------------------------------------------------------------------
# 4. signature checking at registration


def check_registration():
    def register(function):
        """registers in a fresh registry;  returns (error, warning messages)"""
        registry = term_fs.TerminatingFunctionRegistry()
        with warnings.catch_warnings(record=True) as caught:
            warnings.simplefilter('always')
            try:
                registry.register(function)
            except Exception as error:  # pylint: disable=broad-except
                return error, [str(w.message) for w in caught], registry
        return None, [str(w.message) for w in caught], registry

    # well-formed functions: no error, no warning
    def plain(state, action, next_state, *, rng=None):
        return False

    def annotated(
        state: State,
        action: Action,
        next_state: State,
        *,
        extra: int = 0,
        rng: Optional[rnd.Generator] = None,
    ) -> bool:
        return False

    def positional_rng(s, a, n, rng=None):
        return False

    for function in (plain, annotated, positional_rng):
        error, messages, registry = register(function)
        check(error is None, 'well-formed raises', function, error)
        check(messages == [], 'well-formed warns', function, messages)
        check(registry[function.__name__] is function, 'registered')

    # keyword-only protocol arguments: errors name the first offender
    def kw_state(*, state, action, next_state, rng=None):
        return False

    def kw_action(state, *, action, next_state, rng=None):
        return False

    def kw_next_state(state, action, *, next_state, rng=None):
        return False

    def var_state(*state, action, next_state, rng=None):
        return False

    cases = [
        (kw_state, 'first', 'state'),
        (kw_action, 'second', 'action'),
        (kw_next_state, 'third', 'next_state'),
        (var_state, 'first', 'state'),
    ]
    for function, ordinal, name in cases:
        error, messages, registry = register(function)
        check(type(error) is TypeError, 'kind error type', function, error)
        check(
            str(error)
            == f'The {ordinal} argument ({name}) '
            f'of a registered terminating function ({function}) '
            'should be allowed to be a positional argument.',
            'kind error message',
            str(error),
        )
        check(messages == [], 'kind error warns', messages)
        check(len(registry) == 0, 'registered despite error')

    # both a badly-annotated first argument and a keyword-only third one:
    # the error wins (kinds are checked before annotations)
    def bad_both(state: int, action, *, next_state, rng=None):
        return False

    error, messages, _ = register(bad_both)
    check(type(error) is TypeError, 'error before warnings')
    check(messages == [], 'no warning before error', messages)

    # `rng` must be allowed as a keyword
    def posonly_rng(state, action, next_state, rng=None, /):
        return False

    error, messages, _ = register(posonly_rng)
    check(type(error) is TypeError, 'rng kind', error)
    check(
        str(error)
        == 'The `rng` argument (rng) '
        f'of a registered reward function ({posonly_rng}) '
        'should be allowed to be a keyword argument.',
        'rng kind message',
        str(error),
    )

    def posonly_ok(state, action, next_state, /, *, rng=None):
        return False

    error, messages, _ = register(posonly_ok)
    check(error is None and messages == [], 'positional-only accepted')

    # annotations: one warning per offending argument, in order
    def bad_annotations(
        s: int, a: str, n: Action, *, rng: rnd.Generator = None
    ) -> int:
        return 0

    error, messages, registry = register(bad_annotations)
    check(error is None, 'annotation error', error)
    f = bad_annotations
    expected = [
        f'The first argument (s) '
        f'of a registered terminating function ({f}) '
        f"has an annotation ({int}) "
        'which is not `State`.',
        f'The second argument (a) '
        f'of a registered terminating function ({f}) '
        f"has an annotation ({str}) "
        'which is not `Action`.',
        f'The third argument (n) '
        f'of a registered terminating function ({f}) '
        f'has an annotation ({Action}) '
        'which is not `State`.',
        f'The `rng` argument (rng) '
        f'of a registered reward function ({f}) '
        f'has an annotation ({rnd.Generator}) '
        'which is not `Optional[rnd.Generator]`.',
        f'The return type of a registered terminating function ({f}) '
        f'has an annotation ({int}) '
        'which is not `bool`.',
    ]
    check(messages == expected, 'annotation warnings', messages, expected)
    check(registry['bad_annotations'] is f, 'registered with warnings')

    # State where Action is expected and vice versa
    def swapped(s: Action, a: State, n: State, *, rng=None):
        return False

    error, messages, _ = register(swapped)
    check(error is None, 'swapped error')
    check(len(messages) == 2, 'swapped warnings', messages)
    check(messages[0].endswith('which is not `State`.'), messages[0])
    check(messages[0].startswith('The first argument (s)'), messages[0])
    check(messages[1].endswith('which is not `Action`.'), messages[1])
    check(messages[1].startswith('The second argument (a)'), messages[1])

    # only the third is off
    def third(s: State, a: Action, n: Grid, *, rng=None) -> bool:
        return False

    error, messages, _ = register(third)
    check(error is None, 'third error')
    check(len(messages) == 1, 'third warnings', messages)
    check(messages[0].startswith('The third argument (n)'), messages[0])
    check(messages[0].endswith('which is not `State`.'), messages[0])

    # non-protocol parameters of the built-ins, as seen by the registry
    registry = term_fs.terminating_function_registry
    expected_extra = {
        'reduce': ['terminating_functions', 'reduction'],
        'reduce_any': ['terminating_functions'],
        'reduce_all': ['terminating_functions'],
        'overlap': ['object_type'],
        'reach_exit': [],
        'bump_moving_obstacle': [],
        'bump_into_wall': [],
    }
    for name, extra in expected_extra.items():
        signature = inspect.signature(registry[name])
        parameters = registry.get_nonprotocol_parameters(signature)
        check([p.name for p in parameters] == extra, 'non-protocol', name)
        protocol = registry.get_protocol_parameters(signature)
        check(
            [p.name for p in protocol]
            == ['state', 'action', 'next_state', 'rng'],
            'protocol',
            name,
        )


# ---------------------------------------------------------------------------
# 5. trajectories with the real dynamics;  several environments, re-seeding


def rollout(reset_function, transition, reward, termination, seed, steps):
    rng = make_rng(seed)
    action_rng = make_rng(seed + 1000)
    state = reset_function(rng=rng)
    trace = []
    actions = list(Action)
    for _ in range(steps):
        action = actions[action_rng.integers(len(actions))]
        next_state = trans_fs.transition_with_copy(
            transition, state, action, rng=rng
        )
        args = (state, action, next_state)
        r = reward(*args)
        t = termination(*args)

        on_exit = ref_on(next_state, Exit)
        on_obstacle = ref_on(next_state, MovingObstacle)
        bumps = ref_bump_into_wall(*args)
        check(
            r
            == -0.125
            + (5.0 if on_exit else 0.0)
            + (-1.0 if on_obstacle else 0.0)
            + (-0.25 if bumps else 0.0),
            'trajectory reward',
            r,
        )
        check(t is (on_exit or on_obstacle), 'trajectory termination')
        check(
            term_fs.reach_exit(*args) is on_exit, 'trajectory exit termination'
        )
        trace.append(
            (action, next_state.agent.position, next_state.agent.orientation, r, t)
        )
        state = reset_function(rng=rng) if t else next_state
    return trace


def check_trajectories():
    transition = trans_fs.factory(
        'chain',
        transition_functions=[
            trans_fs.factory('move_agent'),
            trans_fs.factory('turn_agent'),
            trans_fs.factory('move_obstacles'),
        ],
    )
    reward = reward_fs.factory(
        'reduce_sum',
        reward_functions=[
            reward_fs.factory('living_reward', reward=-0.125),
            reward_fs.factory('reach_exit', reward_on=5.0, reward_off=0.0),
            reward_fs.factory('bump_moving_obstacle', reward=-1.0),
            reward_fs.factory('bump_into_wall', reward=-0.25),
        ],
    )
    termination = term_fs.factory(
        'reduce_any',
        terminating_functions=[
            term_fs.factory('reach_exit'),
            term_fs.factory('bump_moving_obstacle'),
        ],
    )
    resets = [
        reset_fs.factory(
            'empty', shape=Shape(4, 7), random_agent=True, random_exit=True
        ),
        reset_fs.factory('empty', shape=Shape(6, 4)),
        reset_fs.factory(
            'dynamic_obstacles',
            shape=Shape(5, 8),
            num_obstacles=4,
            random_agent=True,
        ),
        reset_fs.factory(
            'crossing', shape=Shape(7, 9), num_rivers=2, object_type=Wall
        ),
    ]
    terminal_steps = 0
    for reset_function in resets:
        traces = [
            rollout(reset_function, transition, reward, termination, seed, 150)
            for seed in (0, 1, 0)  # interleaved, then re-seeded
        ]
        check(traces[0] == traces[2], 're-seeding reproduces the trajectory')
        terminal_steps += sum(step[4] for trace in traces for step in trace)
    check(terminal_steps > 0, 'no terminal step was ever exercised')


def main():
    check_components()
    check_composites()
    check_factory()
    check_registration()
    check_trajectories()
    print(f'demo A: all {CHECKS} checks passed')


if __name__ == '__main__':
    main()
