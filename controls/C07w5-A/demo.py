"""Demo / regression check for refactoring A (geometry.py + grid.py).

Run as:  cd /tmp/wt5-C07 && /venv/bin/python -W ignore _seed/A/demo.py

The program contains an INDEPENDENT reference model of the geometry algebra
(quarter turns as integers mod 4, positions/areas as plain tuples) and of the
egocentric observation (defined cell-by-cell, not via subgrid-then-rotate).
Everything the library computes through the public API is compared with that
reference; nothing here is recorded from the library itself.  It exits 0 on the
clean tree and with refactoring A applied.
"""
import itertools
import math
import os
import random
import sys

sys.path.insert(0, os.getcwd())

import numpy as np  # noqa: E402

from gym_gridverse.agent import Agent  # noqa: E402
from gym_gridverse.envs import observation_functions as obs_fs  # noqa: E402
from gym_gridverse.geometry import (  # noqa: E402
    Area,
    Orientation,
    Position,
    Transform,
)
from gym_gridverse.grid import Grid  # noqa: E402
from gym_gridverse.grid_object import (  # noqa: E402
    Beacon,
    Color,
    Door,
    Exit,
    Floor,
    Hidden,
    Key,
    MovingObstacle,
    Telepod,
    Wall,
)
from gym_gridverse.observation import Observation  # noqa: E402
from gym_gridverse.state import State  # noqa: E402

CHECKS = 0


def check(condition, *info):
    global CHECKS
    CHECKS += 1
    if not condition:
        raise AssertionError(info)


# --------------------------------------------------------------------------
# reference model: orientations are clockwise quarter turns, F=0 R=1 B=2 L=3
# --------------------------------------------------------------------------

ORIENTATIONS = [Orientation.F, Orientation.R, Orientation.B, Orientation.L]
K_OF = {o: k for k, o in enumerate(ORIENTATIONS)}


def ref_rot(k, yx):
    """rotate vector (y, x) by k clockwise quarter turns (y points down)"""
    y, x = yx
    for _ in range(k % 4):
        y, x = x, -y
    return y, x


def ref_rot_area(k, area):
    """area = (ymin, ymax, xmin, xmax); rotate its two extreme corners"""
    ymin, ymax, xmin, xmax = area
    corners = [ref_rot(k, (y, x)) for y in (ymin, ymax) for x in (xmin, xmax)]
    ys = [c[0] for c in corners]
    xs = [c[1] for c in corners]
    return min(ys), max(ys), min(xs), max(xs)


def area_tuple(area):
    return area.ymin, area.ymax, area.xmin, area.xmax


# --------------------------------------------------------------------------
# part 1: the algebra (Orientation / Position / Area / Transform)
# --------------------------------------------------------------------------


def check_algebra():
    coords = [-7, -3, -1, 0, 1, 2, 5, 11]
    positions = [(y, x) for y in coords for x in coords]
    spans = [(-6, 0), (-3, 3), (0, 0), (-2, -1), (1, 4), (-1, 1), (2, 2)]
    areas = [(ys[0], ys[1], xs[0], xs[1]) for ys in spans for xs in spans]

    # Position.from_orientation is rot(k) of the "forward" unit vector
    for o in ORIENTATIONS:
        check(
            Position.from_orientation(o).yx == ref_rot(K_OF[o], (-1, 0)),
            'from_orientation',
            o,
        )

    for o1 in ORIENTATIONS:
        k1 = K_OF[o1]

        # orientation * orientation, negation
        for o2 in ORIENTATIONS:
            expected = ORIENTATIONS[(k1 + K_OF[o2]) % 4]
            check(o1 * o2 is expected, 'o*o', o1, o2)
            check(o1.__mul__(o2) is expected)
            check(o1.__rmul__(o2) is expected)
        check(-o1 is ORIENTATIONS[(-k1) % 4], 'neg', o1)
        check(o1 * -o1 is Orientation.F and -o1 * o1 is Orientation.F)

        # orientation * position
        for yx in positions:
            p = Position(*yx)
            result = o1 * p
            check(type(result) is Position, 'type o*p')
            check(result.yx == ref_rot(k1, yx), 'o*p', o1, yx, result)
            check(result is not p, 'o*p returns a new object')
            check((p * o1) == result, 'p*o (rmul)')
            # inverse
            check((-o1 * result) == p, 'inverse rotation')

        # orientation * area
        for a in areas:
            area = Area((a[0], a[1]), (a[2], a[3]))
            result = o1 * area
            check(type(result) is Area, 'type o*a')
            check(area_tuple(result) == ref_rot_area(k1, a), 'o*a', o1, a)
            check(result is not area)
            check((area * o1) == result, 'a*o (rmul)')
            check(result.height * result.width == area.height * area.width)
            # rotating every cell of the area gives exactly the rotated area
            cells = {ref_rot(k1, q.yx) for q in area.positions()}
            check(cells == {q.yx for q in result.positions()}, 'cells', o1, a)

        # unsupported operands
        for junk in (3, 'F', None, 2.5, (0, 1), [1], Shape_like()):
            check(o1.__mul__(junk) is NotImplemented, 'NotImplemented', junk)
            try:
                o1 * junk
            except TypeError:
                check(True)
            else:
                check(False, 'o * junk should raise TypeError', junk)

    # transforms
    small_positions = [(y, x) for y in (-2, 0, 3) for x in (-1, 0, 4)]
    small_areas = [(-6, 0, -3, 3), (0, 0, 0, 0), (-2, 1, 0, 3), (1, 2, -4, -1)]
    for (ty, tx), o1 in itertools.product(small_positions, ORIENTATIONS):
        k1 = K_OF[o1]
        t = Transform(Position(ty, tx), o1)

        for yx in positions:
            ry, rx = ref_rot(k1, yx)
            result = t * Position(*yx)
            check(type(result) is Position)
            check(result.yx == (ty + ry, tx + rx), 't*p', t, yx)
            check((Position(*yx) * t) == result)

        for a in small_areas:
            ymin, ymax, xmin, xmax = ref_rot_area(k1, a)
            result = t * Area((a[0], a[1]), (a[2], a[3]))
            check(type(result) is Area)
            check(
                area_tuple(result)
                == (ty + ymin, ty + ymax, tx + xmin, tx + xmax),
                't*a',
                t,
                a,
            )

        for o2 in ORIENTATIONS:
            check(t * o2 is ORIENTATIONS[(k1 + K_OF[o2]) % 4], 't*o')

        for (uy, ux), o2 in itertools.product(small_positions, ORIENTATIONS):
            u = Transform(Position(uy, ux), o2)
            result = t * u
            ry, rx = ref_rot(k1, (uy, ux))
            check(type(result) is Transform)
            check(result.position.yx == (ty + ry, tx + rx), 't*u position')
            check(result.orientation is ORIENTATIONS[(k1 + K_OF[o2]) % 4])
            # composition acts like successive application
            for yx in small_positions:
                check((t * u) * Position(*yx) == t * (u * Position(*yx)))

        # inverse transform
        inverse = -t
        check(type(inverse) is Transform)
        ny, nx = ref_rot(-k1, (ty, tx))
        check(inverse.position.yx == (-ny, -nx), 'neg position', t)
        check(inverse.orientation is ORIENTATIONS[(-k1) % 4], 'neg orientation')
        identity = Transform(Position(0, 0), Orientation.F)
        check(t * inverse == identity and inverse * t == identity)
        check(t.position.yx == (ty, tx) and t.orientation is o1, 'unchanged')

        for junk in (3, 'F', None, (0, 1)):
            check(t.__mul__(junk) is NotImplemented)


class Shape_like:
    """an object with y/x/ymin.. attributes which is neither Position nor Area"""

    y = x = ymin = ymax = xmin = xmax = 0


# --------------------------------------------------------------------------
# part 2: grids (rotation and slicing)
# --------------------------------------------------------------------------


def labelled_grid(height, width):
    """grid where every cell is a distinct python object"""
    objects = [[Floor() for _ in range(width)] for _ in range(height)]
    return Grid(objects), [list(row) for row in objects]


def check_grids():
    shapes = [(1, 1), (1, 4), (3, 1), (2, 3), (3, 3), (4, 5), (6, 2)]
    for height, width in shapes:
        grid, cells = labelled_grid(height, width)

        for o in ORIENTATIONS:
            k = K_OF[o]
            rotated = grid * o
            check(type(rotated) is Grid)
            check((o * grid).objects == rotated.objects, 'rmul')
            new_h, new_w = (height, width) if k % 2 == 0 else (width, height)
            check(rotated.shape.as_tuple == (new_h, new_w), 'shape', o)
            check(area_tuple(rotated.area) == (0, new_h - 1, 0, new_w - 1))
            # NOTE the grid product is a change of frame:  the object at
            # offset v from the centre ends up at offset rot(-k) v
            for y in range(height):
                for x in range(width):
                    # use doubled coordinates to stay in integers
                    vy, vx = 2 * y - (height - 1), 2 * x - (width - 1)
                    ry, rx = ref_rot(-k, (vy, vx))
                    ny, nx = (ry + new_h - 1) // 2, (rx + new_w - 1) // 2
                    check(
                        rotated.objects[ny][nx] is cells[y][x],
                        'rotated cell identity',
                        (height, width),
                        o,
                        (y, x),
                    )
                    check(rotated[Position(ny, nx)] is cells[y][x])
                    check(rotated[ny, nx] is cells[y][x])
            # the original is untouched
            check(all(a is b for ra, rb in zip(grid.objects, cells) for a, b in zip(ra, rb)))
            check([len(r) for r in grid.objects] == [width] * height)

        # forward rotation shares the row lists (long-standing behaviour)
        check((grid * Orientation.F).objects is grid.objects, 'F aliasing')
        for o in ORIENTATIONS[1:]:
            check((grid * o).objects is not grid.objects)

        for junk in (3, 'F', None, Position(0, 0), (0, 1), Color.RED):
            check(grid.__mul__(junk) is NotImplemented, 'grid NotImplemented')
            try:
                grid * junk
            except TypeError:
                check(True)
            else:
                check(False, 'grid * junk should raise')
        try:
            grid.__mul__([1, 2])  # unhashable operand
        except TypeError:
            check(True)
        else:
            check(False, 'unhashable operand should raise TypeError')

        # slicing
        spans_y = [(0, height - 1), (-2, 0), (-1, height), (height, height + 1), (-3, -2), (0, 0), (height - 1, height + 2)]
        spans_x = [(0, width - 1), (-2, 0), (-1, width), (width, width + 1), (-3, -2), (0, 0), (width - 1, width + 2)]
        for ys, xs in itertools.product(spans_y, spans_x):
            area = Area(ys, xs)
            sub = grid.subgrid(area)
            check(type(sub) is Grid)
            check(sub.shape.as_tuple == (ys[1] - ys[0] + 1, xs[1] - xs[0] + 1))
            hidden_ids = set()
            for i, y in enumerate(range(ys[0], ys[1] + 1)):
                check(len(sub.objects[i]) == xs[1] - xs[0] + 1)
                for j, x in enumerate(range(xs[0], xs[1] + 1)):
                    obj = sub.objects[i][j]
                    if 0 <= y < height and 0 <= x < width:
                        check(obj is cells[y][x], 'subgrid identity', ys, xs)
                    else:
                        check(type(obj) is Hidden, 'subgrid hidden', ys, xs)
                        check(id(obj) not in hidden_ids, 'fresh Hidden')
                        hidden_ids.add(id(obj))
            check(sub.objects is not grid.objects)
            check(all(sr is not gr for sr in sub.objects for gr in grid.objects))
            # writing into the slice does not write into the grid
            sub[0, 0] = Wall()
            check(all(a is b for ra, rb in zip(grid.objects, cells) for a, b in zip(ra, rb)))


# --------------------------------------------------------------------------
# part 3: observations against a cell-by-cell reference, and the C07 property
# --------------------------------------------------------------------------

HIDDEN = ('Hidden',)
DESCRIPTORS = (
    [('Floor',)] * 6
    + [('Wall',)] * 4
    + [('Exit',), ('MovingObstacle',)]
    + [('Door', s, c) for s in ('OPEN', 'CLOSED', 'LOCKED') for c in ('RED', 'BLUE')]
    + [('Key', 'GREEN'), ('Key', 'YELLOW'), ('Telepod', 'RED'), ('Beacon', 'BLUE')]
)


def make_object(desc):
    name = desc[0]
    if name == 'Floor':
        return Floor()
    if name == 'Wall':
        return Wall()
    if name == 'Exit':
        return Exit()
    if name == 'MovingObstacle':
        return MovingObstacle()
    if name == 'Hidden':
        return Hidden()
    if name == 'Door':
        return Door(Door.Status[desc[1]], Color[desc[2]])
    if name == 'Key':
        return Key(Color[desc[1]])
    if name == 'Telepod':
        return Telepod(Color[desc[1]])
    if name == 'Beacon':
        return Beacon(Color[desc[1]])
    raise ValueError(desc)


def describe(obj):
    name = type(obj).__name__
    if name == 'Door':
        return ('Door', obj.state.name, obj.color.name)
    if name in ('Key', 'Telepod', 'Beacon'):
        return (name, obj.color.name)
    return (name,)


def ref_blocks_vision(desc):
    if desc[0] in ('Wall', 'Hidden'):
        return True
    if desc[0] == 'Door':
        return desc[1] != 'OPEN'
    return False


def ref_view(cells, pose, area):
    """egocentric view, defined cell by cell (no slicing, no matrix rotation)"""
    height, width = len(cells), len(cells[0])
    ay, ax, k = pose
    ymin, ymax, xmin, xmax = area
    view = []
    for oy in range(ymin, ymax + 1):
        row = []
        for ox in range(xmin, xmax + 1):
            ry, rx = ref_rot(k, (oy, ox))
            wy, wx = ay + ry, ax + rx
            inside = 0 <= wy < height and 0 <= wx < width
            row.append(cells[wy][wx] if inside else HIDDEN)
        view.append(row)
    return view


def ref_visibility_partially_occluded(view, agent):
    h, w = len(view), len(view[0])
    if agent[0] != h - 1:
        raise NotImplementedError
    visible = [[False] * w for _ in range(h)]
    for dx in (-1, +1):
        seen = set()
        frontier = [agent]
        while frontier:
            y, x = frontier.pop()
            if not (0 <= y < h and 0 <= x < w) or (y, x) in seen:
                continue
            seen.add((y, x))
            if not ref_blocks_vision(view[y][x]):
                frontier += [(y - 1, x), (y, x + dx), (y - 1, x + dx)]
        for y, x in seen:
            visible[y][x] = True
    return visible


_RAYS = {}


def ref_rays(agent, h, w):
    key = agent, h, w
    if key not in _RAYS:
        if not (0 <= agent[0] < h and 0 <= agent[1] < w):
            raise ValueError('agent outside of the view')
        ys = np.linspace(0, h, num=h + 1) - 0.5 - agent[0]
        xs = np.linspace(0, w, num=w + 1) - 0.5 - agent[1]
        yys, xxs = np.meshgrid(ys, xs)
        angles = np.sort(np.arctan2(yys, xxs), axis=None)
        rays = []
        for angle in angles:
            dy, dx = 0.01 * math.sin(angle), 0.01 * math.cos(angle)
            ray, i = [], 0
            while True:
                y = round(float(agent[0]) + i * dy)
                x = round(float(agent[1]) + i * dx)
                if not (0 <= y < h and 0 <= x < w):
                    break
                if (y, x) not in ray:
                    ray.append((y, x))
                i += 1
            rays.append(ray)
        _RAYS[key] = rays
    return _RAYS[key]


def ref_visibility_raytracing(view, agent):
    h, w = len(view), len(view[0])
    lit = [[0] * w for _ in range(h)]
    for ray in ref_rays(agent, h, w):
        light = True
        for y, x in ray:
            lit[y][x] += int(light)
            light = light and not ref_blocks_vision(view[y][x])
    return [[n >= 1 for n in row] for row in lit]


def ref_observation(name, cells, pose, area):
    view = ref_view(cells, pose, area)
    agent = (-area[0], -area[2])
    if name == 'fully_transparent':
        visible = [[True] * len(view[0]) for _ in view]
    elif name == 'partially_occluded':
        visible = ref_visibility_partially_occluded(view, agent)
    elif name == 'raytracing':
        visible = ref_visibility_raytracing(view, agent)
    else:
        raise ValueError(name)
    masked = [
        [cell if seen else HIDDEN for cell, seen in zip(row, seen_row)]
        for row, seen_row in zip(view, visible)
    ]
    return masked, agent


def ref_rotate_world(cells, pose, k):
    """rotate grid and agent pose together by k clockwise quarter turns"""
    ay, ax, ak = pose
    for _ in range(k % 4):
        height = len(cells)
        cells = [list(row) for row in zip(*cells[::-1])]
        # (y, x) -> (x, height - 1 - y)
        ay, ax = ax, height - 1 - ay
        ak = (ak + 1) % 4
    return cells, (ay, ax, ak)


def lib_state(cells, pose, held):
    grid = Grid([[make_object(desc) for desc in row] for row in cells])
    agent = Agent(
        Position(pose[0], pose[1]),
        ORIENTATIONS[pose[2]],
        None if held is None else make_object(held),
    )
    return State(grid, agent)


def outcome(function, *args, **kwargs):
    try:
        return 'ok', function(*args, **kwargs)
    except (NotImplementedError, ValueError, IndexError) as error:
        return type(error).__name__, None


AREAS = [
    (-6, 0, -3, 3),  # the library's usual 7x7 view
    (-2, 0, -1, 1),
    (0, 0, 0, 0),
    (-1, 1, -1, 1),
    (-3, 0, -1, 2),  # asymmetric
    (-1, 0, -3, 0),
    (-2, 1, 0, 3),
    (-3, -1, -1, 1),  # does not contain the agent (in front of it)
    (-2, 0, 1, 2),  # does not contain the agent (to its right)
    (1, 2, -1, 0),  # behind the agent
]

OBSERVATION_NAMES = ['fully_transparent', 'partially_occluded', 'raytracing']


def check_observations():
    rnd = random.Random(20240907)
    shapes = [(1, 1), (1, 3), (2, 2), (3, 2), (3, 4), (5, 5), (4, 7)]
    n_states = 0
    for height, width in shapes:
        for _ in range(4):
            cells = [
                [rnd.choice(DESCRIPTORS) for _ in range(width)]
                for _ in range(height)
            ]
            held = rnd.choice([None, ('Key', 'RED'), None, ('Key', 'BLUE')])
            poses = [
                (y, x, k)
                for y in range(height)
                for x in range(width)
                for k in range(4)
            ]
            if len(poses) > 40:
                poses = rnd.sample(poses, 40)

            for pose in poses:
                n_states += 1
                worlds = [ref_rotate_world(cells, pose, k) for k in range(4)]
                states = [lib_state(c, p, held) for c, p in worlds]
                snapshots = [
                    [[describe(o) for o in row] for row in s.grid.objects]
                    for s in states
                ]

                for area, name in itertools.product(AREAS, OBSERVATION_NAMES):
                    lib_area = Area((area[0], area[1]), (area[2], area[3]))
                    function = obs_fs.factory(name, area=lib_area)
                    expected = outcome(ref_observation, name, cells, pose, area)

                    observations = []
                    for k, state in enumerate(states):
                        status, observation = outcome(function, state)
                        check(status == expected[0], 'status', name, area, pose, k, status, expected[0])
                        observations.append(observation)
                        if status != 'ok':
                            continue

                        view, agent = expected[1]
                        check(type(observation) is Observation)
                        got = [[describe(o) for o in row] for row in observation.grid.objects]
                        check(got == view, 'observation', name, area, pose, k, got, view)
                        check(observation.grid == Grid([[make_object(d) for d in row] for row in view]))
                        check(observation.agent.position.yx == agent)
                        check(observation.agent.orientation is Orientation.F)
                        check(observation.agent.grid_object == state.agent.grid_object)
                        check(observation.grid.shape.as_tuple == (area[1] - area[0] + 1, area[3] - area[2] + 1))

                    # C07: the four rotated worlds give EQUAL observations
                    if expected[0] == 'ok':
                        for observation in observations[1:]:
                            check(observation.grid == observations[0].grid, 'C07 grid', name, area, pose)
                            check(observation.agent == observations[0].agent, 'C07 agent', name, area, pose)
                            check(observation == observations[0], 'C07', name, area, pose)
                            check(hash(observation.grid) == hash(observations[0].grid))

                # observing never modifies the state
                for state, snapshot, (_, p) in zip(states, snapshots, worlds):
                    check([[describe(o) for o in row] for row in state.grid.objects] == snapshot, 'state modified')
                    check(state.agent.position.yx == p[:2] and state.agent.orientation is ORIENTATIONS[p[2]])
    return n_states


def main():
    check_algebra()
    n_algebra = CHECKS
    check_grids()
    n_grids = CHECKS - n_algebra
    n_states = check_observations()
    print(
        f'OK: {n_algebra} algebra checks, {n_grids} grid checks, '
        f'{CHECKS - n_algebra - n_grids} observation checks over {n_states} states x 4 turns '
        f'x {len(AREAS)} areas x {len(OBSERVATION_NAMES)} observation functions'
    )


if __name__ == '__main__':
    main()
