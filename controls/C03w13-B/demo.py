"""Demo for change B (visibility_functions: shared ray-counting helper).

Run from the worktree root:  /venv/bin/python _seed/B/demo.py

Exits 0 on the pristine tree and with the patch applied.  It checks that the
`raytracing` and `stochastic_raytracing` visibility functions

* return exactly (values, dtype, shape, rng consumption) what the reference
  implementations embedded below (the pre-change text, over *uncached* rays)
  return, on non-square / degenerate grids, every origin including corners and
  borders, doors in every status, boxes, every threshold convention;
* never modify the grid they look at, nor the cached rays they share;
* are history-independent: the same question after other calls (other grids of
  the same area with different contents, the same grid with a door toggled
  back and forth, other environments, re-seeding) gets an equal answer, and
  returned arrays are fresh;

and that the functional interface built on them (`from_visibility`-based
observation functions and `GridWorld.functional_step/_observation`) stays pure,
alias-free and repeatable for every heading and asymmetric view areas.
"""
import copy
import itertools as itt
import os
import sys
import warnings
from functools import partial

import numpy as np

# the worktree root (two levels above this file) provides `gym_gridverse`
sys.path.insert(
    0, os.path.dirname(os.path.dirname(os.path.dirname(os.path.abspath(__file__))))
)

from gym_gridverse.action import Action  # noqa: E402
from gym_gridverse.agent import Agent  # noqa: E402
from gym_gridverse.envs import observation_functions as observation_fs  # noqa: E402
from gym_gridverse.envs import reward_functions as reward_fs  # noqa: E402
from gym_gridverse.envs import terminating_functions as terminating_fs  # noqa: E402
from gym_gridverse.envs import transition_functions as transition_fs  # noqa: E402
from gym_gridverse.envs import visibility_functions as visibility_fs  # noqa: E402
from gym_gridverse.envs.gridworld import GridWorld  # noqa: E402
from gym_gridverse.geometry import Area, Orientation, Position, Shape  # noqa: E402
from gym_gridverse.grid import Grid  # noqa: E402
from gym_gridverse.grid_object import (  # noqa: E402
    Beacon,
    Box,
    Color,
    Door,
    Exit,
    Floor,
    Hidden,
    Key,
    MovingObstacle,
    NoneGridObject,
    Telepod,
    Wall,
)
from gym_gridverse.rng import make_rng, reset_gv_rng  # noqa: E402
from gym_gridverse.spaces import ActionSpace, ObservationSpace, StateSpace  # noqa: E402
from gym_gridverse.state import State  # noqa: E402
from gym_gridverse.utils.fast_copy import fast_copy  # noqa: E402
from gym_gridverse.utils.raytracing import (  # noqa: E402
    cached_compute_rays_fancy,
    compute_rays_fancy,
)

# 0 / 0 for cells no ray goes through (same warnings before and after)
warnings.filterwarnings('ignore', category=RuntimeWarning)

CHECKS = 0


def check(condition, message):
    global CHECKS
    CHECKS += 1
    if not condition:
        print('FAIL:', message)
        sys.exit(1)


# ---------------------------------------------------------------------------
# structural fingerprints


def fp_object(obj):
    extra = ()
    if isinstance(obj, Door):
        extra = (obj.state.name,)
    if isinstance(obj, Box):
        extra = (fp_object(obj.content),)
    return (type(obj).__name__, obj.color.name, obj.state_index) + extra


def fp_grid(grid):
    return tuple(tuple(fp_object(obj) for obj in row) for row in grid.objects)


def fp_agent(agent):
    return (
        agent.position.y,
        agent.position.x,
        agent.orientation.name,
        fp_object(agent.grid_object),
    )


def fp_state(state):
    return (fp_grid(state.grid), fp_agent(state.agent))


fp_observation = fp_state


def identity_layout(grid):
    return (
        id(grid.objects),
        tuple(id(row) for row in grid.objects),
        tuple(tuple(id(obj) for obj in row) for row in grid.objects),
    )


def _object_ids(obj, ids):
    ids.add(id(obj))
    if isinstance(obj, Box):
        _object_ids(obj.content, ids)


def mutable_ids(state):
    ids = {
        id(state.grid),
        id(state.grid.objects),
        id(state.agent),
        id(state.agent.transform),
    }
    for row in state.grid.objects:
        ids.add(id(row))
        for obj in row:
            _object_ids(obj, ids)
    _object_ids(state.agent.grid_object, ids)
    return ids


def container_ids(thing):
    """the containers of a state / observation (not the cell objects)"""
    ids = {id(thing.grid), id(thing.grid.objects), id(thing.agent)}
    ids.add(id(thing.agent.transform))
    ids.update(id(row) for row in thing.grid.objects)
    return ids


# ---------------------------------------------------------------------------
# reference implementations: the text of the functions before the change,
# reading freshly computed (uncached) rays


_reference_rays_memo = {}


def reference_rays(position, area):
    # private memo of the demo, only to keep the demo fast;  compared below
    # with what the library's cache hands out
    key = (position, area)
    if key not in _reference_rays_memo:
        _reference_rays_memo[key] = compute_rays_fancy(position, area)
    return copy.deepcopy(_reference_rays_memo[key])


def reference_counts(grid, position):
    rays = reference_rays(position, grid.area)
    counts_num = np.zeros((grid.shape.height, grid.shape.width), dtype=int)
    counts_den = np.zeros((grid.shape.height, grid.shape.width), dtype=int)

    for ray in rays:
        light = True
        for pos in ray:
            counts_num[pos.y, pos.x] += int(light)
            counts_den[pos.y, pos.x] += 1
            light = light and not grid[pos].blocks_vision

    return counts_num, counts_den


def reference_raytracing(
    grid, position, *, absolute_counts=True, threshold=1, rng=None
):
    counts_num, counts_den = reference_counts(grid, position)
    visibility = (
        counts_num >= threshold
        if absolute_counts
        else (counts_num / counts_den) >= threshold
    )
    return visibility


def reference_stochastic_raytracing(grid, position, *, rng):
    counts_num, counts_den = reference_counts(grid, position)
    probs = np.nan_to_num(counts_num / counts_den)
    visibility = rng.random(probs.shape) < probs
    return visibility


# ---------------------------------------------------------------------------
# grids

CELL_FACTORIES = [
    Floor,
    Wall,
    Floor,
    lambda: Door(Door.Status.OPEN, Color.RED),
    Floor,
    lambda: Door(Door.Status.CLOSED, Color.NONE),
    lambda: Key(Color.BLUE),
    lambda: Door(Door.Status.LOCKED, Color.GREEN),
    Floor,
    lambda: Box(Box(Key(Color.YELLOW))),
    MovingObstacle,
    Hidden,
    lambda: Telepod(Color.RED),
    Floor,
    Exit,
    lambda: Beacon(Color.GREEN),
    Wall,
]

SHAPES = [(1, 1), (1, 5), (4, 1), (2, 3), (3, 6), (5, 4), (7, 7)]


def make_grid(shape, offset, only=None):
    height, width = shape
    factories = itt.islice(itt.cycle(CELL_FACTORIES), offset, None)
    if only is not None:
        factories = itt.repeat(only)
    return Grid([[next(factories)() for _ in range(width)] for _ in range(height)])


def grids():
    for shape in SHAPES:
        for offset in (0, 3, 7):
            yield make_grid(shape, offset)
        yield make_grid(shape, 0, only=Floor)
        yield make_grid(shape, 0, only=Wall)
        yield make_grid(shape, 0, only=lambda: Door(Door.Status.CLOSED, Color.RED))


def toggle_doors(grid):
    """opens what is shut and shuts what is open; returns how to undo it"""
    undo = []
    for row in grid.objects:
        for obj in row:
            if isinstance(obj, Door):
                undo.append((obj, obj.state))
                obj.state = (
                    Door.Status.CLOSED if obj.is_open else Door.Status.OPEN
                )
    return undo


def restore_doors(undo):
    for door, status in undo:
        door.state = status


def same_array(a, b):
    return (
        isinstance(a, np.ndarray)
        and isinstance(b, np.ndarray)
        and a.dtype == b.dtype
        and a.shape == b.shape
        and np.array_equal(a, b)
    )


THRESHOLD_KWARGS = [
    {},
    {'threshold': 0},
    {'threshold': 3},
    {'threshold': 10**6},
    {'absolute_counts': False, 'threshold': 0.0},
    {'absolute_counts': False, 'threshold': 0.3},
    {'absolute_counts': False, 'threshold': 1},
    {'absolute_counts': False, 'threshold': 1.0},
]


def part_visibility():
    n = 0
    raytracing = visibility_fs.raytracing
    stochastic = visibility_fs.stochastic_raytracing
    check(
        visibility_fs.visibility_function_registry['raytracing'] is raytracing
        and visibility_fs.visibility_function_registry['stochastic_raytracing']
        is stochastic,
        'registry entries',
    )
    for grid in grids():
        for position in grid.area.positions():
            n += 1
            fp0 = fp_grid(grid)
            layout0 = identity_layout(grid)
            hash0 = hash(grid)
            shape0, area0 = grid.shape, grid.area

            answers = []
            for kwargs in THRESHOLD_KWARGS:
                got = raytracing(grid, position, **kwargs)
                want = reference_raytracing(grid, position, **kwargs)
                check(
                    same_array(got, want),
                    f'raytracing {kwargs} at {position} on {fp0}:\n{got}\n{want}',
                )
                check(got.dtype == bool, 'dtype')
                answers.append(got)

            # with and without an rng argument it is the same function
            check(
                same_array(raytracing(grid, position, rng=make_rng(3)), answers[0]),
                'rng argument matters',
            )

            # stochastic: same values and same consumption of the generator
            for seed in (0, 11):
                rng_got, rng_want = make_rng(seed), make_rng(seed)
                got = stochastic(grid, position, rng=rng_got)
                want = reference_stochastic_raytracing(
                    grid, position, rng=rng_want
                )
                check(same_array(got, want), f'stochastic at {position} on {fp0}')
                check(
                    rng_got.bit_generator.state == rng_want.bit_generator.state,
                    'generator consumed differently',
                )
            # library-level generator when none is given
            reset_gv_rng(5)
            got = stochastic(grid, position)
            want = reference_stochastic_raytracing(
                grid, position, rng=make_rng(5)
            )
            check(same_array(got, want), 'stochastic with library rng')

            # the grid was only looked at
            check(fp_grid(grid) == fp0, 'grid modified')
            check(identity_layout(grid) == layout0, 'grid rewired')
            check(hash(grid) == hash0, 'grid hash changed')
            check(grid.shape is shape0 and grid.area is area0, 'shape/area')

            # the shared cached rays were only read
            check(
                cached_compute_rays_fancy(position, grid.area)
                == reference_rays(position, grid.area),
                'cached rays differ from fresh rays',
            )

            # --- history: other grids over the same area, other contents
            for other in (
                make_grid(grid.shape.as_tuple, 5),
                make_grid(grid.shape.as_tuple, 0, only=Wall),
                make_grid(grid.shape.as_tuple, 0, only=Floor),
            ):
                raytracing(other, position)
                stochastic(other, position, rng=make_rng(1))
            # returned arrays are fresh: scribbling on one changes nothing
            answers[0][...] = ~answers[0]
            again = raytracing(grid, position)
            check(
                same_array(again, reference_raytracing(grid, position)),
                'answer depends on history',
            )
            check(not np.shares_memory(again, answers[0]), 'shared array')

            # --- the same grid, changed and changed back: no stale memory
            undo = toggle_doors(grid)
            if undo:
                check(
                    same_array(
                        raytracing(grid, position),
                        reference_raytracing(grid, position),
                    ),
                    'stale opacity after toggling doors',
                )
                restore_doors(undo)
                check(fp_grid(grid) == fp0, 'demo restores the doors')
                check(
                    same_array(raytracing(grid, position), again),
                    'answer not restored after toggling back',
                )

            # copies of the grid get the same answer
            check(
                same_array(raytracing(fast_copy(grid), position), again),
                'copy answers differently',
            )

    # an origin outside of the grid is refused, before and after
    grid = make_grid((2, 3), 0)
    for function in (raytracing, partial(stochastic, rng=make_rng(0))):
        for position in (Position(-1, 0), Position(0, 3), Position(2, 0)):
            try:
                function(grid, position)
            except ValueError:
                check(True, '')
            else:
                check(False, f'origin {position} accepted')
    return n


# ---------------------------------------------------------------------------
# observation functions and GridWorld

OBJECT_TYPES = [
    Floor,
    Wall,
    Exit,
    Door,
    Key,
    MovingObstacle,
    Box,
    Telepod,
    Beacon,
]

VIEW_AREAS = [
    Area((-3, 0), (-1, 1)),
    Area((-4, 1), (-1, 3)),  # asymmetric, agent not on the border
    Area((-2, 2), (-3, 1)),
    Area((0, 0), (0, 0)),  # sees its own cell only
    Area((-6, 0), (-3, 3)),  # 7x7, the shipped default
]

HELD_FACTORIES = [
    lambda: None,
    lambda: Key(Color.NONE),
    lambda: Key(Color.RED),
    lambda: Box(Box(Key(Color.GREEN))),
]

STATE_CELL_FACTORIES = [f for f in CELL_FACTORIES if f is not Hidden]


def make_state(shape, position, orientation, held_factory, offset=0):
    height, width = shape
    factories = itt.islice(itt.cycle(STATE_CELL_FACTORIES), offset, None)
    grid = Grid([[next(factories)() for _ in range(width)] for _ in range(height)])
    grid[position] = Floor()
    return State(grid, Agent(position, orientation, held_factory()))


def interesting_positions(height, width):
    ys = sorted({0, height // 2, height - 1})
    xs = sorted({0, width // 2, width - 1})
    return [Position(y, x) for y in ys for x in xs]


def state_makers():
    for shape in SHAPES:
        for i, position in enumerate(interesting_positions(*shape)):
            for orientation in Orientation:
                held_factory = HELD_FACTORIES[
                    (i + orientation.value) % len(HELD_FACTORIES)
                ]
                yield partial(
                    make_state, shape, position, orientation, held_factory, i
                )


def part_observation():
    n = 0
    reference_observation = partial(
        observation_fs.from_visibility,
        visibility_function=reference_raytracing,
    )
    reference_stochastic_observation = partial(
        observation_fs.from_visibility,
        visibility_function=reference_stochastic_raytracing,
    )
    for make in state_makers():
        for area in VIEW_AREAS:
            n += 1
            state = make()
            fp0 = fp_state(state)
            ids0 = mutable_ids(state)
            hash0 = hash(state)

            observation = observation_fs.raytracing(state, area=area)
            check(fp_state(state) == fp0, 'observation modified the state')
            check(mutable_ids(state) == ids0, 'observation rewired the state')
            check(hash(state) == hash0, 'state hash changed')
            check(
                not (container_ids(observation) & ids0),
                'observation shares a container with the state',
            )
            check(
                observation.grid.shape == Shape(area.height, area.width),
                'observation shape',
            )
            want = reference_observation(copy.deepcopy(state), area=area)
            check(
                fp_observation(observation) == fp_observation(want),
                f'observation differs from reference {fp0} {area}',
            )

            rng_got, rng_want = make_rng(n), make_rng(n)
            got = observation_fs.stochastic_raytracing(
                state, area=area, rng=rng_got
            )
            want = reference_stochastic_observation(
                copy.deepcopy(state), area=area, rng=rng_want
            )
            check(
                fp_observation(got) == fp_observation(want),
                'stochastic observation differs from reference',
            )
            check(
                rng_got.bit_generator.state == rng_want.bit_generator.state,
                'generator consumed differently',
            )
            check(fp_state(state) == fp0, 'stochastic observation modified')

            # intervening questions about other states with the same view
            other = make()
            toggle_doors(other.grid)
            observation_fs.raytracing(other, area=area)
            observation_fs.partially_occluded(
                other, area=Area((-2, 0), (-1, 1))
            )
            again = observation_fs.raytracing(state, area=area)
            check(
                fp_observation(again) == fp_observation(observation),
                'observation not repeatable',
            )
            check(again == observation, 'observations not equal')
            check(hash(again) == hash(observation), 'observation hash')
            check(
                not (container_ids(again) & container_ids(observation)),
                'two observations share a container',
            )

            # writing into an observation grid does not reach the state
            for position in observation.grid.area.positions():
                observation.grid[position] = Wall()
            observation.agent.position = Position(0, 0)
            check(fp_state(state) == fp0, 'state follows its observation')
            check(
                fp_observation(again)
                == fp_observation(observation_fs.raytracing(state, area=area)),
                'later observation follows an earlier one',
            )
    return n


def make_env(shape, observation_name, area, seed):
    transition_function = partial(
        transition_fs.chain,
        transition_functions=[
            transition_fs.move_agent,
            transition_fs.turn_agent,
            transition_fs.actuate_door,
            transition_fs.actuate_box,
            transition_fs.pickndrop,
            transition_fs.move_obstacles,
            transition_fs.teleport,
        ],
    )
    reward_function = partial(
        reward_fs.reduce_sum,
        reward_functions=[
            partial(reward_fs.living_reward, reward=-0.25),
            partial(reward_fs.reach_exit, reward_on=5.0),
            partial(reward_fs.bump_into_wall, reward=-0.5),
            partial(reward_fs.actuate_door, reward_open=2.0),
            partial(reward_fs.pickndrop, object_type=Key, reward_pick=0.75),
        ],
    )
    termination_function = partial(
        terminating_fs.reduce_any,
        terminating_functions=[
            terminating_fs.reach_exit,
            terminating_fs.bump_moving_obstacle,
        ],
    )
    env = GridWorld(
        StateSpace(Shape(*shape), OBJECT_TYPES, list(Color)),
        ActionSpace(list(Action)),
        ObservationSpace(
            Shape(area.height, area.width), OBJECT_TYPES, list(Color)
        ),
        lambda *, rng=None: make_state(
            shape, Position(0, 0), Orientation.R, lambda: None
        ),
        transition_function,
        partial(
            observation_fs.observation_function_registry[observation_name],
            area=area,
        ),
        reward_function,
        termination_function,
    )
    env.set_seed(seed)
    return env


def part_gridworld():
    n = 0
    makers = list(state_makers())
    for shape in SHAPES:
        shape_makers = [make for make in makers if make.args[0] == shape]
        for area_index, area in enumerate(VIEW_AREAS[:3]):
            env = make_env(shape, 'raytracing', area, 3)
            env_stochastic = make_env(shape, 'stochastic_raytracing', area, 3)
            env_other = make_env(shape, 'raytracing', VIEW_AREAS[4], 99)
            for index, make in enumerate(shape_makers):
                if index % 3 != area_index:
                    continue
                for action in Action:
                    n += 1
                    state = make()
                    fp0 = fp_state(state)
                    ids0 = mutable_ids(state)
                    seed = 10 * index + action.value

                    env.set_seed(seed)
                    env_stochastic.set_seed(seed)
                    observation = env.functional_observation(state)
                    s_observation = env_stochastic.functional_observation(state)
                    next_state, reward, done = env.functional_step(state, action)
                    next_observation = env.functional_observation(next_state)
                    check(fp_state(state) == fp0, 'input modified')
                    check(mutable_ids(state) == ids0, 'input rewired')
                    check(
                        not (mutable_ids(next_state) & ids0),
                        'next state aliases input',
                    )
                    fp_next = fp_state(next_state)

                    # expected observation, from the reference visibility
                    want = observation_fs.from_visibility(
                        copy.deepcopy(state),
                        area=area,
                        visibility_function=reference_raytracing,
                    )
                    check(
                        fp_observation(observation) == fp_observation(want),
                        'functional_observation differs from reference',
                    )
                    want = observation_fs.from_visibility(
                        copy.deepcopy(state),
                        area=area,
                        visibility_function=reference_stochastic_raytracing,
                        rng=make_rng(seed),
                    )
                    check(
                        fp_observation(s_observation) == fp_observation(want),
                        'stochastic functional_observation differs',
                    )

                    # intervening calls on other environments / states
                    env_other.reset()
                    env_other.observation
                    env_other.step(Action.ACTUATE)
                    env_other.observation
                    env_other.functional_observation(next_state)
                    env_stochastic.functional_observation(next_state)
                    env.functional_step(next_state, Action.ACTUATE)

                    env.set_seed(seed)
                    env_stochastic.set_seed(seed)
                    check(
                        fp_observation(env.functional_observation(state))
                        == fp_observation(observation),
                        'observation not repeatable',
                    )
                    check(
                        fp_observation(
                            env_stochastic.functional_observation(state)
                        )
                        == fp_observation(s_observation),
                        'stochastic observation not repeatable after re-seeding',
                    )
                    again_state, again_reward, again_done = env.functional_step(
                        state, action
                    )
                    check(fp_state(again_state) == fp_next, 'step not repeatable')
                    check(
                        again_state == next_state
                        and hash(again_state) == hash(next_state),
                        'repeat not equal',
                    )
                    check(
                        (again_reward, again_done) == (reward, done),
                        'reward/termination not repeatable',
                    )
                    check(
                        fp_observation(env.functional_observation(again_state))
                        == fp_observation(next_observation),
                        'next observation not repeatable',
                    )
                    check(fp_state(state) == fp0, 'input modified later')
                    check(fp_state(next_state) == fp_next, 'next modified later')

                    clone = fast_copy(state)
                    check(
                        clone == state and hash(clone) == hash(state),
                        'copy differs',
                    )
                    check(
                        fp_observation(env.functional_observation(clone))
                        == fp_observation(observation),
                        'copy observed differently',
                    )
    return n


def main():
    n1 = part_visibility()
    n2 = part_observation()
    n3 = part_gridworld()
    print(
        f'OK: {n1} visibility scenarios, {n2} observation scenarios, '
        f'{n3} gridworld scenarios, {CHECKS} checks'
    )


if __name__ == '__main__':
    main()
