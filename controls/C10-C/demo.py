# ---------------------------------------------------------------------------
# Independent reference model (does NOT call any library logic: it only reads
# plain attributes of library objects -- type name, `.state`, `.color`,
# `.content`, agent position/orientation/held object -- and re-implements the
# dynamics on plain tuples).
# ---------------------------------------------------------------------------
import os
import sys

sys.path.insert(0, os.getcwd())

import numpy as np  # noqa: E402
import numpy.random as rnd  # noqa: E402

from gym_gridverse.action import Action  # noqa: E402
from gym_gridverse.agent import Agent  # noqa: E402
from gym_gridverse.envs import transition_functions as tf  # noqa: E402
from gym_gridverse.geometry import Orientation, Position, Shape  # noqa: E402
from gym_gridverse.grid import Grid  # noqa: E402
from gym_gridverse.grid_object import (  # noqa: E402
    Beacon,
    Box,
    Color,
    Door,
    Exit,
    Floor,
    Key,
    MovingObstacle,
    NoneGridObject,
    Telepod,
    Wall,
)
from gym_gridverse.state import State  # noqa: E402

COLORS = list(Color)
STATUSES = list(Door.Status)
ACTIONS = list(Action)
ORIENTATIONS = [
    Orientation.FORWARD,
    Orientation.RIGHT,
    Orientation.BACKWARD,
    Orientation.LEFT,
]

# clockwise index of an orientation, and the (dy, dx) it points to
ORI_INDEX = {'FORWARD': 0, 'RIGHT': 1, 'BACKWARD': 2, 'LEFT': 3}
ORI_DELTA = [(-1, 0), (0, 1), (1, 0), (0, -1)]
MOVE_INDEX = {
    'MOVE_FORWARD': 0,
    'MOVE_RIGHT': 1,
    'MOVE_BACKWARD': 2,
    'MOVE_LEFT': 3,
}


def enc(obj):
    """library grid-object -> plain tuple"""
    name = type(obj).__name__
    if name == 'Door':
        return ('Door', obj.state.name, obj.color.name)
    if name == 'Box':
        return ('Box', enc(obj.content))
    if name in ('Key', 'Exit', 'Telepod', 'Beacon'):
        return (name, obj.color.name)
    if name in ('Floor', 'Wall', 'MovingObstacle', 'NoneGridObject', 'Hidden'):
        return (name,)
    raise AssertionError(f'unexpected object {obj!r}')


def snapshot(state):
    """library state -> plain model state (cells, agent)"""
    height, width = state.grid.shape.height, state.grid.shape.width
    cells = tuple(
        tuple(enc(state.grid.objects[y][x]) for x in range(width))
        for y in range(height)
    )
    agent = (
        int(state.agent.position.y),
        int(state.agent.position.x),
        ORI_INDEX[state.agent.orientation.name],
        enc(state.agent.grid_object),
    )
    return cells, agent


def _set(cells, y, x, value):
    rows = [list(row) for row in cells]
    rows[y][x] = value
    return tuple(tuple(row) for row in rows)


def model_front(cells, agent):
    y, x, o, _ = agent
    dy, dx = ORI_DELTA[o]
    fy, fx = y + dy, x + dx
    if 0 <= fy < len(cells) and 0 <= fx < len(cells[0]):
        return fy, fx
    return None


def model_blocks(cell):
    if cell[0] in ('Wall', 'Box'):
        return True
    if cell[0] == 'Door':
        return cell[1] != 'OPEN'
    return False


def model_actuate_door(cells, agent, action_name):
    if action_name != 'ACTUATE':
        return cells, agent
    front = model_front(cells, agent)
    if front is None:
        return cells, agent
    fy, fx = front
    cell = cells[fy][fx]
    if cell[0] != 'Door':
        return cells, agent
    _, status, color = cell
    held = agent[3]
    if status == 'CLOSED':
        status = 'OPEN'
    elif status == 'LOCKED' and held == ('Key', color):
        status = 'OPEN'
    return _set(cells, fy, fx, ('Door', status, color)), agent


def model_actuate_box(cells, agent, action_name):
    if action_name != 'ACTUATE':
        return cells, agent
    front = model_front(cells, agent)
    if front is None:
        return cells, agent
    fy, fx = front
    cell = cells[fy][fx]
    if cell[0] != 'Box':
        return cells, agent
    return _set(cells, fy, fx, cell[1]), agent


def model_pickndrop(cells, agent, action_name):
    if action_name != 'PICK_N_DROP':
        return cells, agent
    front = model_front(cells, agent)
    if front is None:
        return cells, agent
    fy, fx = front
    cell = cells[fy][fx]
    y, x, o, held = agent
    if cell[0] == 'Key':
        # pick up (swap if already holding something)
        new_cell = ('Floor',) if held == ('NoneGridObject',) else held
        return _set(cells, fy, fx, new_cell), (y, x, o, cell)
    if cell[0] == 'Floor':
        # drop (nothing happens when holding nothing: floor stays floor)
        new_cell = ('Floor',) if held == ('NoneGridObject',) else held
        return _set(cells, fy, fx, new_cell), (y, x, o, ('NoneGridObject',))
    return cells, agent


def model_move(cells, agent, action_name):
    if action_name not in MOVE_INDEX:
        return cells, agent
    y, x, o, held = agent
    dy, dx = ORI_DELTA[(o + MOVE_INDEX[action_name]) % 4]
    ny, nx = y + dy, x + dx
    if not (0 <= ny < len(cells) and 0 <= nx < len(cells[0])):
        return cells, agent
    if model_blocks(cells[ny][nx]):
        return cells, agent
    return cells, (ny, nx, o, held)


def model_turn(cells, agent, action_name):
    y, x, o, held = agent
    if action_name == 'TURN_LEFT':
        return cells, (y, x, (o + 3) % 4, held)
    if action_name == 'TURN_RIGHT':
        return cells, (y, x, (o + 1) % 4, held)
    return cells, agent


MODEL = {
    'move_agent': model_move,
    'turn_agent': model_turn,
    'actuate_door': model_actuate_door,
    'actuate_box': model_actuate_box,
    'pickndrop': model_pickndrop,
}


def model_chain(names, cells, agent, action_name):
    for name in names:
        cells, agent = MODEL[name](cells, agent, action_name)
    return cells, agent


def all_objects(state):
    """identity map of every object reachable from the state"""
    objs = []
    for row in state.grid.objects:
        for obj in row:
            objs.append(obj)
            while isinstance(obj, Box):
                obj = obj.content
                objs.append(obj)
    objs.append(state.agent.grid_object)
    return objs


def held_candidates():
    """none, a key of each colour, and other (non-key) objects of each colour"""
    out = [lambda: None, lambda: NoneGridObject()]
    for color in COLORS:
        out.append(lambda color=color: Key(color))
        out.append(lambda color=color: Telepod(color))
        out.append(lambda color=color: Beacon(color))
        out.append(lambda color=color: Exit(color))
        out.append(lambda color=color: Door(Door.Status.OPEN, color))
    out.append(lambda: Floor())
    out.append(lambda: Wall())
    out.append(lambda: MovingObstacle())
    out.append(lambda: Box(Key(Color.RED)))
    return out


def rng_state(rng):
    return repr(rng.bit_generator.state)


# ---------------------------------------------------------------------------
# Driver C: keydoor reset function, Agent.front, and the reachable states of
# the key-door environments
# ---------------------------------------------------------------------------
from gym_gridverse.envs import reset_functions as rf  # noqa: E402
import gym_gridverse.rng as gv_rng  # noqa: E402

# order of `list(Orientation)` (definition order of the enum)
ORIENTATION_NAMES = ['FORWARD', 'BACKWARD', 'LEFT', 'RIGHT']


def make_state(height, width, placements, agent_yx, orientation, held):
    grid = Grid.from_shape((height, width))
    for (y, x), obj in placements.items():
        grid[y, x] = obj
    agent = Agent(Position(*agent_yx), orientation, held)
    return State(grid, agent)


def model_keydoor(height, width, rng):
    """independent re-implementation of the keydoor layout, same draws"""
    cells = [
        [
            ('Wall',)
            if y in (0, height - 1) or x in (0, width - 1)
            else ('Floor',)
            for x in range(width)
        ]
        for y in range(height)
    ]
    cells[height - 2][width - 2] = ('Exit', 'NONE')

    x_wall = int(rng.integers(2, width - 2))  # 2 .. width-3 inclusive
    for y in range(1, height - 1):
        cells[y][x_wall] = ('Wall',)
    y_door = 1 + int(rng.choice(height - 2))
    cells[y_door][x_wall] = ('Door', 'LOCKED', 'YELLOW')

    y_key = int(rng.integers(1, height - 1))
    x_key = int(rng.integers(1, x_wall))
    cells[y_key][x_key] = ('Key', 'YELLOW')

    y_agent = int(rng.integers(1, height - 1))
    x_agent = int(rng.integers(1, x_wall))
    orientation = ORIENTATION_NAMES[int(rng.choice(4))]
    agent = (y_agent, x_agent, ORI_INDEX[orientation], ('NoneGridObject',))
    return tuple(tuple(row) for row in cells), agent


def keydoor_reset_layouts():
    """keydoor reset vs. independent model, over shapes and seeds"""
    assert rf.reset_function_registry['keydoor'] is rf.keydoor
    count = 0
    for height in range(4, 10):
        for width in range(5, 11):
            shape = Shape(height, width)
            via_factory = rf.factory('keydoor', shape=shape)
            for seed in range(40):
                rng = rnd.default_rng(seed)
                model_rng = rnd.default_rng(seed)
                if seed % 2:
                    state = via_factory(rng=rng)
                else:
                    state = rf.keydoor(shape, rng=rng)
                expected = model_keydoor(height, width, model_rng)
                assert snapshot(state) == expected, (shape, seed)
                # same number (and kind) of random draws
                assert rng_state(rng) == rng_state(model_rng), (shape, seed)
                assert rng.random() == model_rng.random()

                # structural facts about the initial state
                cells, agent = expected
                flat = [cell for row in cells for cell in row]
                assert flat.count(('Door', 'LOCKED', 'YELLOW')) == 1
                assert sum(cell[0] == 'Door' for cell in flat) == 1
                assert flat.count(('Key', 'YELLOW')) == 1
                assert sum(cell[0] == 'Key' for cell in flat) == 1
                assert agent[3] == ('NoneGridObject',)
                assert isinstance(state.agent.position, Position)
                assert isinstance(state.agent.orientation, Orientation)
                assert state.grid.shape == shape
                count += 1

            # the library-level generator is used when none is given
            for seed in (0, 1, 2):
                gv_rng.reset_gv_rng(seed)
                state = rf.keydoor(shape)
                model_rng = rnd.default_rng(seed)
                assert snapshot(state) == model_keydoor(
                    height, width, model_rng
                )
                assert rng_state(gv_rng.get_gv_rng()) == rng_state(model_rng)
                count += 1

    # fresh objects at every reset (no aliasing between episodes)
    shape = Shape(6, 7)
    first = rf.keydoor(shape, rng=rnd.default_rng(5))
    second = rf.keydoor(shape, rng=rnd.default_rng(5))
    assert snapshot(first) == snapshot(second)
    ids_first = {id(obj) for obj in all_objects(first)}
    ids_second = {id(obj) for obj in all_objects(second)}
    assert not (ids_first & ids_second)
    assert len(ids_first) == 6 * 7 + 1
    assert first.grid is not second.grid and first.agent is not second.agent
    for obj in all_objects(first):
        if isinstance(obj, Door):
            obj.state = Door.Status.OPEN
    assert snapshot(second) == model_keydoor(6, 7, rnd.default_rng(5))

    # invalid shapes
    for bad in [(2, 7), (3, 5), (7, 4), (3, 6), (3, 9), (0, 0), (1, 5)]:
        rng = rnd.default_rng(0)
        before = rng_state(rng)
        try:
            rf.keydoor(Shape(*bad), rng=rng)
        except ValueError:
            pass
        else:
            raise AssertionError(f'shape {bad} should be rejected')
        assert rng_state(rng) == before
    print(f'keydoor_reset_layouts: {count} resets')


def agent_front():
    """Agent.front for all poses (also outside / negative coordinates)"""
    count = 0
    for y in range(-3, 6):
        for x in range(-3, 6):
            for orientation in ORIENTATIONS:
                for held in (None, Key(Color.RED)):
                    agent = Agent(Position(y, x), orientation, held)
                    transform = agent.transform
                    position = agent.position
                    front = agent.front()
                    dy, dx = ORI_DELTA[ORI_INDEX[orientation.name]]
                    assert type(front) is Position
                    assert (front.y, front.x) == (y + dy, x + dx)
                    assert front.yx == (y + dy, x + dx)
                    # no side effects
                    assert agent.transform is transform
                    assert agent.position is position
                    assert (agent.position.y, agent.position.x) == (y, x)
                    assert agent.orientation is orientation
                    assert agent.front() == front
                    count += 1
    # numpy integer coordinates, as produced by reset functions
    agent = Agent(Position(np.int64(2), np.int64(3)), Orientation.L)
    assert agent.front() == Position(2, 2)
    # front follows later updates of the pose
    agent.position = Position(0, 0)
    agent.orientation = Orientation.B
    assert agent.front() == Position(1, 0)
    agent.orientation *= Orientation.R
    assert agent.front() == Position(0, -1)
    print(f'agent_front: {count} poses')


def faced_doors_and_boxes():
    """doors and boxes respond only when faced: all poses on a 4x4 grid"""
    names = ['move_agent', 'turn_agent', 'actuate_door', 'actuate_box', 'pickndrop']
    chain = tf.factory(
        'chain', transition_functions=[tf.factory(name) for name in names]
    )
    height, width = 4, 4
    count = 0
    changes = 0
    held_makers = [
        lambda: None,
        lambda: Key(Color.GREEN),
        lambda: Key(Color.YELLOW),
        lambda: Telepod(Color.GREEN),
    ]
    target_makers = [
        lambda: Door(Door.Status.OPEN, Color.GREEN),
        lambda: Door(Door.Status.CLOSED, Color.GREEN),
        lambda: Door(Door.Status.LOCKED, Color.GREEN),
        lambda: Door(Door.Status.LOCKED, Color.NONE),
        lambda: Box(Key(Color.GREEN)),
        lambda: Box(Door(Door.Status.LOCKED, Color.GREEN)),
    ]
    for ty in range(height):
        for tx in range(width):
            for make_target in target_makers:
                for make_held in held_makers:
                    for ay in range(height):
                        for ax in range(width):
                            for orientation in ORIENTATIONS:
                                for action in ACTIONS:
                                    target = make_target()
                                    held = make_held()
                                    state = make_state(
                                        height,
                                        width,
                                        {(ty, tx): target},
                                        (ay, ax),
                                        orientation,
                                        held,
                                    )
                                    cells, agent = snapshot(state)
                                    rng = rnd.default_rng(1)
                                    before = rng_state(rng)
                                    chain(state, action, rng=rng)
                                    assert rng_state(rng) == before
                                    got = snapshot(state)
                                    assert got == model_chain(
                                        names, cells, agent, action.name
                                    )
                                    count += 1
                                    dy, dx = ORI_DELTA[
                                        ORI_INDEX[orientation.name]
                                    ]
                                    faced = (ay + dy, ax + dx) == (ty, tx)
                                    if got[0][ty][tx] != cells[ty][tx]:
                                        changes += 1
                                        assert faced
                                        assert action is Action.ACTUATE
                                    if not (
                                        faced and action is Action.ACTUATE
                                    ):
                                        assert state.grid[ty, tx] is target
                                        assert enc(target) == cells[ty][tx]
    print(f'faced_doors_and_boxes: {count} cases, {changes} changes')
    assert changes > 0


def keydoor_environment():
    """reachable states of the key-door environment"""
    from gym_gridverse.envs.yaml.factory import factory_env_from_data

    names = ['move_agent', 'turn_agent', 'actuate_door', 'pickndrop']
    total_opened = 0
    for size in ([5, 5], [7, 7], [9, 9], [6, 9], [4, 6]):
        data = {
            'state_space': {
                'objects': ['Wall', 'Floor', 'Exit', 'Door', 'Key'],
                'colors': ['NONE', 'YELLOW'],
            },
            'observation_space': {
                'objects': ['Wall', 'Floor', 'Exit', 'Door', 'Key'],
                'colors': ['NONE', 'YELLOW'],
            },
            'reset_function': {'name': 'keydoor', 'shape': list(size)},
            'transition_functions': [{'name': name} for name in names],
            'reward_functions': [{'name': 'living_reward', 'reward': -0.05}],
            'observation_function': {
                'name': 'partially_occluded',
                'area': [[-6, 0], [-3, 3]],
            },
            'terminating_function': {'name': 'reach_exit'},
        }
        env = factory_env_from_data(data)
        policy_rng = rnd.default_rng(99)
        for seed in range(25):
            env.set_seed(seed)
            env.reset()
            # the environment's reset is the modelled layout
            assert snapshot(env.state) == model_keydoor(
                size[0], size[1], rnd.default_rng(seed)
            )
            key_was_used = False
            for _ in range(150):
                state = env.state
                cells, agent = snapshot(state)
                flat = [cell for row in cells for cell in row]
                assert flat.count(('Door', 'LOCKED', 'YELLOW')) + flat.count(
                    ('Door', 'OPEN', 'YELLOW')
                ) == 1
                n_keys = flat.count(('Key', 'YELLOW')) + (
                    agent[3] == ('Key', 'YELLOW')
                )
                assert n_keys == 1  # keys are never consumed (nor duplicated)
                if not key_was_used:
                    assert ('Door', 'OPEN', 'YELLOW') not in flat

                front = model_front(cells, agent)
                front_cell = None if front is None else cells[front[0]][front[1]]
                r = policy_rng.random()
                if front_cell == ('Key', 'YELLOW') and r < 0.7:
                    action = Action.PICK_N_DROP
                elif front_cell is not None and front_cell[0] == 'Door' and r < 0.7:
                    action = Action.ACTUATE
                else:
                    action = ACTIONS[policy_rng.integers(len(ACTIONS))]

                if (
                    action is Action.ACTUATE
                    and front_cell == ('Door', 'LOCKED', 'YELLOW')
                    and agent[3] == ('Key', 'YELLOW')
                ):
                    key_was_used = True
                    total_opened += 1

                _, done = env.step(action)
                assert snapshot(env.state) == model_chain(
                    names, cells, agent, action.name
                )
                assert snapshot(state) == (cells, agent)  # input untouched
                if done:
                    break
    print(f'keydoor_environment: locked door opened with key {total_opened} times')
    assert total_opened > 0


if __name__ == '__main__':
    keydoor_reset_layouts()
    agent_front()
    faced_doors_and_boxes()
    keydoor_environment()
    print('OK')
