"""Standalone check of property C06 (hidden cells carry no information).

Run as:  cd /tmp/wt3-C06 && /venv/bin/python -W ignore _seed/B/demo.py

The expected outputs are computed by an independent re-implementation that
lives in this file (flood fill for partially_occluded, own ray marching for
raytracing, own world->view coordinate mapping for the observation), never by
the library.  The program exits 0 iff every assertion holds.
"""
import itertools
import math
import os
import random
import sys

sys.path.insert(0, os.getcwd())

import numpy as np  # noqa: E402

from gym_gridverse.agent import Agent  # noqa: E402
from gym_gridverse.envs import observation_functions as ofs  # noqa: E402
from gym_gridverse.envs import visibility_functions as vfs  # noqa: E402
from gym_gridverse.geometry import Area, Orientation, Position  # noqa: E402
from gym_gridverse.grid import Grid  # noqa: E402
from gym_gridverse.grid_object import (  # noqa: E402
    Beacon,
    Box,
    Color,
    Door,
    Exit,
    Floor,
    Hidden,
    Key,
    MovingObstacle,
    Telepod,
    Wall,
)
from gym_gridverse.state import State  # noqa: E402

FOCUS = 'B'  # which refactoring this copy of the demo accompanies

# --------------------------------------------------------------------------
# independent reference implementations
# --------------------------------------------------------------------------


def ref_partially_occluded(opaque, ay, ax):
    """opaque: list of rows of bools;  agent at (ay, ax), ay == last row."""
    h, w = len(opaque), len(opaque[0])

    def sweep(side):
        seen = [[False] * w for _ in range(h)]
        seen[ay][ax] = True
        frontier = [(ay, ax)]
        while frontier:
            y, x = frontier.pop(0)
            if opaque[y][x]:
                continue
            for ny, nx in ((y - 1, x), (y, x + side), (y - 1, x + side)):
                if 0 <= ny < h and 0 <= nx < w and not seen[ny][nx]:
                    seen[ny][nx] = True
                    frontier.append((ny, nx))
        return seen

    left, right = sweep(-1), sweep(+1)
    return [[left[y][x] or right[y][x] for x in range(w)] for y in range(h)]


_ref_rays_cache = {}


def ref_rays(h, w, ay, ax):
    """rays towards every cell corner, marched with step 0.01"""
    key = (h, w, ay, ax)
    if key in _ref_rays_cache:
        return _ref_rays_cache[key]

    ys = np.linspace(0, h, num=h + 1) - 0.5 - ay
    xs = np.linspace(0, w, num=w + 1) - 0.5 - ax
    angles = sorted(
        float(np.arctan2(y, x)) for x in xs for y in ys
    )  # ordering of rays does not matter for the counts
    rays = []
    for angle in angles:
        dy, dx = 0.01 * math.sin(angle), 0.01 * math.cos(angle)
        ray, i = [], 0
        while True:
            y, x = round(float(ay) + i * dy), round(float(ax) + i * dx)
            if not (0 <= y < h and 0 <= x < w):
                break
            if (y, x) not in ray:
                ray.append((y, x))
            i += 1
        rays.append(ray)
    _ref_rays_cache[key] = rays
    return rays


def ref_counts(opaque, ay, ax):
    h, w = len(opaque), len(opaque[0])
    num = [[0] * w for _ in range(h)]
    den = [[0] * w for _ in range(h)]
    for ray in ref_rays(h, w, ay, ax):
        lit = True
        for y, x in ray:
            den[y][x] += 1
            if lit:
                num[y][x] += 1
            if opaque[y][x]:
                lit = False
    return num, den


def ref_raytracing(opaque, ay, ax, absolute_counts=True, threshold=1):
    num, den = ref_counts(opaque, ay, ax)
    h, w = len(opaque), len(opaque[0])
    out = [[False] * w for _ in range(h)]
    for y in range(h):
        for x in range(w):
            if absolute_counts:
                out[y][x] = num[y][x] >= threshold
            elif den[y][x] == 0:
                out[y][x] = False  # nan never passes a comparison
            else:
                out[y][x] = num[y][x] / den[y][x] >= threshold
    return out


def ref_rotate(orientation, y, x):
    """view-relative offset -> world-relative offset"""
    if orientation is Orientation.F:
        return y, x
    if orientation is Orientation.R:
        return x, -y
    if orientation is Orientation.B:
        return -y, -x
    if orientation is Orientation.L:
        return -x, y
    raise AssertionError


def ref_view(state, area):
    """returns (cells, world) where cells[i][j] is the world object (or None if
    outside the world) and world[i][j] its world coordinates"""
    H, W = state.grid.shape.height, state.grid.shape.width
    cells, world = [], []
    for vy in range(area.ymin, area.ymax + 1):
        row, wrow = [], []
        for vx in range(area.xmin, area.xmax + 1):
            dy, dx = ref_rotate(state.agent.orientation, vy, vx)
            wy, wx = state.agent.position.y + dy, state.agent.position.x + dx
            inside = 0 <= wy < H and 0 <= wx < W
            row.append(state.grid.objects[wy][wx] if inside else None)
            wrow.append((wy, wx) if inside else None)
        cells.append(row)
        world.append(wrow)
    return cells, world


def ref_opaque(cells):
    return [[c is None or c.blocks_vision for c in row] for row in cells]


def signature(obj):
    return (type(obj).__name__, obj.state_index, obj.color)


def ref_observation(state, area, visible):
    """expected observation as a matrix of signatures + identity matrix"""
    cells, _ = ref_view(state, area)
    sigs, idents = [], []
    for i, row in enumerate(cells):
        srow, irow = [], []
        for j, c in enumerate(row):
            if c is None or not visible[i][j]:
                srow.append(signature(Hidden()))
                irow.append(None)
            else:
                srow.append(signature(c))
                irow.append(c)
        sigs.append(srow)
        idents.append(irow)
    return sigs, idents


# --------------------------------------------------------------------------
# helpers
# --------------------------------------------------------------------------

COLORS = [Color.RED, Color.GREEN, Color.BLUE, Color.YELLOW]


def random_object(rnd):
    k = rnd.randrange(14)
    if k < 4:
        return Floor()
    if k < 7:
        return Wall()
    if k == 7:
        return Door(rnd.choice(list(Door.Status)), rnd.choice(COLORS))
    if k == 8:
        return Door(Door.Status.OPEN, rnd.choice(COLORS))
    if k == 9:
        return Key(rnd.choice(COLORS))
    if k == 10:
        return rnd.choice([Exit(), MovingObstacle(), Beacon(rnd.choice(COLORS))])
    if k == 11:
        return Box(Key(rnd.choice(COLORS)))
    if k == 12:
        return Telepod(rnd.choice(COLORS))
    return Door(Door.Status.CLOSED, rnd.choice(COLORS))


REPLACEMENTS = [
    Floor,
    Wall,
    lambda: Door(Door.Status.OPEN, Color.RED),
    lambda: Door(Door.Status.LOCKED, Color.BLUE),
    lambda: Key(Color.GREEN),
    Exit,
    Hidden,
    lambda: Box(Floor()),
]


def random_state(rnd, hmax=6, wmax=7, wall_density=None):
    h, w = rnd.randint(1, hmax), rnd.randint(1, wmax)
    objects = [[random_object(rnd) for _ in range(w)] for _ in range(h)]
    if rnd.random() < 0.5:  # sparser worlds so that something is visible
        for row in objects:
            for x in range(w):
                if rnd.random() < 0.6:
                    row[x] = Floor()
    agent = Agent(
        Position(rnd.randrange(h), rnd.randrange(w)),
        rnd.choice(list(Orientation)),
        rnd.choice([None, Key(Color.RED)]),
    )
    return State(Grid(objects), agent)


def obs_matrix(observation):
    return [[signature(o) for o in row] for row in observation.grid.objects]


def to_lists(array):
    assert isinstance(array, np.ndarray)
    return [[bool(v) for v in row] for row in array]


FRONT_AREAS = [  # agent in the bottom row of the view (ymax == 0)
    Area((-6, 0), (-3, 3)),
    Area((-2, 0), (-1, 1)),
    Area((-3, 0), (-2, 1)),
    Area((-4, 0), (0, 2)),
    Area((-1, 0), (-4, 0)),
    Area((0, 0), (-2, 2)),
    Area((-3, 0), (0, 0)),
    Area((0, 0), (0, 0)),
]
OTHER_AREAS = [  # agent elsewhere in the view
    Area((-2, 2), (-2, 2)),
    Area((-3, 1), (-1, 2)),
    Area((0, 3), (-2, 2)),
    Area((-1, 1), (0, 4)),
]

checks = 0


def check(condition, *info):
    global checks
    checks += 1
    if not condition:
        print('FAILED', *info)
        sys.exit(1)


OBS = {
    'partially_occluded': ofs.partially_occluded,
    'raytracing': ofs.raytracing,
}
REF_VIS = {
    'partially_occluded': ref_partially_occluded,
    'raytracing': ref_raytracing,
}


def chain_ok(visible, opaque, ay, ax):
    """every visible cell is linked to the agent by 8-adjacent transparent
    visible cells"""
    h, w = len(visible), len(visible[0])
    linked = {(ay, ax)}
    frontier = [(ay, ax)]
    while frontier:
        y, x = frontier.pop()
        if opaque[y][x] or not visible[y][x]:
            continue  # only transparent visible cells extend the chain
        for dy, dx in itertools.product((-1, 0, 1), repeat=2):
            n = (y + dy, x + dx)
            if 0 <= n[0] < h and 0 <= n[1] < w and n not in linked:
                linked.add(n)
                frontier.append(n)
    return all(
        (y, x) in linked for y in range(h) for x in range(w) if visible[y][x]
    )


# --------------------------------------------------------------------------
# 1. exhaustive opacity patterns on small views (visibility functions)
# --------------------------------------------------------------------------


def exhaustive_patterns():
    shapes = [(1, 1), (1, 3), (2, 2), (3, 1), (2, 3), (3, 3), (2, 4), (4, 2), (3, 4)]
    for h, w in shapes:
        for ax in range(w):
            for bits in itertools.product((False, True), repeat=h * w):
                opaque = [list(bits[y * w : (y + 1) * w]) for y in range(h)]
                grid = Grid(
                    [[Wall() if o else Floor() for o in row] for row in opaque]
                )
                pos = Position(h - 1, ax)
                for name, function in (
                    ('partially_occluded', vfs.partially_occluded),
                    ('raytracing', vfs.raytracing),
                ):
                    got = function(grid, pos)
                    check(got.dtype == np.bool_, 'dtype', name)
                    check(got.shape == (h, w), 'shape', name)
                    got = to_lists(got)
                    want = REF_VIS[name](opaque, h - 1, ax)
                    check(got == want, 'pattern', name, opaque, ax, got, want)
                    check(got[h - 1][ax], 'agent cell', name)
                    check(chain_ok(got, opaque, h - 1, ax), 'chain', name, opaque, ax)
                    # monotone: opening one visible opaque cell hides nothing
                    if h * w <= 9:
                        for y in range(h):
                            for x in range(w):
                                if opaque[y][x] and got[y][x]:
                                    grid2 = Grid(
                                        [
                                            [
                                                Floor()
                                                if (yy, xx) == (y, x)
                                                else grid.objects[yy][xx]
                                                for xx in range(w)
                                            ]
                                            for yy in range(h)
                                        ]
                                    )
                                    got2 = to_lists(function(grid2, pos))
                                    check(
                                        all(
                                            got2[yy][xx]
                                            for yy in range(h)
                                            for xx in range(w)
                                            if got[yy][xx]
                                        ),
                                        'monotone',
                                        name,
                                        opaque,
                                        (y, x),
                                    )

    # raytracing from positions that are not in the last row, small shapes
    for h, w in [(2, 2), (3, 2), (3, 3)]:
        for ay in range(h):
            for ax in range(w):
                for bits in itertools.product((False, True), repeat=h * w):
                    opaque = [list(bits[y * w : (y + 1) * w]) for y in range(h)]
                    grid = Grid(
                        [[Wall() if o else Floor() for o in row] for row in opaque]
                    )
                    got = to_lists(vfs.raytracing(grid, Position(ay, ax)))
                    check(got == ref_raytracing(opaque, ay, ax), 'rt any pos')
                    check(got[ay][ax], 'rt agent cell')
                    check(chain_ok(got, opaque, ay, ax), 'rt chain')
                    if ay != h - 1:
                        try:
                            vfs.partially_occluded(grid, Position(ay, ax))
                        except NotImplementedError:
                            check(True)
                        else:
                            check(False, 'partially_occluded should refuse')


# --------------------------------------------------------------------------
# 2. raytracing parameters and the stochastic variant
# --------------------------------------------------------------------------


def raytracing_parameters(rnd):
    for trial in range(120):
        h, w = rnd.randint(1, 6), rnd.randint(1, 6)
        opaque = [[rnd.random() < 0.3 for _ in range(w)] for _ in range(h)]
        grid = Grid([[Wall() if o else Floor() for o in row] for row in opaque])
        ay, ax = rnd.randrange(h), rnd.randrange(w)
        pos = Position(ay, ax)
        num, den = ref_counts(opaque, ay, ax)

        for threshold in (0, 1, 2, 3, 5, 1.5):
            got = to_lists(vfs.raytracing(grid, pos, threshold=threshold))
            want = ref_raytracing(opaque, ay, ax, True, threshold)
            check(got == want, 'absolute threshold', threshold)
            function = vfs.factory('raytracing', threshold=threshold)
            check(to_lists(function(grid, pos)) == want, 'factory threshold')
        for threshold in (0.0, 0.25, 0.5, 0.75, 1.0, 1):
            got = to_lists(
                vfs.raytracing(
                    grid, pos, absolute_counts=False, threshold=threshold
                )
            )
            want = ref_raytracing(opaque, ay, ax, False, threshold)
            check(got == want, 'relative threshold', threshold)
            function = vfs.factory(
                'raytracing', absolute_counts=False, threshold=threshold
            )
            check(to_lists(function(grid, pos)) == want, 'factory relative')

        # an explicit rng is accepted and left untouched
        rng = np.random.default_rng(trial)
        before = rng.bit_generator.state
        vfs.raytracing(grid, pos, rng=rng)
        vfs.partially_occluded(grid, Position(h - 1, ax), rng=rng)
        check(rng.bit_generator.state == before, 'deterministic fns draw nothing')

        # stochastic variant:  exactly one block of h*w uniform draws,
        # compared strictly against the lit fraction
        deterministic = ref_raytracing(opaque, ay, ax)
        for seed in range(6):
            rng = np.random.default_rng(1000 * trial + seed)
            twin = np.random.default_rng(1000 * trial + seed)
            got = vfs.stochastic_raytracing(grid, pos, rng=rng)
            check(got.shape == (h, w) and got.dtype == np.bool_, 'st shape')
            samples = twin.random((h, w))
            for y in range(h):
                for x in range(w):
                    p = num[y][x] / den[y][x] if den[y][x] else 0.0
                    check(bool(got[y, x]) == (samples[y, x] < p), 'st sample')
                    if got[y, x]:
                        check(deterministic[y][x], 'st upper bound')
                    if den[y][x] and num[y][x] == den[y][x]:
                        check(bool(got[y, x]), 'st lower bound')
            check(
                rng.bit_generator.state == twin.bit_generator.state,
                'st rng consumption',
            )


# --------------------------------------------------------------------------
# 3. observation functions on random states: reference + non-interference
# --------------------------------------------------------------------------


def observations(rnd, n_states):
    for trial in range(n_states):
        state = random_state(rnd)
        H, W = state.grid.shape.height, state.grid.shape.width
        areas = FRONT_AREAS + OTHER_AREAS
        for area in rnd.sample(areas, 5):
            ay, ax = -area.ymin, -area.xmin
            cells, world = ref_view(state, area)
            opaque = ref_opaque(cells)
            for name, function in OBS.items():
                if name == 'partially_occluded' and area.ymax != 0:
                    try:
                        function(state, area=area)
                    except NotImplementedError:
                        check(True)
                    else:
                        check(False, 'expected NotImplementedError')
                    continue

                snapshot = [list(row) for row in state.grid.objects]
                observation = function(state, area=area)
                # the state is not modified by observing
                check(
                    all(
                        a is b
                        for ra, rb in zip(snapshot, state.grid.objects)
                        for a, b in zip(ra, rb)
                    ),
                    'state untouched',
                )

                visible = REF_VIS[name](opaque, ay, ax)
                want, idents = ref_observation(state, area, visible)
                got = obs_matrix(observation)
                check(got == want, 'observation', name, area, got, want)
                check(
                    observation.grid.shape.height == area.height
                    and observation.grid.shape.width == area.width,
                    'obs shape',
                )
                # visible cells alias the world objects, hidden ones are fresh
                hidden_ids = set()
                n_hidden = 0
                for i in range(area.height):
                    for j in range(area.width):
                        o = observation.grid.objects[i][j]
                        if idents[i][j] is not None:
                            check(o is idents[i][j], 'aliasing')
                        else:
                            check(type(o) is Hidden, 'hidden type')
                            n_hidden += 1
                            hidden_ids.add(id(o))
                check(len(hidden_ids) == n_hidden, 'fresh Hidden per cell')
                # agent as seen by itself
                check(observation.agent.position == Position(ay, ax), 'agent pos')
                check(observation.agent.orientation is Orientation.F, 'agent ori')
                check(
                    observation.agent.grid_object is state.agent.grid_object,
                    'agent item',
                )
                # agent cell is always shown
                check(
                    got[ay][ax]
                    == signature(
                        state.grid.objects[state.agent.position.y][
                            state.agent.position.x
                        ]
                    ),
                    'agent cell shown',
                )
                check(chain_ok(visible, opaque, ay, ax), 'chain (obs)')

                # factory-built function agrees
                built = ofs.factory(name, area=area)
                check(obs_matrix(built(state)) == got, 'factory obs')

                # non-interference: world cells that are hidden or out of view
                shown = {
                    world[i][j]
                    for i in range(area.height)
                    for j in range(area.width)
                    if world[i][j] is not None and visible[i][j]
                }
                unseen = [
                    (y, x)
                    for y in range(H)
                    for x in range(W)
                    if (y, x) not in shown
                ]
                rnd.shuffle(unseen)
                for (y, x) in unseen[:6]:
                    original = state.grid.objects[y][x]
                    for make in REPLACEMENTS:
                        state.grid.objects[y][x] = make()
                        again = obs_matrix(function(state, area=area))
                        check(again == got, 'non-interference', name, area, (y, x))
                    state.grid.objects[y][x] = original
                # ... and all of them at once
                originals = {(y, x): state.grid.objects[y][x] for y, x in unseen}
                for _ in range(2):
                    for (y, x) in unseen:
                        state.grid.objects[y][x] = random_object(rnd)
                    again = obs_matrix(function(state, area=area))
                    check(again == got, 'non-interference (all)', name, area)
                for (y, x), o in originals.items():
                    state.grid.objects[y][x] = o

                # monotone through the observation function
                for i in range(area.height):
                    for j in range(area.width):
                        if (
                            visible[i][j]
                            and opaque[i][j]
                            and world[i][j] is not None
                            and rnd.random() < 0.3
                        ):
                            wy, wx = world[i][j]
                            original = state.grid.objects[wy][wx]
                            state.grid.objects[wy][wx] = Floor()
                            opened = obs_matrix(function(state, area=area))
                            state.grid.objects[wy][wx] = original
                            hid = signature(Hidden())
                            for ii in range(area.height):
                                for jj in range(area.width):
                                    if visible[ii][jj] and world[ii][jj] is not None:
                                        check(
                                            opened[ii][jj] != hid
                                            or cells[ii][jj].__class__ is Hidden,
                                            'monotone (obs)',
                                        )

            # stochastic observation: bounds + seeds
            num, den = ref_counts(opaque, ay, ax)
            deterministic = ref_raytracing(opaque, ay, ax)
            hid = signature(Hidden())
            for seed in range(3):
                rng = np.random.default_rng(seed + 17 * trial)
                twin = np.random.default_rng(seed + 17 * trial)
                observation = ofs.stochastic_raytracing(state, area=area, rng=rng)
                samples = twin.random((area.height, area.width))
                check(
                    rng.bit_generator.state == twin.bit_generator.state,
                    'st obs rng consumption',
                )
                got = obs_matrix(observation)
                for i in range(area.height):
                    for j in range(area.width):
                        p = num[i][j] / den[i][j] if den[i][j] else 0.0
                        vis = samples[i, j] < p
                        want_sig = (
                            signature(cells[i][j])
                            if vis and cells[i][j] is not None
                            else hid
                        )
                        check(got[i][j] == want_sig, 'st obs cell')
                        if got[i][j] != hid:
                            check(deterministic[i][j], 'st obs upper bound')
                        if den[i][j] and num[i][j] == den[i][j] and cells[i][j] is not None:
                            check(got[i][j] == signature(cells[i][j]), 'st obs lower')


# --------------------------------------------------------------------------
# 4. custom visibility functions through from_visibility
# --------------------------------------------------------------------------


def custom_visibility(rnd):
    for trial in range(60):
        state = random_state(rnd)
        area = rnd.choice(FRONT_AREAS + OTHER_AREAS)
        mask = np.array(
            [
                [rnd.random() < 0.5 for _ in range(area.width)]
                for _ in range(area.height)
            ],
            dtype=rnd.choice([bool, int]),
        ).reshape((area.height, area.width))
        calls = []

        def visibility_function(grid, position, *, rng=None):
            calls.append((grid.shape.height, grid.shape.width, position, rng))
            return mask

        rng = np.random.default_rng(trial)
        observation = ofs.from_visibility(
            state, area=area, visibility_function=visibility_function, rng=rng
        )
        check(len(calls) == 1, 'one visibility call')
        check(
            calls[0]
            == (area.height, area.width, Position(-area.ymin, -area.xmin), rng)
            and calls[0][3] is rng,
            'visibility call arguments',
        )
        want, _ = ref_observation(state, area, [[bool(v) for v in row] for row in mask])
        check(obs_matrix(observation) == want, 'custom mask')

        # wrong shape is rejected
        def bad(grid, position, *, rng=None):
            return np.ones((area.height + 1, area.width), dtype=bool)

        try:
            ofs.from_visibility(state, area=area, visibility_function=bad)
        except ValueError:
            check(True)
        else:
            check(False, 'shape mismatch must raise')


# --------------------------------------------------------------------------
# 5. stochastic variant with the library-level rng (rng=None)
# --------------------------------------------------------------------------


def library_rng(rnd):
    from gym_gridverse.rng import get_gv_rng, reset_gv_rng

    for trial in range(40):
        h, w = rnd.randint(1, 5), rnd.randint(1, 5)
        opaque = [[rnd.random() < 0.3 for _ in range(w)] for _ in range(h)]
        grid = Grid([[Wall() if o else Floor() for o in row] for row in opaque])
        ay, ax = rnd.randrange(h), rnd.randrange(w)
        num, den = ref_counts(opaque, ay, ax)

        reset_gv_rng(trial)
        twin = np.random.default_rng(trial)
        # three calls in a row consume three consecutive blocks of draws
        for _ in range(3):
            got = vfs.stochastic_raytracing(grid, Position(ay, ax))
            samples = twin.random((h, w))
            for y in range(h):
                for x in range(w):
                    p = num[y][x] / den[y][x] if den[y][x] else 0.0
                    check(bool(got[y, x]) == (samples[y, x] < p), 'gv rng sample')
            # deterministic functions in between do not draw
            vfs.raytracing(grid, Position(ay, ax))
            vfs.raytracing(grid, Position(ay, ax), absolute_counts=False, threshold=0.5)
        check(
            get_gv_rng().bit_generator.state == twin.bit_generator.state,
            'gv rng consumption',
        )

    # results are fresh arrays, never shared between calls
    grid = Grid([[Floor(), Wall(), Floor()], [Floor(), Floor(), Floor()]])
    first = vfs.raytracing(grid, Position(1, 1))
    first_copy = first.copy()
    second = vfs.raytracing(grid, Position(1, 1))
    check(first is not second, 'fresh result')
    second[:] = False
    check((first == first_copy).all(), 'results do not alias')
    third = vfs.raytracing(grid, Position(1, 1))
    check((third == first_copy).all(), 'cache is not corrupted')


def main():
    rnd = random.Random(20240606)
    exhaustive_patterns()
    raytracing_parameters(rnd)
    observations(rnd, 140)
    custom_visibility(rnd)
    library_rng(rnd)
    print(f'demo {FOCUS}: OK ({checks} checks)')


if __name__ == '__main__':
    main()
