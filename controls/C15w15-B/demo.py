#!/usr/bin/env python
"""Demo for change B (no-overlap / default index bounds computed once, immutable, shared).

Run from the worktree root:  /venv/bin/python _seed/B/demo.py

Exits 0 both on the pristine tree and with the patch applied.  It checks

1. the module-level grid-object functions of `representations/representation.py`
   (old positional API, with sets and frozensets; and the new `bounds=` keyword
   when the installed tree has it) against a reference implementation embedded
   below, for all subsets of the registered types x colour subsets; awkward
   inputs: empty colours in the conversion, empty types / colours in the
   spaces, repeated calls, no aliasing between the arrays of successive
   `space` calls, representations unaffected by later mutation of the inner
   space or by types registered later;
2. property C15 (every converted array lies, key by key, inside the declared
   space: shape, dtype, bounds -- also for the gym spaces built by
   `outer_space_to_gym_space`) on a sweep of object-type subsets x colour
   subsets x grid / view shapes x member states and observations x the three
   representations, together with equality with the reference implementation;
3. the same on trajectories of all 21 shipped configurations (parsed with a
   tiny YAML-subset reader because PyYAML is not installed), through
   `GymEnvironment`, including representation switching on a live
   environment, several environments in one process and re-seeding.
"""
import dataclasses
import inspect
import itertools
import os
import sys
import types
import warnings

sys.path.insert(0, os.getcwd())
warnings.filterwarnings('ignore')

import numpy as np  # noqa: E402

try:  # the factory module does `import yaml` but we never call yaml
    import yaml  # noqa: F401,E402
except ImportError:
    sys.modules['yaml'] = types.ModuleType('yaml')

import gym  # noqa: E402

from gym_gridverse.agent import Agent  # noqa: E402
from gym_gridverse.envs.yaml.factory import factory_env_from_data  # noqa: E402
from gym_gridverse.geometry import Orientation, Position, Shape  # noqa: E402
from gym_gridverse.grid import Grid  # noqa: E402
from gym_gridverse.grid_object import (  # noqa: E402
    GridObject,
    Beacon,
    Box,
    Color,
    Door,
    Exit,
    Floor,
    Hidden,
    Key,
    MovingObstacle,
    NoneGridObject,
    Telepod,
    Wall,
    grid_object_registry,
)
from gym_gridverse.gym import (  # noqa: E402
    GymEnvironment,
    GymStateWrapper,
    outer_space_to_gym_space,
)
from gym_gridverse.observation import Observation  # noqa: E402
from gym_gridverse.outer_env import OuterEnv  # noqa: E402
from gym_gridverse.representations import representation as R  # noqa: E402
from gym_gridverse.representations.observation_representations import (  # noqa: E402
    make_observation_representation,
)
from gym_gridverse.representations.spaces import SpaceType  # noqa: E402
from gym_gridverse.representations.state_representations import (  # noqa: E402
    make_state_representation,
)
from gym_gridverse.spaces import ObservationSpace, StateSpace  # noqa: E402
from gym_gridverse.state import State  # noqa: E402

REPRESENTATIONS = ('default', 'no-overlap', 'compact')
CHECKS = 0


def check(condition, *message):
    global CHECKS
    CHECKS += 1
    if not condition:
        print('FAILED:', *message)
        sys.exit(1)


EXPECTED_GYM_DTYPE = {
    SpaceType.CATEGORICAL: np.dtype('int64'),
    SpaceType.DISCRETE: np.dtype('int64'),
    SpaceType.CONTINUOUS: np.dtype('float64'),
}

# ---------------------------------------------------------------------------
# reference implementation of the three representations
# ---------------------------------------------------------------------------

TYPE_INDEX = {t: i for i, t in enumerate(grid_object_registry)}
NUM_STATES = {t: (3 if t is Door else 1) for t in grid_object_registry}


def ref_objects_triple(rep, types, colors):
    """returns (upper_bound, convert) for a grid-object under representation `rep`

    `types` already contains the implicit types; `colors` contains Color.NONE.
    """
    max_type = max(TYPE_INDEX[t] for t in types)
    max_states = max(NUM_STATES[t] for t in types)
    max_color = max(c.value for c in colors)

    if rep == 'default':
        upper = [max_type, max_states, max_color]

        def convert(obj):
            return [TYPE_INDEX[type(obj)], obj.state_index, obj.color.value]

    elif rep == 'no-overlap':
        upper = [
            max_type,
            max_type + max_states + 1,
            max_type + max_states + max_color + 2,
        ]

        def convert(obj):
            return [
                TYPE_INDEX[type(obj)],
                max_type + 1 + obj.state_index,
                max_type + max_states + 2 + obj.color.value,
            ]

    else:
        ordered_types = sorted(types, key=TYPE_INDEX.get)
        ordered_colors = sorted(colors, key=lambda c: c.value)
        type_map, status_map, color_map = {}, {}, {}
        n = 0
        for t in ordered_types:
            type_map[t] = n
            n += 1
        for t in ordered_types:
            for j in range(NUM_STATES[t]):
                status_map[t, j] = n
                n += 1
        for c in ordered_colors:
            color_map[c] = n
            n += 1
        upper = [
            max(type_map.values()),
            max(status_map.values()),
            max(color_map.values()),
        ]

        def convert(obj):
            return [
                type_map[type(obj)],
                status_map[type(obj), obj.state_index],
                color_map[obj.color],
            ]

    return upper, convert


def ref_space_and_convert(kind, rep, shape, types, colors):
    """kind: 'state' / 'observation'; returns (bounds, convert)

    bounds: key -> (space_type, lower, upper), convert: member -> key -> array
    """
    implicit = {NoneGridObject} if kind == 'state' else {NoneGridObject, Hidden}
    upper, convert_object = ref_objects_triple(
        rep, set(types) | implicit, set(colors) | {Color.NONE}
    )
    height, width = shape
    upper = np.array(upper, dtype='int64')

    bounds = {
        'grid': (
            SpaceType.CATEGORICAL,
            np.zeros((height, width, 3), 'int64'),
            np.broadcast_to(upper, (height, width, 3)),
        ),
        'agent_id_grid': (
            SpaceType.DISCRETE,
            np.zeros((height, width), 'int64'),
            np.ones((height, width), 'int64'),
        ),
    }
    if kind == 'state':
        bounds['agent'] = (
            SpaceType.CONTINUOUS,
            np.array([-1.0, -1.0, 0.0, 0.0, 0.0, 0.0]),
            np.array([1.0, 1.0, 1.0, 1.0, 1.0, 1.0]),
        )
    bounds['item'] = (SpaceType.CATEGORICAL, np.zeros(3, 'int64'), upper)

    def convert(member):
        grid = np.array(
            [
                [convert_object(member.grid[y, x]) for x in range(width)]
                for y in range(height)
            ],
            dtype='int64',
        )
        agent_id_grid = np.zeros((height, width), 'int64')
        agent_id_grid[member.agent.position.y, member.agent.position.x] = 1
        result = {
            'grid': grid,
            'agent_id_grid': agent_id_grid,
            'item': np.array(convert_object(member.agent.grid_object), 'int64'),
        }
        if kind == 'state':
            agent = np.zeros(6, 'float64')
            agent[0] = (2 * member.agent.position.y - height + 1) / (height - 1)
            agent[1] = (2 * member.agent.position.x - width + 1) / (width - 1)
            agent[2 + member.agent.orientation.value] = 1.0
            result['agent'] = agent
        return result

    return bounds, convert


def check_space_against_reference(space, bounds, where):
    check(list(space.keys()) == list(bounds.keys()), where, list(space.keys()))
    for key, (space_type, lower, upper) in bounds.items():
        check(space[key].space_type is space_type, where, key)
        check(space[key].lower_bound.dtype == lower.dtype, where, key, 'dtype')
        check(space[key].upper_bound.dtype == upper.dtype, where, key, 'dtype')
        check(np.array_equal(space[key].lower_bound, lower), where, key, 'lower')
        check(np.array_equal(space[key].upper_bound, upper), where, key, 'upper')
        check(space[key].shape == lower.shape, where, key, 'shape')


def check_member(space, gym_space, arrays, expected, where):
    """property C15 for one converted member, plus equality with the reference"""
    check(list(arrays.keys()) == list(space.keys()), where, 'keys')
    for key, array in arrays.items():
        sp = space[key]
        # spelled out, not only through Space.contains
        check(isinstance(array, np.ndarray), where, key)
        check(array.shape == sp.lower_bound.shape, where, key, 'shape')
        wanted = np.floating if sp.space_type is SpaceType.CONTINUOUS else np.integer  # fmt: skip
        check(np.issubdtype(array.dtype, wanted), where, key, array.dtype)
        check(bool(np.all(sp.lower_bound <= array)), where, key, 'lower')
        check(bool(np.all(array <= sp.upper_bound)), where, key, 'upper')
        check(bool(sp.contains(array)) is True, where, key, 'contains')
        # gym layer
        box = gym_space.spaces[key]
        check(box.dtype == EXPECTED_GYM_DTYPE[sp.space_type], where, key)
        check(array.dtype == box.dtype, where, key, 'gym dtype', array.dtype)
        check(box.contains(array), where, key, 'gym contains')
        if expected is not None:
            check(array.dtype == expected[key].dtype, where, key, 'ref dtype')
            check(np.array_equal(array, expected[key]), where, key, 'ref value', array, expected[key])  # fmt: skip
    check(gym_space.contains(arrays), where, 'gym dict contains')


# ---------------------------------------------------------------------------
# 2. sweep over spaces and members
# ---------------------------------------------------------------------------


def member_objects(types, colors):
    """every object (type x status x colour) of the given types and colours"""
    colors = sorted(set(colors) | {Color.NONE}, key=lambda c: c.value)
    objects = []
    for t in sorted(types, key=TYPE_INDEX.get):
        if t in (NoneGridObject, Hidden, Floor, Wall, MovingObstacle):
            objects.append(t())
        elif t is Exit:
            objects.extend(Exit(c) for c in colors)
        elif t is Door:
            objects.extend(Door(s, c) for s in Door.Status for c in colors)
        elif t in (Key, Telepod, Beacon):
            objects.extend(t(c) for c in colors)
        elif t is Box:
            objects.append(Box(Floor()))
            objects.append(Box(Key(Color.NONE)))
        else:
            raise AssertionError(t)
    return objects


def make_grid(shape, objects, offset):
    height, width = shape
    cells = itertools.islice(
        itertools.cycle(objects), offset, offset + height * width
    )
    cells = list(cells)
    return Grid(
        [[cells[y * width + x] for x in range(width)] for y in range(height)]
    )


def poses(shape, exhaustive):
    height, width = shape
    if exhaustive:
        positions = [(y, x) for y in range(height) for x in range(width)]
    else:
        ys = sorted({0, height // 2, height - 1})
        xs = sorted({0, width // 2, width - 1})
        positions = [(y, x) for y in ys for x in xs]
    return [(Position(y, x), o) for (y, x) in positions for o in Orientation]


REAL_TYPES = [Floor, Wall, Exit, Door, Key, MovingObstacle, Box, Telepod, Beacon]  # fmt: skip
ALL_COLORS = list(Color)


def check_grid_object_level():
    """all subsets of the registered types x colour subsets, item key only"""
    check(list(grid_object_registry) == [NoneGridObject, Hidden] + REAL_TYPES, 'registry order')  # fmt: skip
    check([c.value for c in Color] == [0, 1, 2, 3, 4])

    color_subsets = [
        [],
        [Color.NONE],
        [Color.RED],
        [Color.YELLOW],
        [Color.GREEN, Color.BLUE],
        [Color.NONE, Color.YELLOW],
        ALL_COLORS,
    ]
    registered = list(grid_object_registry)
    count = 0
    for n in range(1, len(registered) + 1):
        for types in itertools.combinations(registered, n):
            types = list(types)
            for colors in color_subsets:
                # cheap thinning: all colour subsets only for small/large n
                if 3 < n < 9 and colors not in ([], [Color.GREEN, Color.BLUE], ALL_COLORS):  # fmt: skip
                    continue
                count += 1
                representable = all(t.can_be_represented_in_state() for t in types)  # fmt: skip
                if representable:
                    state_space = StateSpace(Shape(2, 2), types, colors)
                    held = member_objects(set(types) | {NoneGridObject}, colors)
                    for rep in REPRESENTATIONS:
                        r = make_state_representation(rep, state_space)
                        space = r.space
                        upper, convert = ref_objects_triple(rep, set(types) | {NoneGridObject}, set(colors) | {Color.NONE})  # fmt: skip
                        check(np.array_equal(space['item'].upper_bound, upper), 'state item upper', rep, types, colors)  # fmt: skip
                        item_rep = r.representations['item']
                        for obj in held:
                            a = item_rep.grid_object_representation.convert(obj)
                            check(a.dtype == np.dtype('int64'))
                            check(a.tolist() == convert(obj), 'state item', rep, obj)  # fmt: skip
                            check(space['item'].contains(a), 'state item contains', rep, obj, types, colors)  # fmt: skip
                else:
                    try:
                        make_state_representation('default', StateSpace(Shape(2, 2), types, colors))  # fmt: skip
                    except ValueError:
                        check(True)
                    else:
                        check(False, 'unrepresentable state space accepted')

                observation_space = ObservationSpace(Shape(2, 3), types, colors)  # fmt: skip
                seen = member_objects(set(types) | {NoneGridObject, Hidden}, colors)  # fmt: skip
                for rep in REPRESENTATIONS:
                    r = make_observation_representation(rep, observation_space)
                    space = r.space
                    upper, convert = ref_objects_triple(rep, set(types) | {NoneGridObject, Hidden}, set(colors) | {Color.NONE})  # fmt: skip
                    check(np.array_equal(space['item'].upper_bound, upper), 'obs item upper', rep, types, colors)  # fmt: skip
                    item_rep = r.representations['item']
                    for obj in seen:
                        a = item_rep.grid_object_representation.convert(obj)
                        check(a.dtype == np.dtype('int64'))
                        check(a.tolist() == convert(obj), 'obs item', rep, obj)
                        check(space['item'].contains(a), 'obs item contains', rep, obj, types, colors)  # fmt: skip
    return count


def check_members_level():
    type_subsets = [
        [Floor],
        [Wall],
        [Door],
        [Floor, Wall],
        [Beacon],
        [Key, Door],
        [Floor, Wall, Exit],
        [Floor, Wall, Exit, Door, Key],
        [Wall, Floor, Exit, MovingObstacle],
        [Wall, Floor, Exit, Telepod],
        [Wall, Floor, Exit, Beacon],
        [Floor, Box],
        [NoneGridObject, Floor],
        [Hidden, Floor, Door],
        REAL_TYPES,
        [t for t in REAL_TYPES if t is not Box],
        list(grid_object_registry),
    ]
    color_subsets = [
        [],
        [Color.NONE],
        [Color.YELLOW],
        [Color.RED, Color.BLUE],
        ALL_COLORS,
    ]
    state_shapes = [(2, 2), (2, 5), (5, 2), (3, 4), (4, 3), (7, 7), (2, 9)]
    view_shapes = [(2, 3), (3, 3), (2, 1), (3, 1), (4, 5), (5, 3), (7, 7), (2, 7), (1, 1), (1, 3)]  # fmt: skip

    members = 0
    for types, colors in itertools.product(type_subsets, color_subsets):
        representable = all(t.can_be_represented_in_state() for t in types)

        # -- states
        if representable:
            for shape in state_shapes:
                state_space = StateSpace(Shape(*shape), types, colors)
                objects = member_objects(types, colors)
                held = member_objects(set(types) | {NoneGridObject}, colors)
                exhaustive = shape[0] * shape[1] <= 12 and len(types) <= 3
                reps = {}
                for rep in REPRESENTATIONS:
                    r = make_state_representation(rep, state_space)
                    bounds, convert = ref_space_and_convert('state', rep, shape, types, colors)  # fmt: skip
                    space = r.space
                    check_space_against_reference(space, bounds, ('state', rep, shape))  # fmt: skip
                    # asking twice gives equal spaces
                    check(all(space[k] == r.space[k] for k in space))
                    reps[rep] = (r, space, outer_space_to_gym_space(space), convert)  # fmt: skip
                for n, (position, orientation) in enumerate(poses(shape, exhaustive)):  # fmt: skip
                    grid = make_grid(shape, objects, n)
                    item = held[n % len(held)]
                    state = State(grid, Agent(position, orientation, item))
                    check(state_space.contains(state), 'not a member state?')
                    members += 1
                    for rep, (r, space, gym_space, convert) in reps.items():
                        arrays = r.convert(state)
                        check_member(space, gym_space, arrays, convert(state), ('state', rep, shape, types, colors, position, orientation, item))  # fmt: skip
                # every held item at one corner pose
                for item in held:
                    state = State(
                        make_grid(shape, objects, 1),
                        Agent(Position(shape[0] - 1, shape[1] - 1), Orientation.LEFT, item),  # fmt: skip
                    )
                    members += 1
                    for rep, (r, space, gym_space, convert) in reps.items():
                        check_member(space, gym_space, r.convert(state), convert(state), ('state item', rep, item))  # fmt: skip

        # -- observations
        for shape in view_shapes:
            if len(types) > 5 and shape in ((7, 7), (2, 7)) and colors not in ([], ALL_COLORS):  # fmt: skip
                continue
            observation_space = ObservationSpace(Shape(*shape), types, colors)
            objects = member_objects(set(types) | {Hidden}, colors)
            held = member_objects(set(types) | {NoneGridObject}, colors)
            exhaustive = shape[0] * shape[1] <= 9 and len(types) <= 3
            reps = {}
            for rep in REPRESENTATIONS:
                r = make_observation_representation(rep, observation_space)
                bounds, convert = ref_space_and_convert('observation', rep, shape, types, colors)  # fmt: skip
                space = r.space
                check_space_against_reference(space, bounds, ('observation', rep, shape))  # fmt: skip
                reps[rep] = (r, space, outer_space_to_gym_space(space), convert)
            pose_list = poses(shape, exhaustive)
            # the canonical pose of the agent in its own view
            pose_list.append((observation_space.agent_position, Orientation.FORWARD))
            for n, (position, orientation) in enumerate(pose_list):
                grid = make_grid(shape, objects, n)
                item = held[n % len(held)]
                observation = Observation(grid, Agent(position, orientation, item))  # fmt: skip
                check(observation_space.contains(observation), 'not a member observation?')  # fmt: skip
                members += 1
                for rep, (r, space, gym_space, convert) in reps.items():
                    arrays = r.convert(observation)
                    check_member(space, gym_space, arrays, convert(observation), ('observation', rep, shape, types, colors, position, orientation, item))  # fmt: skip
            for item in held:
                observation = Observation(
                    make_grid(shape, objects, 2),
                    Agent(observation_space.agent_position, Orientation.FORWARD, item),  # fmt: skip
                )
                members += 1
                for rep, (r, space, gym_space, convert) in reps.items():
                    check_member(space, gym_space, r.convert(observation), convert(observation), ('observation item', rep, item))  # fmt: skip

        # even view widths are rejected before anything is built
        for shape in ((2, 2), (3, 4)):
            try:
                ObservationSpace(Shape(*shape), types, colors)
            except ValueError:
                check(True)
            else:
                check(False, 'even width accepted')

    for name in ('', 'Default', 'nooverlap', 'no_overlap', None, 0):
        for maker, space in (
            (make_state_representation, StateSpace(Shape(2, 2), [Floor], [])),
            (make_observation_representation, ObservationSpace(Shape(2, 3), [Floor], [])),  # fmt: skip
        ):
            try:
                maker(name, space)
            except ValueError:
                check(True)
            else:
                check(False, 'invalid representation name accepted', name)
    return members


# ---------------------------------------------------------------------------
# 1. the grid-object functions, old API and (if present) the new keyword
# ---------------------------------------------------------------------------


def _equal_space(space, upper):
    return (
        space.space_type is SpaceType.CATEGORICAL
        and space.lower_bound.dtype == np.dtype('int64')
        and space.upper_bound.dtype == np.dtype('int64')
        and space.lower_bound.tolist() == [0, 0, 0]
        and space.upper_bound.tolist() == upper
    )


def check_grid_object_functions():
    has_bounds = 'bounds' in inspect.signature(R.no_overlap_grid_object_representation_convert).parameters  # fmt: skip
    print('bounds keyword available:', has_bounds)

    registered = list(grid_object_registry)
    color_subsets = [
        [Color.NONE],
        [Color.RED],
        [Color.YELLOW],
        [Color.NONE, Color.GREEN, Color.BLUE],
        ALL_COLORS,
    ]
    for n in range(1, len(registered) + 1):
        for types in itertools.combinations(registered, n):
            for colors in color_subsets:
                if 2 < n < 10 and len(colors) not in (1, 5):
                    continue
                objects = member_objects(types, colors)
                # sets (as before) and frozensets (as the classes use now)
                for make_set in (set, frozenset):
                    ts, cs = make_set(types), make_set(colors)
                    upper, convert = ref_objects_triple('default', ts, cs)
                    space = R.default_grid_object_representation_space(ts, cs)
                    check(_equal_space(space, upper), 'default space', types, colors)  # fmt: skip
                    upper_no, convert_no = ref_objects_triple('no-overlap', ts, cs)  # fmt: skip
                    space_no = R.no_overlap_grid_object_representation_space(ts, cs)  # fmt: skip
                    check(_equal_space(space_no, upper_no), 'no-overlap space', types, colors)  # fmt: skip
                    # channels do not overlap
                    check(upper_no[0] < upper_no[0] + 1 <= upper_no[1] < upper_no[2])  # fmt: skip
                    for obj in objects:
                        a = R.default_grid_object_representation_convert(obj)
                        check(a.dtype == np.dtype('int64') and a.tolist() == convert(obj))  # fmt: skip
                        check(bool(space.contains(a)))
                        a = R.no_overlap_grid_object_representation_convert(ts, cs, obj)  # fmt: skip
                        check(a.dtype == np.dtype('int64') and a.shape == (3,))
                        check(a.tolist() == convert_no(obj), 'no-overlap convert', obj, types, colors)  # fmt: skip
                        check(bool(space_no.contains(a)))
                        # the conversion never looked at the colours
                        b = R.no_overlap_grid_object_representation_convert(ts, make_set(), obj)  # fmt: skip
                        check(b.dtype == a.dtype and b.tolist() == a.tolist(), 'empty colours')  # fmt: skip

                    if has_bounds:
                        bounds = R.grid_object_index_bounds(ts, cs)
                        check(bounds == R.grid_object_index_bounds(set(ts), set(cs)))  # fmt: skip
                        check(hash(bounds) == hash(R.grid_object_index_bounds(ts, cs)))  # fmt: skip
                        check(_equal_space(R.default_grid_object_representation_space(ts, cs, bounds=bounds), upper))  # fmt: skip
                        check(_equal_space(R.default_grid_object_representation_space(ts, cs, bounds=None), upper))  # fmt: skip
                        check(_equal_space(R.no_overlap_grid_object_representation_space(ts, cs, bounds=bounds), upper_no))  # fmt: skip
                        check(_equal_space(R.no_overlap_grid_object_representation_space(ts, cs, bounds=None), upper_no))  # fmt: skip
                        for obj in objects:
                            a = R.no_overlap_grid_object_representation_convert(ts, cs, obj, bounds=bounds)  # fmt: skip
                            check(a.dtype == np.dtype('int64') and a.tolist() == convert_no(obj))  # fmt: skip
                            a = R.no_overlap_grid_object_representation_convert(ts, cs, obj, bounds=None)  # fmt: skip
                            check(a.tolist() == convert_no(obj))

    if has_bounds:
        bounds = R.grid_object_index_bounds({Door, Floor}, {Color.NONE, Color.BLUE})  # fmt: skip
        check((bounds.max_type_index, bounds.max_state_index, bounds.max_color_index) == (5, 3, 3))  # fmt: skip
        check((bounds.no_overlap_state_offset, bounds.no_overlap_color_offset) == (6, 10))  # fmt: skip
        try:
            bounds.max_type_index = 0
        except dataclasses.FrozenInstanceError:
            check(True)
        else:
            check(False, 'bounds are mutable')
        # keyword only
        try:
            R.default_grid_object_representation_space({Floor}, {Color.NONE}, bounds)  # fmt: skip
        except TypeError:
            check(True)
        else:
            check(False, 'bounds accepted positionally')

    # empty collections in the spaces: ValueError as ever
    for function in (
        R.default_grid_object_representation_space,
        R.no_overlap_grid_object_representation_space,
    ):
        for ts, cs in ((set(), {Color.NONE}), ({Floor}, set()), (set(), set())):
            try:
                function(ts, cs)
            except ValueError:
                check(True)
            else:
                check(False, 'empty accepted', function, ts, cs)
    try:
        R.no_overlap_grid_object_representation_convert(set(), {Color.NONE}, Floor())  # fmt: skip
    except ValueError:
        check(True)
    else:
        check(False, 'empty types accepted')

    # hard-coded expectations (shipped keydoor spaces)
    types, colors = [Wall, Floor, Exit, Door, Key], [Color.NONE, Color.YELLOW]
    for kind, space, expected in (
        ('state', StateSpace(Shape(5, 5), types, colors), {
            'default': ([6, 3, 4], [5, 2, 4], [6, 0, 4], [0, 0, 0]),
            'no-overlap': ([6, 10, 15], [5, 9, 15], [6, 7, 15], [0, 7, 11]),
            'compact': ([5, 13, 15], [4, 12, 15], [5, 13, 15], [0, 6, 14]),
        }),
        ('observation', ObservationSpace(Shape(7, 7), types, colors), {
            'default': ([6, 3, 4], [5, 2, 4], [6, 0, 4], [0, 0, 0]),
            'no-overlap': ([6, 10, 15], [5, 9, 15], [6, 7, 15], [0, 7, 11]),
            'compact': ([6, 15, 17], [5, 14, 17], [6, 15, 17], [0, 7, 16]),
        }),
    ):  # fmt: skip
        for rep, (upper, locked_door, key, nothing) in expected.items():
            maker = make_state_representation if kind == 'state' else make_observation_representation  # fmt: skip
            item = maker(rep, space).representations['item']
            check(item.space.upper_bound.tolist() == upper, kind, rep, item.space.upper_bound)  # fmt: skip
            g = item.grid_object_representation
            check(g.convert(Door(Door.Status.LOCKED, Color.YELLOW)).tolist() == locked_door, kind, rep, 'door', g.convert(Door(Door.Status.LOCKED, Color.YELLOW)))  # fmt: skip
            check(g.convert(Key(Color.YELLOW)).tolist() == key, kind, rep, 'key', g.convert(Key(Color.YELLOW)))  # fmt: skip
            check(g.convert(NoneGridObject()).tolist() == nothing, kind, rep, 'none', g.convert(NoneGridObject()))  # fmt: skip


def check_sharing_and_aliasing():
    """repeated calls, no aliasing of arrays, later mutation of the inner space"""
    for kind in ('state', 'observation'):
        for rep in REPRESENTATIONS:
            types, colors = [Floor, Wall, Door, Key], [Color.RED, Color.BLUE]
            if kind == 'state':
                inner = StateSpace(Shape(3, 4), types, colors)
                r = make_state_representation(rep, inner)
                member = State(
                    make_grid((3, 4), member_objects(types, colors), 0),
                    Agent(Position(2, 3), Orientation.RIGHT, Key(Color.BLUE)),
                )
            else:
                inner = ObservationSpace(Shape(3, 5), types, colors)
                r = make_observation_representation(rep, inner)
                member = Observation(
                    make_grid((3, 5), member_objects(types + [Hidden], colors), 0),  # fmt: skip
                    Agent(Position(2, 2), Orientation.FORWARD, Key(Color.BLUE)),
                )
            shape = inner.grid_shape.as_tuple
            bounds, convert = ref_space_and_convert(kind, rep, shape, types, colors)  # fmt: skip

            # spaces of successive calls are equal but share no array
            first, second = r.space, r.space
            check_space_against_reference(first, bounds, (kind, rep, 'first'))
            check_space_against_reference(second, bounds, (kind, rep, 'second'))
            for key in first:
                check(first[key] == second[key])
                check(not np.shares_memory(first[key].upper_bound, second[key].upper_bound), kind, rep, key, 'aliased upper')  # fmt: skip
                check(not np.shares_memory(first[key].lower_bound, second[key].lower_bound), kind, rep, key, 'aliased lower')  # fmt: skip
                first[key].upper_bound[...] = -7  # vandalise a returned space
                first[key].lower_bound[...] = 7
            check_space_against_reference(r.space, bounds, (kind, rep, 'after vandalism'))  # fmt: skip

            # conversions are repeatable, fresh arrays every time
            one, two = r.convert(member), r.convert(member)
            expected = convert(member)
            for key in one:
                check(np.array_equal(one[key], expected[key]) and one[key].dtype == expected[key].dtype)  # fmt: skip
                check(np.array_equal(two[key], expected[key]))
                check(not np.shares_memory(one[key], two[key]))
                one[key][...] = -1
            three = r.convert(member)
            for key in three:
                check(np.array_equal(three[key], expected[key]), kind, rep, key, 'after vandalism')  # fmt: skip
                check(bool(r.space[key].contains(three[key])))

            # the grid-object part of a representation is a snapshot of the
            # inner space at construction (sets were copied, maps were built)
            item_upper = r.space['item'].upper_bound.tolist()
            inner.colors.add(Color.YELLOW)
            inner.object_types.append(Beacon)
            check(r.space['item'].upper_bound.tolist() == item_upper, kind, rep, 'snapshot')  # fmt: skip
            check(np.array_equal(r.convert(member)['item'], expected['item']))
            check(np.array_equal(r.convert(member)['grid'], expected['grid']))
            # whereas a new representation sees the grown space
            maker = make_state_representation if kind == 'state' else make_observation_representation  # fmt: skip
            grown = maker(rep, inner).space['item'].upper_bound.tolist()
            upper, _ = ref_objects_triple(
                rep,
                set(types) | {Beacon, NoneGridObject} | ({Hidden} if kind == 'observation' else set()),  # fmt: skip
                set(colors) | {Color.NONE, Color.YELLOW},
            )
            check(grown == upper, kind, rep, 'grown', grown, upper)


def check_late_registration():
    """a type registered after a representation was built (last: it grows the registry)"""
    types, colors = [Floor, Door, Beacon], [Color.GREEN]
    before = {}
    for rep in REPRESENTATIONS:
        s = make_state_representation(rep, StateSpace(Shape(2, 3), types, colors))  # fmt: skip
        o = make_observation_representation(rep, ObservationSpace(Shape(2, 3), types, colors))  # fmt: skip
        before[rep] = (s, o, s.space, o.space)
    state = State(
        make_grid((2, 3), member_objects(types, colors), 3),
        Agent(Position(0, 2), Orientation.BACKWARD, Door(Door.Status.CLOSED, Color.GREEN)),  # fmt: skip
    )
    observation = Observation(
        make_grid((2, 3), member_objects(types + [Hidden], colors), 5),
        Agent(Position(1, 1), Orientation.FORWARD, None),
    )
    arrays_before = {
        rep: (s.convert(state), o.convert(observation))
        for rep, (s, o, _, _) in before.items()
    }

    class Lamp(GridObject):  # registers itself, index 11
        state_index = 0
        color = Color.NONE
        blocks_movement = False
        blocks_vision = False
        holdable = True

        def __init__(self, level):
            self.state_index = level

        @classmethod
        def can_be_represented_in_state(cls):
            return True

        @classmethod
        def num_states(cls):
            return 5

    check(Lamp.type_index() == 11 and len(grid_object_registry) == 12)
    check([t.type_index() for t in REAL_TYPES] == list(range(2, 11)))

    for rep, (s, o, s_space, o_space) in before.items():
        for key in s_space:
            check(s_space[key] == s.space[key], rep, key, 'state space moved')
        for key in o_space:
            check(o_space[key] == o.space[key], rep, key, 'obs space moved')
        s_arrays, o_arrays = s.convert(state), o.convert(observation)
        for key in s_arrays:
            check(np.array_equal(s_arrays[key], arrays_before[rep][0][key]))
            check(bool(s.space[key].contains(s_arrays[key])))
        for key in o_arrays:
            check(np.array_equal(o_arrays[key], arrays_before[rep][1][key]))
            check(bool(o.space[key].contains(o_arrays[key])))

    # spaces with the new type: every member object still inside
    types = [Floor, Door, Lamp]
    expected_upper = {
        ('state', 'default'): [11, 5, 2],
        ('state', 'no-overlap'): [11, 17, 20],
        ('state', 'compact'): [3, 13, 15],
        ('observation', 'default'): [11, 5, 2],
        ('observation', 'no-overlap'): [11, 17, 20],
        ('observation', 'compact'): [4, 15, 17],
    }
    objects = [Floor(), NoneGridObject(), Hidden()]
    objects += [Door(s, c) for s in Door.Status for c in (Color.NONE, Color.GREEN)]  # fmt: skip
    objects += [Lamp(level) for level in range(5)]
    for rep in REPRESENTATIONS:
        for kind, r in (
            ('state', make_state_representation(rep, StateSpace(Shape(2, 2), types, colors))),  # fmt: skip
            ('observation', make_observation_representation(rep, ObservationSpace(Shape(2, 3), types, colors))),  # fmt: skip
        ):
            item = r.representations['item']
            check(item.space.upper_bound.tolist() == expected_upper[kind, rep], kind, rep, item.space.upper_bound)  # fmt: skip
            for obj in objects:
                if kind == 'state' and isinstance(obj, Hidden):
                    continue
                a = item.grid_object_representation.convert(obj)
                check(a.dtype == np.dtype('int64'))
                check(bool(item.space.contains(a)), kind, rep, obj, a)
                if rep == 'no-overlap':
                    check(a.tolist() == [obj.type_index(), 12 + obj.state_index, 18 + obj.color.value])  # fmt: skip
                if rep == 'default':
                    check(a.tolist() == [obj.type_index(), obj.state_index, obj.color.value])  # fmt: skip


# ---------------------------------------------------------------------------
# 3. shipped configurations (tiny YAML-subset reader)
# ---------------------------------------------------------------------------


def _scalar(token):
    token = token.strip()
    if token in ('True', 'true'):
        return True
    if token in ('False', 'false'):
        return False
    for cast in (int, float):
        try:
            return cast(token)
        except ValueError:
            pass
    return token


def _flow(text):
    """parses `[ a, [ b, c ] ]` or a scalar"""
    text = text.strip()
    if not text.startswith('['):
        return _scalar(text)
    pos = 0

    def parse():
        nonlocal pos
        assert text[pos] == '['
        pos += 1
        items, token = [], ''
        while True:
            ch = text[pos]
            if ch == '[':
                items.append(parse())
                token = None
            elif ch in ',]':
                if token is not None and token.strip():
                    items.append(_scalar(token))
                token = ''
                pos += 1
                if ch == ']':
                    return items
            else:
                if token is not None:
                    token += ch
                pos += 1

    value = parse()
    assert not text[pos:].strip(), text
    return value


def _block(lines, i, indent):
    if lines[i][1].startswith('- '):
        items = []
        while i < len(lines) and lines[i][0] == indent and lines[i][1].startswith('- '):  # fmt: skip
            text = lines[i][1][2:].strip()
            inner = indent + 2
            if ':' in text and not text.startswith('['):
                lines[i] = (inner, text)
                item, i = _block(lines, i, inner)
            else:
                item, i = _flow(text), i + 1
            items.append(item)
        return items, i

    mapping = {}
    while i < len(lines) and lines[i][0] == indent and not lines[i][1].startswith('- '):  # fmt: skip
        key, rest = lines[i][1].split(':', 1)
        if rest.strip():
            mapping[key.strip()], i = _flow(rest), i + 1
        else:
            i += 1
            mapping[key.strip()], i = _block(lines, i, lines[i][0])
    return mapping, i


def load_yaml_subset(path):
    lines = []
    with open(path) as f:
        for raw in f:
            raw = raw.split('#', 1)[0].rstrip()
            if raw.strip():
                lines.append((len(raw) - len(raw.lstrip(' ')), raw.strip()))
    data, i = _block(lines, 0, 0)
    assert i == len(lines), path
    return data


def check_one_step(env, state_wrapper, where):
    inner = env.outer_env.inner_env
    arrays = env.observation
    space = env.outer_env.observation_representation.space
    check_member(space, env.observation_space, arrays, None, where + ('observation',))  # fmt: skip
    check(env.observation_space.contains(arrays), where, 'gym observation')
    check(inner.observation_space.contains(inner.observation), where, 'member obs')  # fmt: skip

    arrays = env.state
    space = env.outer_env.state_representation.space
    check_member(space, env.state_space, arrays, None, where + ('state',))
    check(env.state_space.contains(arrays), where, 'gym state')
    check(state_wrapper.observation_space.contains(state_wrapper.observation), where)  # fmt: skip
    check(inner.state_space.contains(inner.state), where, 'member state')
    return arrays


def check_shipped(steps):
    directories = ['yaml', os.path.join('gym_gridverse', 'registered_envs')]
    names = sorted(os.listdir(directories[0]))
    check(names == sorted(os.listdir(directories[1])))
    check(len(names) == 21, names)
    total = 0
    for name in names:
        data = load_yaml_subset(os.path.join(directories[0], name))
        check(data == load_yaml_subset(os.path.join(directories[1], name)), name)  # fmt: skip

        def make():
            inner = factory_env_from_data(load_yaml_subset(os.path.join(directories[1], name)))  # fmt: skip
            return GymEnvironment(
                OuterEnv(
                    inner,
                    state_representation=make_state_representation('default', inner.state_space),  # fmt: skip
                    observation_representation=make_observation_representation('default', inner.observation_space),  # fmt: skip
                )
            )

        # two environments of the same configuration live in one process
        env, twin = make(), make()
        wrapper = GymStateWrapper(env)
        rng = np.random.default_rng(len(name))
        for rep in REPRESENTATIONS + ('default',):
            env.set_state_representation(rep)
            env.set_observation_representation(rep)
            twin.set_state_representation(rep)
            twin.set_observation_representation(rep)
            wrapper = GymStateWrapper(env)

            # reference spaces from the inner spaces
            for kind, inner_space, rep_space in (
                ('state', env.outer_env.inner_env.state_space, env.outer_env.state_representation.space),  # fmt: skip
                ('observation', env.outer_env.inner_env.observation_space, env.outer_env.observation_representation.space),  # fmt: skip
            ):
                bounds, _ = ref_space_and_convert(kind, rep, inner_space.grid_shape.as_tuple, inner_space.object_types, inner_space.colors)  # fmt: skip
                check_space_against_reference(rep_space, bounds, (name, rep, kind))  # fmt: skip

            for seed in (7, 7, 11):  # re-seeding, same seed twice
                actions = rng.integers(env.action_space.n, size=steps)
                trajectories = []
                for e in (env, twin):
                    # (GymEnvironment.seed needs gym.utils.seeding.create_seed,
                    # which the installed gym no longer has)
                    e.outer_env.inner_env.set_seed(seed)
                    first = e.reset()
                    check(list(first.keys()) == ['grid', 'agent_id_grid', 'item'])  # fmt: skip
                    trajectory = []
                    for t, action in enumerate(actions):
                        _, reward, done, _ = e.step(int(action))
                        check(isinstance(reward, (int, float)) and isinstance(done, bool))  # fmt: skip
                        w = GymStateWrapper(e) if e is twin else wrapper
                        state_arrays = check_one_step(e, w, (name, rep, seed, t))  # fmt: skip
                        trajectory.append((state_arrays, e.observation))
                        total += 1
                        if done:
                            e.reset()
                            check_one_step(e, w, (name, rep, seed, t, 'reset'))
                    trajectories.append(trajectory)
                # same seed, same actions => identical numeric trajectories
                for (s1, o1), (s2, o2) in zip(*trajectories):
                    for k in s1:
                        check(np.array_equal(s1[k], s2[k]), name, rep, seed, 'twin state', k)  # fmt: skip
                    for k in o1:
                        check(np.array_equal(o1[k], o2[k]), name, rep, seed, 'twin obs', k)  # fmt: skip

            # the reference conversion agrees on the live members too
            inner = env.outer_env.inner_env
            _, convert = ref_space_and_convert('state', rep, inner.state_space.grid_shape.as_tuple, inner.state_space.object_types, inner.state_space.colors)  # fmt: skip
            expected = convert(inner.state)
            for k, a in env.state.items():
                check(np.array_equal(a, expected[k]) and a.dtype == expected[k].dtype, name, rep, 'ref state', k)  # fmt: skip
            _, convert = ref_space_and_convert('observation', rep, inner.observation_space.grid_shape.as_tuple, inner.observation_space.object_types, inner.observation_space.colors)  # fmt: skip
            expected = convert(inner.observation)
            for k, a in env.observation.items():
                check(np.array_equal(a, expected[k]) and a.dtype == expected[k].dtype, name, rep, 'ref obs', k)  # fmt: skip
    return total


def main():
    check_grid_object_functions()
    print('grid-object functions ok', CHECKS)
    check_sharing_and_aliasing()
    print('sharing / aliasing ok', CHECKS)
    n = check_grid_object_level()
    print('grid-object level ok: spaces', n, 'checks', CHECKS)
    n = check_members_level()
    print('member level ok: members', n, 'checks', CHECKS)
    n = check_shipped(steps=25)
    print('shipped ok: steps', n, 'checks', CHECKS)
    check_late_registration()
    print('late registration ok', CHECKS)
    print('OK')


if __name__ == '__main__':
    main()
