"""Demo for change B (`turn_agent` guarded by `Action.is_turn()`).

Checks the agent-kinematics property against a reference implementation that
is embedded here as literal tables, so the script gives the same verdict on the
pristine tree and with the patch applied.  Run from the worktree root:

    /venv/bin/python _seed/B/demo.py
"""
import itertools as itt
import os
import sys

sys.path.insert(0, os.getcwd())

import numpy.random as rnd  # noqa: E402

from gym_gridverse.action import Action  # noqa: E402
from gym_gridverse.agent import Agent  # noqa: E402
from gym_gridverse.envs import reset_functions as reset_fs  # noqa: E402
from gym_gridverse.envs import terminating_functions as term_fs  # noqa: E402
from gym_gridverse.envs import transition_functions as trans_fs  # noqa: E402
from gym_gridverse.envs.utils import get_next_position  # noqa: E402
from gym_gridverse.geometry import Orientation, Position, Shape  # noqa: E402
from gym_gridverse.grid import Grid  # noqa: E402
from gym_gridverse.grid_object import (  # noqa: E402
    Beacon,
    Box,
    Color,
    Door,
    Exit,
    Floor,
    Key,
    MovingObstacle,
    Telepod,
    Wall,
)
from gym_gridverse.state import State  # noqa: E402
from gym_gridverse.utils.fast_copy import fast_copy  # noqa: E402

F, B, L, R = Orientation.F, Orientation.B, Orientation.L, Orientation.R
HEADINGS = [F, R, B, L]
MOVES = [
    Action.MOVE_FORWARD,
    Action.MOVE_BACKWARD,
    Action.MOVE_LEFT,
    Action.MOVE_RIGHT,
]
TURNS = [Action.TURN_LEFT, Action.TURN_RIGHT]
OTHERS = [Action.ACTUATE, Action.PICK_N_DROP]
assert set(MOVES + TURNS + OTHERS) == set(Action)

# ---------------------------------------------------------------- reference
# (heading, move action) -> (dy, dx); y grows downward, heading F looks up
REF_DELTA = {
    (F, Action.MOVE_FORWARD): (-1, 0),
    (F, Action.MOVE_BACKWARD): (1, 0),
    (F, Action.MOVE_LEFT): (0, -1),
    (F, Action.MOVE_RIGHT): (0, 1),
    #
    (R, Action.MOVE_FORWARD): (0, 1),
    (R, Action.MOVE_BACKWARD): (0, -1),
    (R, Action.MOVE_LEFT): (-1, 0),
    (R, Action.MOVE_RIGHT): (1, 0),
    #
    (B, Action.MOVE_FORWARD): (1, 0),
    (B, Action.MOVE_BACKWARD): (-1, 0),
    (B, Action.MOVE_LEFT): (0, 1),
    (B, Action.MOVE_RIGHT): (0, -1),
    #
    (L, Action.MOVE_FORWARD): (0, -1),
    (L, Action.MOVE_BACKWARD): (0, 1),
    (L, Action.MOVE_LEFT): (1, 0),
    (L, Action.MOVE_RIGHT): (-1, 0),
}

# (heading, turn action) -> heading
REF_TURN = {
    (F, Action.TURN_LEFT): L,
    (L, Action.TURN_LEFT): B,
    (B, Action.TURN_LEFT): R,
    (R, Action.TURN_LEFT): F,
    (F, Action.TURN_RIGHT): R,
    (R, Action.TURN_RIGHT): B,
    (B, Action.TURN_RIGHT): L,
    (L, Action.TURN_RIGHT): F,
}


def target_objects():
    """(factory, blocks) for every object type and status"""
    out = [
        (Floor, False),
        (Wall, True),
        (MovingObstacle, False),
        (lambda: Box(Floor()), True),
        (lambda: Box(Key(Color.RED)), True),
    ]
    for color in Color:
        out.append((lambda c=color: Exit(c), False))
        out.append((lambda c=color: Key(c), False))
        out.append((lambda c=color: Telepod(c), False))
        out.append((lambda c=color: Beacon(c), False))
        out.append((lambda c=color: Door(Door.Status.OPEN, c), False))
        out.append((lambda c=color: Door(Door.Status.CLOSED, c), True))
        out.append((lambda c=color: Door(Door.Status.LOCKED, c), True))
    return out


def ref_next_pose(grid_blocks, shape, y, x, heading, action):
    """reference kinematics; `grid_blocks[y][x]` is a bool"""
    if action in TURNS:
        return y, x, REF_TURN[heading, action]
    if action in MOVES:
        dy, dx = REF_DELTA[heading, action]
        ny, nx = y + dy, x + dx
        if 0 <= ny < shape[0] and 0 <= nx < shape[1] and not grid_blocks[ny][nx]:
            return ny, nx, heading
    return y, x, heading


SHAPES = [(1, 1), (1, 4), (3, 1), (2, 3), (3, 2), (4, 5), (5, 4)]
checks = 0


def check(condition, *info):
    global checks
    checks += 1
    if not condition:
        print('FAILED', *info)
        sys.exit(1)


# ----------------------------------------- 1. get_next_position, all inputs
for heading in HEADINGS:
    for y, x in [(0, 0), (3, 7), (-2, 5), (10**6, -(10**6))]:
        position = Position(y, x)
        for action in Action:
            for _ in range(2):  # repeated calls give the same answer
                result = get_next_position(position, heading, action)
                if action in MOVES:
                    dy, dx = REF_DELTA[heading, action]
                    expected = Position(y + dy, x + dx)
                else:
                    expected = position
                check(
                    result == expected and isinstance(result, Position),
                    'get_next_position',
                    position,
                    heading,
                    action,
                    result,
                )
            check(position == Position(y, x), 'input position mutated')

# aliases name the same members
check(
    get_next_position(Position(1, 1), Orientation.FORWARD, Action.MOVE_LEFT)
    == get_next_position(Position(1, 1), Orientation.F, Action.MOVE_LEFT)
    == Position(1, 0),
    'alias',
)

# ------------------- 2. move_agent / turn_agent, all grids x poses x targets
objects = target_objects()
for shape in SHAPES:
    height, width = shape
    for (factory, blocks), y, x, heading in itt.product(
        objects, range(height), range(width), HEADINGS
    ):
        # every neighbour holds the tested object, the agent cell is a floor
        grid = Grid.from_shape(shape, factory=factory)
        grid[y, x] = Floor()
        grid_blocks = [[blocks] * width for _ in range(height)]
        grid_blocks[y][x] = False
        held = Key(Color.BLUE)

        for action in Action:
            state = State(grid, Agent(Position(y, x), heading, held))
            before = fast_copy(state)

            trans_fs.move_agent(state, action)
            if action in MOVES:
                ey, ex, eh = ref_next_pose(
                    grid_blocks, shape, y, x, heading, action
                )
            else:
                ey, ex, eh = y, x, heading
            check(
                state.agent.position == Position(ey, ex)
                and state.agent.orientation is eh,
                'move_agent',
                shape,
                (y, x),
                heading,
                action,
                grid[0, 0],
                state.agent,
            )
            check(state.grid == before.grid, 'move_agent changed the grid')
            check(state.agent.grid_object is held, 'move_agent changed item')

            state = State(grid, Agent(Position(y, x), heading, held))
            trans_fs.turn_agent(state, action)
            eh = REF_TURN[heading, action] if action in TURNS else heading
            check(
                state.agent.position == Position(y, x)
                and state.agent.orientation is eh,
                'turn_agent',
                shape,
                (y, x),
                heading,
                action,
                state.agent,
            )
            check(state.grid == before.grid, 'turn_agent changed the grid')
            check(state.agent.grid_object is held, 'turn_agent changed item')

            # the shipped chain move_agent -> turn_agent
            state = State(grid, Agent(Position(y, x), heading, held))
            trans_fs.move_agent(state, action)
            trans_fs.turn_agent(state, action)
            ey, ex, eh = ref_next_pose(grid_blocks, shape, y, x, heading, action)
            check(
                state.agent.position == Position(ey, ex)
                and state.agent.orientation is eh,
                'chain',
                shape,
                (y, x),
                heading,
                action,
            )

# mixed neighbourhood: each of the four neighbours is different
grid = Grid.from_shape((3, 3))
grid[0, 1] = Wall()
grid[1, 0] = Door(Door.Status.OPEN, Color.NONE)
grid[1, 2] = Door(Door.Status.LOCKED, Color.YELLOW)
grid[2, 1] = Box(Floor())
grid_blocks = [
    [False, True, False],
    [False, False, True],
    [False, True, False],
]
for heading, action in itt.product(HEADINGS, Action):
    state = State(grid, Agent(Position(1, 1), heading))
    trans_fs.move_agent(state, action)
    trans_fs.turn_agent(state, action)
    ey, ex, eh = ref_next_pose(grid_blocks, (3, 3), 1, 1, heading, action)
    check(
        state.agent.position == Position(ey, ex)
        and state.agent.orientation is eh,
        'mixed',
        heading,
        action,
        state.agent,
    )

# turn laws
for heading in HEADINGS:
    state = State(Grid.from_shape((1, 1)), Agent(Position(0, 0), heading))
    trans_fs.turn_agent(state, Action.TURN_LEFT)
    trans_fs.turn_agent(state, Action.TURN_RIGHT)
    check(state.agent.orientation is heading, 'left then right')
    for action in TURNS:
        seen = []
        for _ in range(4):
            trans_fs.turn_agent(state, action)
            seen.append(state.agent.orientation)
        check(state.agent.orientation is heading, 'four turns')
        check(len(set(seen)) == 4, 'quarter turns are distinct')
    check(state.agent.position == Position(0, 0), 'turn displaced')

# turn_agent in detail: the set of turning actions, what is (not) touched
check(
    {action for action in Action if action.is_turn()} == set(TURNS),
    'is_turn',
)
check(not any(action.is_move() and action.is_turn() for action in Action), '')
for (y, x), heading, action, held in itt.product(
    [(0, 0), (0, 2), (1, 1), (2, 0)],
    HEADINGS,
    Action,
    [None, Key(Color.NONE), Box(Floor())],
):
    # agent may even stand on a blocking cell / next to the outside: turning
    # never looks at the grid
    grid = Grid.from_shape((3, 3), factory=Wall)
    agent = Agent(Position(y, x), heading, held)
    transform = agent.transform
    position = agent.position
    item = agent.grid_object
    state = State(grid, agent)
    result = trans_fs.turn_agent(state, action, rng=None)
    check(result is None, 'turn_agent returns None')
    check(state.agent is agent and state.grid is grid, 'state components')
    check(agent.transform is transform, 'pose object replaced')
    check(agent.position is position, 'position object replaced')
    check(agent.grid_object is item, 'held item replaced')
    expected = REF_TURN[heading, action] if action in TURNS else heading
    check(agent.orientation is expected, 'turn_agent', heading, action)
    check(
        all(isinstance(grid[p], Wall) for p in grid.area.positions()),
        'turn_agent touched the grid',
    )
    # with an explicit generator: not consumed
    rng = rnd.default_rng(7)
    trans_fs.turn_agent(state, action, rng=rng)
    check(
        rng.integers(1 << 30) == rnd.default_rng(7).integers(1 << 30),
        'turn_agent consumed randomness',
    )

# through the factory / registry, twice in a chain
turn_twice = trans_fs.factory(
    'chain',
    transition_functions=[
        trans_fs.factory('turn_agent'),
        trans_fs.factory('turn_agent'),
    ],
)
for heading, action in itt.product(HEADINGS, Action):
    state = State(Grid.from_shape((2, 2)), Agent(Position(1, 0), heading))
    turn_twice(state, action)
    expected = heading
    if action in TURNS:
        expected = REF_TURN[REF_TURN[heading, action], action]
    check(
        state.agent.orientation is expected
        and state.agent.position == Position(1, 0),
        'chained turns',
        heading,
        action,
    )

# ------------------------------- 3. the other users of get_next_position
grid = Grid.from_shape((3, 4))
grid[0, 0] = Wall()
grid[2, 3] = Wall()
grid[1, 1] = Box(Floor())
for y, x, heading, action in itt.product(range(3), range(4), HEADINGS, Action):
    state = State(grid, Agent(Position(y, x), heading))
    if action in MOVES:
        dy, dx = REF_DELTA[heading, action]
        ny, nx = y + dy, x + dx
        expected = (
            0 <= ny < 3 and 0 <= nx < 4 and (ny, nx) in [(0, 0), (2, 3)]
        )
    else:
        expected = (y, x) in [(0, 0), (2, 3)]
    check(
        term_fs.bump_into_wall(state, action, state) == expected,
        'bump_into_wall',
        (y, x),
        heading,
        action,
    )

# ---------------------- 4. histories from reset in the shipped configurations
C4 = {Color.RED, Color.GREEN, Color.BLUE, Color.YELLOW}
MOVE_TURN = ['move_agent', 'turn_agent']
CONFIGS = [
    ('crossing', dict(shape=Shape(5, 5), num_rivers=1, object_type=Wall), MOVE_TURN),
    ('crossing', dict(shape=Shape(7, 7), num_rivers=2, object_type=Wall), MOVE_TURN),
    ('dynamic_obstacles', dict(shape=Shape(5, 5), num_obstacles=1, random_agent=False), MOVE_TURN + ['move_obstacles']),
    ('dynamic_obstacles', dict(shape=Shape(7, 7), num_obstacles=2, random_agent=False), MOVE_TURN + ['move_obstacles']),
    ('empty', dict(shape=Shape(4, 4), random_agent=True), MOVE_TURN),
    ('empty', dict(shape=Shape(8, 8), random_agent=True), MOVE_TURN),
    ('rooms', dict(shape=Shape(7, 7), layout=(2, 2)), MOVE_TURN),
    ('rooms', dict(shape=Shape(9, 9), layout=(2, 2)), MOVE_TURN),
    ('rooms', dict(shape=Shape(10, 10), layout=(3, 3)), MOVE_TURN),
    ('rooms', dict(shape=Shape(13, 13), layout=(3, 3)), MOVE_TURN),
    ('keydoor', dict(shape=Shape(5, 5)), MOVE_TURN + ['actuate_door', 'pickndrop']),
    ('keydoor', dict(shape=Shape(7, 7)), MOVE_TURN + ['actuate_door', 'pickndrop']),
    ('keydoor', dict(shape=Shape(9, 9)), MOVE_TURN + ['actuate_door', 'pickndrop']),
    ('memory', dict(shape=Shape(5, 5), colors=C4), MOVE_TURN),
    ('memory', dict(shape=Shape(9, 9), colors=C4), MOVE_TURN),
    ('memory_rooms', dict(shape=Shape(7, 7), layout=(2, 2), colors=C4, num_beacons=1, num_exits=2), MOVE_TURN),
    ('memory_rooms', dict(shape=Shape(9, 9), layout=(2, 2), colors=C4, num_beacons=1, num_exits=2), MOVE_TURN),
    ('memory_rooms', dict(shape=Shape(10, 10), layout=(3, 3), colors=C4, num_beacons=1, num_exits=2), MOVE_TURN),
    ('memory_rooms', dict(shape=Shape(13, 13), layout=(3, 3), colors=C4, num_beacons=1, num_exits=2), MOVE_TURN),
    ('teleport', dict(shape=Shape(5, 5)), MOVE_TURN + ['teleport']),
    ('teleport', dict(shape=Shape(7, 7)), MOVE_TURN + ['teleport']),
    # legal, non-square
    ('empty', dict(shape=Shape(4, 9), random_agent=True), MOVE_TURN),
    ('keydoor', dict(shape=Shape(5, 8)), MOVE_TURN + ['actuate_door', 'pickndrop']),
]


def blocks_matrix(grid):
    return [
        [grid[y, x].blocks_movement for x in range(grid.shape.width)]
        for y in range(grid.shape.height)
    ]


def run_history(reset, transitions, seed, steps, actions):
    """returns the pose trace; checks the invariant and the step reference"""
    rng = rnd.default_rng(seed)
    action_rng = rnd.default_rng(seed + 1000)
    state = reset(rng=rng)
    trace = []
    for _ in range(steps):
        grid = state.grid
        position = state.agent.position
        check(grid.area.contains(position), 'agent outside of the grid')
        check(not grid[position].blocks_movement, 'agent on a blocking cell')
        trace.append((position.yx, state.agent.orientation))

        action = actions[action_rng.integers(len(actions))]
        shape = (grid.shape.height, grid.shape.width)
        ey, ex, eh = ref_next_pose(
            blocks_matrix(grid), shape, position.y, position.x,
            state.agent.orientation, action,
        )
        next_state = fast_copy(state)
        for i, transition in enumerate(transitions):
            transition(next_state, action, rng=rng)
            if i == 1:
                # pose right after move_agent, turn_agent
                check(
                    next_state.agent.position == Position(ey, ex)
                    and next_state.agent.orientation is eh,
                    'history step', action, state.agent, next_state.agent,
                )
        # after the whole chain: heading as commanded; position as commanded
        # unless the agent was teleported from a telepod onto a telepod
        check(next_state.agent.orientation is eh, 'heading after chain')
        if next_state.agent.position != Position(ey, ex):
            check(
                isinstance(next_state.grid[ey, ex], Telepod)
                and isinstance(next_state.grid[next_state.agent.position], Telepod),
                'displaced by something else than teleportation',
            )
        state = next_state
    return trace


for name, kwargs, transition_names in CONFIGS:
    reset = reset_fs.factory(name, **kwargs)
    transitions = [trans_fs.factory(n) for n in transition_names]
    actions = list(Action) if 'pickndrop' in transition_names else MOVES + TURNS
    for seed in range(3):
        trace = run_history(reset, transitions, seed, 150, actions)
        # re-seeding reproduces the same history (second env, same process)
        reset2 = reset_fs.factory(name, **kwargs)
        transitions2 = [trans_fs.factory(n) for n in transition_names]
        trace2 = run_history(reset2, transitions2, seed, 150, actions)
        check(trace == trace2, 're-seeded history differs', name, seed)

print(f'OK ({checks} checks)')
