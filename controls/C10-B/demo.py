# ---------------------------------------------------------------------------
# Independent reference model (does NOT call any library logic: it only reads
# plain attributes of library objects -- type name, `.state`, `.color`,
# `.content`, agent position/orientation/held object -- and re-implements the
# dynamics on plain tuples).
# ---------------------------------------------------------------------------
import os
import sys

sys.path.insert(0, os.getcwd())

import numpy as np  # noqa: E402
import numpy.random as rnd  # noqa: E402

from gym_gridverse.action import Action  # noqa: E402
from gym_gridverse.agent import Agent  # noqa: E402
from gym_gridverse.envs import transition_functions as tf  # noqa: E402
from gym_gridverse.geometry import Orientation, Position, Shape  # noqa: E402
from gym_gridverse.grid import Grid  # noqa: E402
from gym_gridverse.grid_object import (  # noqa: E402
    Beacon,
    Box,
    Color,
    Door,
    Exit,
    Floor,
    Key,
    MovingObstacle,
    NoneGridObject,
    Telepod,
    Wall,
)
from gym_gridverse.state import State  # noqa: E402

COLORS = list(Color)
STATUSES = list(Door.Status)
ACTIONS = list(Action)
ORIENTATIONS = [
    Orientation.FORWARD,
    Orientation.RIGHT,
    Orientation.BACKWARD,
    Orientation.LEFT,
]

# clockwise index of an orientation, and the (dy, dx) it points to
ORI_INDEX = {'FORWARD': 0, 'RIGHT': 1, 'BACKWARD': 2, 'LEFT': 3}
ORI_DELTA = [(-1, 0), (0, 1), (1, 0), (0, -1)]
MOVE_INDEX = {
    'MOVE_FORWARD': 0,
    'MOVE_RIGHT': 1,
    'MOVE_BACKWARD': 2,
    'MOVE_LEFT': 3,
}


def enc(obj):
    """library grid-object -> plain tuple"""
    name = type(obj).__name__
    if name == 'Door':
        return ('Door', obj.state.name, obj.color.name)
    if name == 'Box':
        return ('Box', enc(obj.content))
    if name in ('Key', 'Exit', 'Telepod', 'Beacon'):
        return (name, obj.color.name)
    if name in ('Floor', 'Wall', 'MovingObstacle', 'NoneGridObject', 'Hidden'):
        return (name,)
    raise AssertionError(f'unexpected object {obj!r}')


def snapshot(state):
    """library state -> plain model state (cells, agent)"""
    height, width = state.grid.shape.height, state.grid.shape.width
    cells = tuple(
        tuple(enc(state.grid.objects[y][x]) for x in range(width))
        for y in range(height)
    )
    agent = (
        int(state.agent.position.y),
        int(state.agent.position.x),
        ORI_INDEX[state.agent.orientation.name],
        enc(state.agent.grid_object),
    )
    return cells, agent


def _set(cells, y, x, value):
    rows = [list(row) for row in cells]
    rows[y][x] = value
    return tuple(tuple(row) for row in rows)


def model_front(cells, agent):
    y, x, o, _ = agent
    dy, dx = ORI_DELTA[o]
    fy, fx = y + dy, x + dx
    if 0 <= fy < len(cells) and 0 <= fx < len(cells[0]):
        return fy, fx
    return None


def model_blocks(cell):
    if cell[0] in ('Wall', 'Box'):
        return True
    if cell[0] == 'Door':
        return cell[1] != 'OPEN'
    return False


def model_actuate_door(cells, agent, action_name):
    if action_name != 'ACTUATE':
        return cells, agent
    front = model_front(cells, agent)
    if front is None:
        return cells, agent
    fy, fx = front
    cell = cells[fy][fx]
    if cell[0] != 'Door':
        return cells, agent
    _, status, color = cell
    held = agent[3]
    if status == 'CLOSED':
        status = 'OPEN'
    elif status == 'LOCKED' and held == ('Key', color):
        status = 'OPEN'
    return _set(cells, fy, fx, ('Door', status, color)), agent


def model_actuate_box(cells, agent, action_name):
    if action_name != 'ACTUATE':
        return cells, agent
    front = model_front(cells, agent)
    if front is None:
        return cells, agent
    fy, fx = front
    cell = cells[fy][fx]
    if cell[0] != 'Box':
        return cells, agent
    return _set(cells, fy, fx, cell[1]), agent


def model_pickndrop(cells, agent, action_name):
    if action_name != 'PICK_N_DROP':
        return cells, agent
    front = model_front(cells, agent)
    if front is None:
        return cells, agent
    fy, fx = front
    cell = cells[fy][fx]
    y, x, o, held = agent
    if cell[0] == 'Key':
        # pick up (swap if already holding something)
        new_cell = ('Floor',) if held == ('NoneGridObject',) else held
        return _set(cells, fy, fx, new_cell), (y, x, o, cell)
    if cell[0] == 'Floor':
        # drop (nothing happens when holding nothing: floor stays floor)
        new_cell = ('Floor',) if held == ('NoneGridObject',) else held
        return _set(cells, fy, fx, new_cell), (y, x, o, ('NoneGridObject',))
    return cells, agent


def model_move(cells, agent, action_name):
    if action_name not in MOVE_INDEX:
        return cells, agent
    y, x, o, held = agent
    dy, dx = ORI_DELTA[(o + MOVE_INDEX[action_name]) % 4]
    ny, nx = y + dy, x + dx
    if not (0 <= ny < len(cells) and 0 <= nx < len(cells[0])):
        return cells, agent
    if model_blocks(cells[ny][nx]):
        return cells, agent
    return cells, (ny, nx, o, held)


def model_turn(cells, agent, action_name):
    y, x, o, held = agent
    if action_name == 'TURN_LEFT':
        return cells, (y, x, (o + 3) % 4, held)
    if action_name == 'TURN_RIGHT':
        return cells, (y, x, (o + 1) % 4, held)
    return cells, agent


MODEL = {
    'move_agent': model_move,
    'turn_agent': model_turn,
    'actuate_door': model_actuate_door,
    'actuate_box': model_actuate_box,
    'pickndrop': model_pickndrop,
}


def model_chain(names, cells, agent, action_name):
    for name in names:
        cells, agent = MODEL[name](cells, agent, action_name)
    return cells, agent


def all_objects(state):
    """identity map of every object reachable from the state"""
    objs = []
    for row in state.grid.objects:
        for obj in row:
            objs.append(obj)
            while isinstance(obj, Box):
                obj = obj.content
                objs.append(obj)
    objs.append(state.agent.grid_object)
    return objs


def held_candidates():
    """none, a key of each colour, and other (non-key) objects of each colour"""
    out = [lambda: None, lambda: NoneGridObject()]
    for color in COLORS:
        out.append(lambda color=color: Key(color))
        out.append(lambda color=color: Telepod(color))
        out.append(lambda color=color: Beacon(color))
        out.append(lambda color=color: Exit(color))
        out.append(lambda color=color: Door(Door.Status.OPEN, color))
    out.append(lambda: Floor())
    out.append(lambda: Wall())
    out.append(lambda: MovingObstacle())
    out.append(lambda: Box(Key(Color.RED)))
    return out


def rng_state(rng):
    return repr(rng.bit_generator.state)


# ---------------------------------------------------------------------------
# Driver B: actuate_box and pickndrop (and their interplay with doors)
# ---------------------------------------------------------------------------
def make_state(height, width, placements, agent_yx, orientation, held):
    grid = Grid.from_shape((height, width))
    for (y, x), obj in placements.items():
        grid[y, x] = obj
    agent = Agent(Position(*agent_yx), orientation, held)
    return State(grid, agent)


def check_call(function, names, state, action, rng_mode='rng'):
    """calls `function` on state and compares with the model chain `names`"""
    cells, agent = snapshot(state)
    grid_before = state.grid
    agent_before = state.agent
    rows_before = list(state.grid.objects)

    if rng_mode == 'none':
        import gym_gridverse.rng as gv_rng

        global_rng = gv_rng.get_gv_rng()
        before = rng_state(global_rng)
        result = function(state, action)
        assert rng_state(gv_rng.get_gv_rng()) == before
        assert gv_rng.get_gv_rng() is global_rng
    else:
        rng = rnd.default_rng(12345)
        before = rng_state(rng)
        result = function(state, action, rng=rng)
        assert rng_state(rng) == before, 'random numbers were consumed'

    assert result is None
    expected = model_chain(names, cells, agent, action.name)
    got = snapshot(state)
    assert got == expected, (action, cells, agent, got, expected)

    # aliasing: containers are the same objects, mutated in place
    assert state.grid is grid_before
    assert state.agent is agent_before
    assert all(a is b for a, b in zip(state.grid.objects, rows_before))


def content_candidates():
    out = [lambda: Floor(), lambda: Wall(), lambda: MovingObstacle()]
    for color in COLORS:
        out.append(lambda color=color: Key(color))
        out.append(lambda color=color: Exit(color))
        out.append(lambda color=color: Telepod(color))
        for status in STATUSES:
            out.append(lambda color=color, status=status: Door(status, color))
    out.append(lambda: Box(Key(Color.BLUE)))
    out.append(lambda: Box(Box(Door(Door.Status.LOCKED, Color.RED))))
    return out


def exhaustive_single_box():
    """all contents x held items x poses x actions, 3 box cells"""
    actuate_box = tf.actuate_box
    via_factory = tf.factory('actuate_box')
    assert tf.transition_function_registry['actuate_box'] is actuate_box

    count = 0
    opened = 0
    height, width = 3, 3
    held_makers = held_candidates()[::3]  # none, and a mix of keys / others
    for box_yx in [(1, 1), (0, 0), (1, 2)]:
        for make_content in content_candidates():
            for make_held in held_makers:
                for ay in range(height):
                    for ax in range(width):
                        for orientation in ORIENTATIONS:
                            for action in ACTIONS:
                                content = make_content()
                                box = Box(content)
                                held = make_held()
                                state = make_state(
                                    height,
                                    width,
                                    {box_yx: box},
                                    (ay, ax),
                                    orientation,
                                    held,
                                )
                                others = {
                                    (y, x): state.grid[y, x]
                                    for y in range(height)
                                    for x in range(width)
                                    if (y, x) != box_yx
                                }
                                content_snapshot = enc(content)
                                function = (
                                    via_factory if count % 3 == 0 else actuate_box
                                )
                                check_call(
                                    function,
                                    ['actuate_box'],
                                    state,
                                    action,
                                    'none' if count % 5 == 0 else 'rng',
                                )
                                count += 1

                                dy, dx = ORI_DELTA[ORI_INDEX[orientation.name]]
                                faced = (ay + dy, ax + dx) == box_yx
                                if action is Action.ACTUATE and faced:
                                    opened += 1
                                    # replaced by its content, the very object
                                    assert state.grid[box_yx] is content
                                else:
                                    assert state.grid[box_yx] is box
                                # the box and the content are not mutated
                                assert box.content is content
                                assert enc(content) == content_snapshot
                                # every other cell holds the same object
                                for yx, obj in others.items():
                                    assert state.grid[yx] is obj
                                # held item is never consumed or replaced
                                if held is not None:
                                    assert state.agent.grid_object is held
                                else:
                                    assert isinstance(
                                        state.agent.grid_object, NoneGridObject
                                    )
                                assert state.agent.position == Position(ay, ax)
                                assert state.agent.orientation is orientation
    print(f'exhaustive_single_box: {count} cases, {opened} openings')
    assert opened > 0


def exhaustive_pickndrop():
    """all faced objects x held items x poses x actions"""
    pickndrop = tf.pickndrop
    via_factory = tf.factory('pickndrop')
    assert tf.transition_function_registry['pickndrop'] is pickndrop

    count = 0
    picks = drops = swaps = 0
    height, width = 2, 3
    target_yx = (0, 1)
    front_makers = content_candidates()
    held_makers = held_candidates()
    for make_front in front_makers:
        for make_held in held_makers:
            for ay in range(height):
                for ax in range(width):
                    for orientation in ORIENTATIONS:
                        for action in ACTIONS:
                            target = make_front()
                            held = make_held()
                            state = make_state(
                                height,
                                width,
                                {target_yx: target},
                                (ay, ax),
                                orientation,
                                held,
                            )
                            held_obj = state.agent.grid_object
                            check_call(
                                via_factory if count % 2 else pickndrop,
                                ['pickndrop'],
                                state,
                                action,
                                'none' if count % 7 == 0 else 'rng',
                            )
                            count += 1

                            dy, dx = ORI_DELTA[ORI_INDEX[orientation.name]]
                            faced = (ay + dy, ax + dx) == target_yx
                            holding = not isinstance(held_obj, NoneGridObject)
                            if not (action is Action.PICK_N_DROP and faced):
                                # doors, boxes, keys unaffected
                                assert state.grid[target_yx] is target
                                if action is not Action.PICK_N_DROP:
                                    assert state.agent.grid_object is held_obj
                            elif isinstance(target, Key):
                                assert state.agent.grid_object is target
                                if holding:
                                    swaps += 1
                                    assert state.grid[target_yx] is held_obj
                                else:
                                    picks += 1
                                    assert type(state.grid[target_yx]) is Floor
                            elif type(target) is Floor:
                                assert isinstance(
                                    state.agent.grid_object, NoneGridObject
                                )
                                if holding:
                                    drops += 1
                                    assert state.grid[target_yx] is held_obj
                                else:
                                    assert type(state.grid[target_yx]) is Floor
                            else:
                                # doors, boxes, walls ... cannot be picked or
                                # dropped upon
                                assert state.grid[target_yx] is target
                                assert state.agent.grid_object is held_obj
                            assert state.agent.position == Position(ay, ax)
                            assert state.agent.orientation is orientation
    print(
        f'exhaustive_pickndrop: {count} cases, '
        f'{picks} picks, {drops} drops, {swaps} swaps'
    )
    assert picks and drops and swaps


def random_worlds():
    """random multi-object worlds, random action sequences, full chain"""
    names = ['move_agent', 'turn_agent', 'actuate_door', 'actuate_box', 'pickndrop']
    chain = tf.factory(
        'chain', transition_functions=[tf.factory(name) for name in names]
    )
    rng = rnd.default_rng(4048)

    def random_object(depth=0):
        k = rng.integers(0, 10)
        color = COLORS[rng.integers(len(COLORS))]
        if k <= 1:
            return Door(STATUSES[rng.integers(len(STATUSES))], color)
        if k <= 3:
            return Key(color)
        if k <= 5 and depth < 3:
            return Box(random_object(depth + 1))
        if k == 6:
            return Wall()
        if k == 7:
            return Telepod(color)
        return Floor()

    steps = 0
    box_openings = 0
    for world in range(300):
        height = int(rng.integers(1, 6))
        width = int(rng.integers(1, 6))
        placements = {
            (y, x): random_object()
            for y in range(height)
            for x in range(width)
        }
        agent_yx = (int(rng.integers(height)), int(rng.integers(width)))
        orientation = ORIENTATIONS[rng.integers(4)]
        held = [None, Key(COLORS[rng.integers(len(COLORS))])][rng.integers(2)]
        state = make_state(
            height, width, placements, agent_yx, orientation, held
        )
        for _ in range(60):
            action = (
                ACTIONS[rng.integers(len(ACTIONS))]
                if rng.random() < 0.6
                else [Action.ACTUATE, Action.PICK_N_DROP][rng.integers(2)]
            )
            cells, agent = snapshot(state)
            front = model_front(cells, agent)
            boxes_before = {
                (y, x): state.grid[y, x]
                for y in range(height)
                for x in range(width)
                if isinstance(state.grid[y, x], Box)
            }
            n_objects = len(all_objects(state))
            check_call(chain, names, state, action)
            steps += 1
            for yx, box in boxes_before.items():
                if state.grid[yx] is not box:
                    box_openings += 1
                    assert action is Action.ACTUATE and front == yx
                    assert state.grid[yx] is box.content
            # keys (and everything else) are conserved, except opened boxes
            # and the fresh floor left behind by a pick-up
            n_after = len(all_objects(state))
            assert n_after in (n_objects - 1, n_objects), (n_objects, n_after)

        before = snapshot(state)
        next_state = tf.transition_with_copy(chain, state, Action.ACTUATE)
        assert snapshot(state) == before
        assert snapshot(next_state) == model_chain(
            names, before[0], before[1], 'ACTUATE'
        )
    print(f'random_worlds: {steps} steps, {box_openings} box openings')
    assert box_openings > 0


def keydoor_with_boxed_key():
    """key-door environment variant where the key starts inside a box"""
    from gym_gridverse.envs import reset_functions as rf

    names = ['move_agent', 'turn_agent', 'actuate_door', 'actuate_box', 'pickndrop']
    chain = tf.factory(
        'chain', transition_functions=[tf.factory(name) for name in names]
    )
    policy_rng = rnd.default_rng(7)
    unlocked = 0
    unboxed = 0
    for size in [(5, 5), (6, 8), (7, 7)]:
        reset = rf.factory('keydoor', shape=Shape(*size))
        for seed in range(25):
            state = reset(rng=rnd.default_rng(seed))
            # box the key
            for y in range(size[0]):
                for x in range(size[1]):
                    if isinstance(state.grid[y, x], Key):
                        state.grid[y, x] = Box(state.grid[y, x])
            key_was_used = False
            for _ in range(200):
                cells, agent = snapshot(state)
                flat = [cell for row in cells for cell in row]
                n_keys = (
                    flat.count(('Key', 'YELLOW'))
                    + flat.count(('Box', ('Key', 'YELLOW')))
                    + (agent[3] == ('Key', 'YELLOW'))
                )
                assert n_keys == 1
                if not key_was_used:
                    assert ('Door', 'LOCKED', 'YELLOW') in flat
                    assert ('Door', 'OPEN', 'YELLOW') not in flat

                front = model_front(cells, agent)
                front_cell = None if front is None else cells[front[0]][front[1]]
                r = policy_rng.random()
                if front_cell == ('Key', 'YELLOW') and r < 0.7:
                    action = Action.PICK_N_DROP
                elif (
                    front_cell is not None
                    and front_cell[0] in ('Door', 'Box')
                    and r < 0.7
                ):
                    action = Action.ACTUATE
                else:
                    action = ACTIONS[policy_rng.integers(len(ACTIONS))]

                if action is Action.ACTUATE and front_cell is not None:
                    if front_cell[0] == 'Box':
                        unboxed += 1
                    if (
                        front_cell == ('Door', 'LOCKED', 'YELLOW')
                        and agent[3] == ('Key', 'YELLOW')
                    ):
                        key_was_used = True
                        unlocked += 1

                next_state = tf.transition_with_copy(
                    chain, state, action, rng=rnd.default_rng(0)
                )
                assert snapshot(state) == (cells, agent)
                assert snapshot(next_state) == model_chain(
                    names, cells, agent, action.name
                )
                state = next_state
    print(f'keydoor_with_boxed_key: {unboxed} unboxings, {unlocked} unlockings')
    assert unboxed > 0 and unlocked > 0


if __name__ == '__main__':
    exhaustive_single_box()
    exhaustive_pickndrop()
    random_worlds()
    keydoor_with_boxed_key()
    print('OK')
