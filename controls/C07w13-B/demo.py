"""Demo for change B (Orientation * Area through the rotated corners).

Exits 0 on the pristine tree and with the patch applied.  Checks

1. `Orientation * Area`, `Area * Orientation`, `Transform * Area` and
   `Position + Area` against hard-coded expectations and against a brute-force
   reference (rotate every cell of the area, take the bounding box), for every
   small area (degenerate 1xN / Nx1 / 1x1 ones, areas on both sides of the
   origin, asymmetric ones) and a few extreme ones;
2. every built-in deterministic observation function against a reference
   implementation embedded here (cell by cell), on non-square grids, every
   agent position, all four headings, symmetric and asymmetric view areas;
3. the property C07 itself: rotating the world by any quarter turn leaves the
   observation unchanged.
"""
import os
import sys

sys.path.insert(0, os.getcwd())

import numpy as np

from gym_gridverse.agent import Agent
from gym_gridverse.envs import observation_functions as of
from gym_gridverse.envs.visibility_functions import visibility_function_registry
from gym_gridverse.geometry import Area, Orientation, Position, Transform
from gym_gridverse.grid import Grid
from gym_gridverse.grid_object import (
    Beacon,
    Box,
    Color,
    Door,
    Exit,
    Floor,
    Hidden,
    Key,
    MovingObstacle,
    Telepod,
    Wall,
)
from gym_gridverse.state import State

ORIENTATIONS = [Orientation.F, Orientation.R, Orientation.B, Orientation.L]

# heading as a (dy, dx) vector, y grows downward
FORWARD_VECTOR = {
    Orientation.F: (-1, 0),
    Orientation.R: (0, 1),
    Orientation.B: (1, 0),
    Orientation.L: (0, -1),
}
ORIENTATION_OF_VECTOR = {v: k for k, v in FORWARD_VECTOR.items()}


def pov_to_world(agent_yx, orientation, pov_yx):
    """world cell seen at egocentric offset (dy, dx): dy<0 is ahead, dx>0 is to the right"""
    fy, fx = FORWARD_VECTOR[orientation]
    # right-hand vector is the forward vector rotated clockwise
    ry, rx = fx, -fy
    dy, dx = pov_yx
    ay, ax = agent_yx
    return (ay + (-dy) * fy + dx * ry, ax + (-dy) * fx + dx * rx)


OBJECT_MAKERS = [
    Floor,
    Floor,
    Floor,
    Wall,
    Wall,
    lambda: Exit(),
    lambda: Exit(Color.NONE),
    lambda: Door(Door.Status.OPEN, Color.RED),
    lambda: Door(Door.Status.CLOSED, Color.NONE),
    lambda: Door(Door.Status.LOCKED, Color.BLUE),
    lambda: Key(Color.YELLOW),
    lambda: Key(Color.NONE),
    MovingObstacle,
    lambda: Box(Key(Color.GREEN)),
    lambda: Telepod(Color.NONE),
    lambda: Beacon(Color.RED),
]


def random_objects(rng, height, width):
    return [
        [OBJECT_MAKERS[rng.integers(len(OBJECT_MAKERS))]() for _ in range(width)]
        for _ in range(height)
    ]


def reference_view(objects, agent_yx, orientation, area):
    """egocentric view before occlusion, cell by cell"""
    height, width = len(objects), len(objects[0])
    rows = []
    for dy in range(area.ymin, area.ymax + 1):
        row = []
        for dx in range(area.xmin, area.xmax + 1):
            y, x = pov_to_world(agent_yx, orientation, (dy, dx))
            row.append(
                objects[y][x] if 0 <= y < height and 0 <= x < width else Hidden()
            )
        rows.append(row)
    return rows


def reference_observation(objects, agent_yx, orientation, held, area, vis_name):
    rows = reference_view(objects, agent_yx, orientation, area)
    pov_position = Position(-area.ymin, -area.xmin)
    visibility = visibility_function_registry[vis_name](Grid(rows), pov_position)
    rows = [
        [obj if visibility[y][x] else Hidden() for x, obj in enumerate(row)]
        for y, row in enumerate(rows)
    ]
    return rows, pov_position, held


def check_against_reference(observation, reference):
    rows, pov_position, held = reference
    assert observation.grid.shape.as_tuple == (len(rows), len(rows[0]))
    assert observation.grid.objects == rows, (observation.grid.objects, rows)
    assert observation.grid == Grid(rows)
    assert observation.agent.position == pov_position
    assert observation.agent.orientation is Orientation.F
    assert observation.agent.grid_object == held
    assert observation.agent == Agent(pov_position, Orientation.F, held)


def rotate_world(objects, agent_yx, orientation, turns):
    """rotates the world counter-clockwise by `turns` quarter turns (own implementation)"""
    ay, ax = agent_yx
    fy, fx = FORWARD_VECTOR[orientation]
    for _ in range(turns):
        height, width = len(objects), len(objects[0])
        # cell (y, x) -> (width - 1 - x, y)
        new = [[None] * height for _ in range(width)]
        for y in range(height):
            for x in range(width):
                new[width - 1 - x][y] = objects[y][x]
        objects = new
        ay, ax = width - 1 - ax, ay
        fy, fx = -fx, fy
    return objects, (ay, ax), ORIENTATION_OF_VECTOR[(fy, fx)]


def rotate_yx(orientation, yx):
    """hard-coded quarter turns of a (y, x) vector, y grows downward"""
    y, x = yx
    if orientation is Orientation.F:
        return (y, x)
    if orientation is Orientation.R:
        return (x, -y)
    if orientation is Orientation.B:
        return (-y, -x)
    if orientation is Orientation.L:
        return (-x, y)
    raise AssertionError


def brute_force_rotated_area(orientation, area):
    cells = [
        rotate_yx(orientation, (y, x))
        for y in range(area.ymin, area.ymax + 1)
        for x in range(area.xmin, area.xmax + 1)
    ]
    ys = [y for y, _ in cells]
    xs = [x for _, x in cells]
    # the rotated cells fill their bounding box exactly
    assert len(set(cells)) == (max(ys) - min(ys) + 1) * (max(xs) - min(xs) + 1)
    return (min(ys), max(ys)), (min(xs), max(xs))


def check_geometry():
    # hard-coded expectations
    area = Area((-3, 1), (-1, 4))
    expected = {
        Orientation.F: Area((-3, 1), (-1, 4)),
        Orientation.R: Area((-1, 4), (-1, 3)),
        Orientation.B: Area((-1, 3), (-4, 1)),
        Orientation.L: Area((-4, 1), (-3, 1)),
    }
    for orientation, result in expected.items():
        assert orientation * area == result, (orientation, orientation * area)
        assert area * orientation == result
    assert Orientation.FORWARD * area == area and Orientation.F * area is not None
    assert Transform(Position(5, 2), Orientation.R) * area == Area((4, 9), (1, 5))
    assert Transform(Position(0, 0), Orientation.L) * area == Area((-4, 1), (-3, 1))
    assert Transform(Position(-7, 3), Orientation.B) * area == Area((-8, -4), (-1, 4))
    assert Position(2, -2) + area == Area((-1, 3), (-3, 2))

    # the usual view areas of the library (7x7 in front, 3 on each side)
    view = Area((-6, 0), (-3, 3))
    assert Orientation.R * view == Area((-3, 3), (0, 6))
    assert Orientation.B * view == Area((0, 6), (-3, 3))
    assert Orientation.L * view == Area((-3, 3), (-6, 0))

    # exhaustive small areas + extremes, against the brute-force bounding box
    bounds = range(-3, 4)
    areas = [
        Area((y0, y1), (x0, x1))
        for y0 in bounds
        for y1 in bounds
        if y0 <= y1
        for x0 in bounds
        for x1 in bounds
        if x0 <= x1
    ]
    areas += [
        Area((0, 0), (0, 0)),
        Area((-40, -40), (-3, 25)),
        Area((-31, 17), (12, 12)),
        Area((10, 30), (-25, -5)),
    ]
    n = 0
    for area in areas:
        for orientation in ORIENTATIONS:
            result = orientation * area
            assert type(result) is Area
            assert (result.ys, result.xs) == brute_force_rotated_area(orientation, area)
            assert type(result.ymin) is int and type(result.xmax) is int
            assert area * orientation == result
            # shape is kept or swapped
            if orientation in (Orientation.F, Orientation.B):
                assert (result.height, result.width) == (area.height, area.width)
            else:
                assert (result.height, result.width) == (area.width, area.height)
            # group structure: undoing the rotation, composing rotations
            assert (-orientation) * result == area
            for other in ORIENTATIONS:
                assert other * result == (other * orientation) * area
            # membership is preserved cell by cell
            for position in area.positions('border'):
                assert result.contains(orientation * position)
            # pose (translation after rotation)
            transform = Transform(Position(3, -5), orientation)
            moved = transform * area
            assert moved == Area(
                (result.ymin + 3, result.ymax + 3), (result.xmin - 5, result.xmax - 5)
            )
            assert area * transform == moved
            n += 1
    # hash / equality are those of a plain Area
    assert hash(Orientation.R * Area((-1, 2), (0, 3))) == hash(Area((0, 3), (-2, 1)))
    # unsupported operands are still refused
    for bad in [3, 'area', (0, 1), None]:
        try:
            Orientation.R * bad
        except TypeError:
            pass
        else:
            raise AssertionError(bad)
    return n


AREAS = [
    Area((0, 0), (0, 0)),
    Area((-2, 0), (-1, 1)),
    Area((-3, 0), (-1, 2)),  # asymmetric left/right
    Area((-1, 0), (-3, 0)),
    Area((-6, 0), (-3, 3)),  # larger than most grids
    Area((-2, 1), (-1, 1)),  # agent not on the bottom row
    Area((-1, 2), (0, 3)),
    Area((-3, -1), (1, 2)),  # does not contain the agent
    Area((1, 1), (-2, -2)),  # single cell behind-left, agent outside
    Area((-4, 4), (-4, 4)),
]

FUNCTIONS = {
    'fully_transparent': of.fully_transparent,
    'partially_occluded': of.partially_occluded,
    'raytracing': of.raytracing,
}


def applicable(name, area):
    if name == 'partially_occluded':
        # the visibility function only supports the agent on the bottom row
        return area.ymax == 0 and area.contains(Position(0, 0))
    if name == 'raytracing':
        return area.contains(Position(0, 0))
    return True


def main():
    n_geometry = check_geometry()
    rng = np.random.default_rng(20260927)
    shapes = [(1, 1), (1, 4), (5, 1), (2, 3), (4, 3), (3, 6)]
    helds = [None, Key(Color.NONE), Box(Floor())]
    n_reference = n_rotation = 0

    for height, width in shapes:
        for sample in range(2):
            objects = random_objects(rng, height, width)
            snapshot = [list(row) for row in objects]
            positions = [(y, x) for y in range(height) for x in range(width)]
            if height * width > 8:
                # all corners, some border and inside cells
                keep = {(0, 0), (0, width - 1), (height - 1, 0), (height - 1, width - 1)}
                keep |= {positions[i] for i in rng.choice(len(positions), 4, replace=False)}
                positions = sorted(keep)
            for agent_yx in positions:
                for orientation in ORIENTATIONS:
                    held = helds[rng.integers(len(helds))]
                    for area in AREAS:
                        for name, function in FUNCTIONS.items():
                            if not applicable(name, area):
                                continue
                            if name == 'raytracing' and area.height * area.width > 30:
                                continue  # keep the demo fast
                            state = State(
                                Grid(objects),
                                Agent(Position(*agent_yx), orientation, held),
                            )
                            observation = function(state, area=area)
                            reference = reference_observation(
                                objects,
                                agent_yx,
                                orientation,
                                state.agent.grid_object,
                                area,
                                name,
                            )
                            check_against_reference(observation, reference)
                            n_reference += 1

                            # repeated call: equal, but not the same containers
                            again = function(state, area=area)
                            assert again.grid == observation.grid
                            assert again.agent == observation.agent
                            assert again.grid.objects is not observation.grid.objects

                            # the state is never mutated
                            assert all(
                                a is b
                                for row_a, row_b in zip(state.grid.objects, snapshot)
                                for a, b in zip(row_a, row_b)
                            )

                            # C07: every quarter turn of the world
                            for turns in range(1, 4):
                                r_objects, r_yx, r_orientation = rotate_world(
                                    objects, agent_yx, orientation, turns
                                )
                                r_state = State(
                                    Grid(r_objects),
                                    Agent(Position(*r_yx), r_orientation, held),
                                )
                                r_observation = function(r_state, area=area)
                                assert r_observation.grid == observation.grid, (
                                    name, area, agent_yx, orientation, turns,
                                )
                                assert r_observation.agent == observation.agent
                                assert hash(r_observation.grid) == hash(observation.grid)
                                n_rotation += 1

    # the library's own world rotation agrees with the one used above
    objects = random_objects(rng, 3, 5)
    for q, turns in [(Orientation.R, 1), (Orientation.B, 2), (Orientation.L, 3)]:
        r_objects, _, _ = rotate_world(objects, (0, 0), Orientation.F, turns)
        assert (Grid(objects) * q).objects == r_objects

    print(
        f'OK: {n_geometry} area rotations, {n_reference} reference checks, '
        f'{n_rotation} rotation checks'
    )


if __name__ == '__main__':
    main()
