"""Demo for change A (Orientation * Area through the rotated corners).

Checks property C18 -- geometry is a consistent algebra of quarter turns and
rigid motions -- against a reference implementation embedded below (plain
tuples, no library code).  Exits 0 on the pristine tree and with the patch.
"""
import itertools as itt
import os
import random
import sys

sys.path.insert(0, os.getcwd())

from gym_gridverse.action import Action  # noqa: E402
from gym_gridverse.envs.utils import get_next_position  # noqa: E402
from gym_gridverse.geometry import (  # noqa: E402
    Area,
    Orientation,
    Position,
    Transform,
)
from gym_gridverse.grid import Grid  # noqa: E402
from gym_gridverse.grid_object import (  # noqa: E402
    Color,
    Door,
    Exit,
    Floor,
    Key,
    Wall,
)

O_ = Orientation
ORIENTATIONS = [O_.F, O_.R, O_.B, O_.L]
assert list(Orientation) == [O_.F, O_.B, O_.L, O_.R]  # aliases do not count

# ---------------------------------------------------------------------------
# reference implementation: quarter turns counted clockwise, F=0 R=1 B=2 L=3
# ---------------------------------------------------------------------------
TURNS = {O_.F: 0, O_.R: 1, O_.B: 2, O_.L: 3}
FROM_TURNS = {v: k for k, v in TURNS.items()}


def ref_mul(o1, o2):
    return FROM_TURNS[(TURNS[o1] + TURNS[o2]) % 4]


def ref_neg(o):
    return FROM_TURNS[(-TURNS[o]) % 4]


def ref_rot(o, yx):
    """clockwise quarter turns of (y, x), y pointing down"""
    y, x = yx
    for _ in range(TURNS[o]):
        y, x = x, -y
    return y, x


def ref_rot_area(o, ys, xs):
    """the literal four-case table the library used to spell out"""
    (ymin, ymax), (xmin, xmax) = ys, xs
    if o is O_.F:
        return (ymin, ymax), (xmin, xmax)
    if o is O_.B:
        return (-ymax, -ymin), (-xmax, -xmin)
    if o is O_.R:
        return (xmin, xmax), (-ymax, -ymin)
    if o is O_.L:
        return (-xmax, -xmin), (ymin, ymax)
    raise AssertionError


def ref_transform(t, yx):
    (ty, tx), o = t
    y, x = ref_rot(o, yx)
    return ty + y, tx + x


def ref_compose(t, s):
    (sy, sx), so = s
    return ref_transform(t, (sy, sx)), ref_mul(t[1], so)


def ref_inverse(t):
    (ty, tx), o = t
    y, x = ref_rot(ref_neg(o), (ty, tx))
    return (-y, -x), ref_neg(o)


def as_ref(t: Transform):
    return t.position.yx, t.orientation


# ---------------------------------------------------------------------------
# inputs
# ---------------------------------------------------------------------------
BIG = 10**30
COORDS = [-BIG, -7, -2, -1, 0, 1, 2, 5, BIG]
SMALL = [-3, -1, 0, 1, 2]

rng = random.Random(18)
POSITIONS = [Position(y, x) for y in COORDS for x in COORDS]

INTERVALS = [(a, b) for a in COORDS for b in COORDS if a <= b]
AREAS = [Area(ys, xs) for ys in INTERVALS for xs in INTERVALS]
SMALL_INTERVALS = [(a, b) for a in SMALL for b in SMALL if a <= b]
SMALL_AREAS = [Area(ys, xs) for ys in SMALL_INTERVALS for xs in SMALL_INTERVALS]
# asymmetric view-like areas (agent not centred), single cells, lines
SMALL_AREAS += [
    Area((-6, 0), (-3, 3)),
    Area((-6, 0), (-1, 5)),
    Area((-2, 4), (-4, 0)),
    Area((0, 0), (0, 0)),
    Area((4, 4), (-9, -9)),
    Area((0, 0), (-5, 3)),
    Area((-5, 3), (7, 7)),
]

TRANSFORMS = [
    Transform(Position(y, x), o)
    for y in [-BIG, -4, 0, 3]
    for x in [-5, 0, 1, BIG]
    for o in ORIENTATIONS
]
SMALL_TRANSFORMS = [
    Transform(Position(y, x), o)
    for y in [-4, 0, 3]
    for x in [-5, 0, 1]
    for o in ORIENTATIONS
]

checks = 0


def check(condition, *info):
    global checks
    checks += 1
    if not condition:
        print('FAILED', *info)
        sys.exit(1)


# ---------------------------------------------------------------------------
# 1. orientations: cyclic group of quarter turns, FORWARD the identity
# ---------------------------------------------------------------------------
for o in ORIENTATIONS:
    check(O_.F * o is o and o * O_.F is o, 'identity', o)
    check(o * -o is O_.F and -o * o is O_.F, 'inverse', o)
    check(-o is ref_neg(o), 'neg', o)
    check(o * o * o * o is O_.F, 'order divides 4', o)
for o1, o2 in itt.product(ORIENTATIONS, repeat=2):
    check(o1 * o2 is ref_mul(o1, o2), 'mul', o1, o2)
    check(o1 * o2 is o2 * o1, 'commutative', o1, o2)
for o1, o2, o3 in itt.product(ORIENTATIONS, repeat=3):
    check((o1 * o2) * o3 is o1 * (o2 * o3), 'assoc', o1, o2, o3)
check({O_.R, O_.R * O_.R, O_.R * O_.R * O_.R, O_.F} == set(ORIENTATIONS), 'cyclic')
check(-O_.F is O_.F and -O_.B is O_.B and -O_.L is O_.R and -O_.R is O_.L)

# ---------------------------------------------------------------------------
# 2. linear, isometric action on positions
# ---------------------------------------------------------------------------
for o in ORIENTATIONS:
    check(o * Position(0, 0) == Position(0, 0), 'fixes origin', o)
    check(o * Position.from_orientation(O_.F) == Position.from_orientation(o))
    for p in POSITIONS:
        r = o * p
        check(type(r) is Position and r.yx == ref_rot(o, p.yx), 'rot', o, p)
        check(p * o == r, 'rmul', o, p)
        check(r.y**2 + r.x**2 == p.y**2 + p.x**2, 'isometry', o, p)
        check(abs(r.y) + abs(r.x) == abs(p.y) + abs(p.x), 'manhattan', o, p)
        check(-o * r == p, 'undone by inverse', o, p)
        check(o * -p == -(o * p), 'odd', o, p)
    for _ in range(300):
        p, q = rng.choice(POSITIONS), rng.choice(POSITIONS)
        check(o * (p + q) == o * p + o * q, 'additive', o, p, q)
        check(o * (p - q) == o * p - o * q, 'additive', o, p, q)
for o1, o2 in itt.product(ORIENTATIONS, repeat=2):
    for p in POSITIONS:
        check((o1 * o2) * p == o1 * (o2 * p), 'group action', o1, o2, p)

# ---------------------------------------------------------------------------
# 3. areas: the rotated / transformed area is exactly the image of its cells
# ---------------------------------------------------------------------------
for o in ORIENTATIONS:
    for area in AREAS + SMALL_AREAS:
        r = o * area
        check(type(r) is Area, 'type', o, area)
        check((r.ys, r.xs) == ref_rot_area(o, area.ys, area.xs), 'table', o, area)
        check(type(r.ys) is tuple and type(r.xs) is tuple, 'tuples', o, area)
        check(area * o == r, 'rmul', o, area)
        check(-o * r == area, 'undone by inverse', o, area)
        check(hash(r) == hash(Area(*ref_rot_area(o, area.ys, area.xs))))
        if o in (O_.F, O_.B):
            check((r.height, r.width) == (area.height, area.width), 'shape')
        else:
            check((r.height, r.width) == (area.width, area.height), 'shape')
        # corners go to corners
        for y, x in itt.product(area.ys, area.xs):
            check(r.contains(o * Position(y, x)), 'corner', o, area)
    for area in SMALL_AREAS:
        r = o * area
        image = {o * p for p in area.positions()}
        check(image == set(r.positions()), 'image', o, area)
        check(len(image) == area.height * area.width, 'count', o, area)
        check(
            {o * p for p in area.positions('border')}
            == set(r.positions('border')),
            'border image',
            o,
            area,
        )
        check(
            {o * p for p in area.positions('inside')}
            == set(r.positions('inside')),
            'inside image',
            o,
            area,
        )
for o1, o2 in itt.product(ORIENTATIONS, repeat=2):
    for area in SMALL_AREAS:
        check((o1 * o2) * area == o1 * (o2 * area), 'action', o1, o2, area)
check(O_.F * Area((0, 0), (0, 0)) == Area((0, 0), (0, 0)))
check(O_.R * Area((-6, 0), (-3, 3)) == Area((-3, 3), (0, 6)))
check(O_.L * Area((-6, 0), (-3, 3)) == Area((-3, 3), (-6, 0)))
check(O_.B * Area((-6, 0), (-1, 5)) == Area((0, 6), (-5, 1)))
check(O_.R * Area((1, 2), (3, 5)) == Area((3, 5), (-2, -1)))
check(O_.L * Area((1, 2), (3, 5)) == Area((-5, -3), (1, 2)))

for t in TRANSFORMS:
    for area in rng.sample(AREAS, 150) + SMALL_AREAS:
        r = t * area
        ys, xs = ref_rot_area(t.orientation, area.ys, area.xs)
        expected = Area(
            (t.position.y + ys[0], t.position.y + ys[1]),
            (t.position.x + xs[0], t.position.x + xs[1]),
        )
        check(r == expected and area * t == r, 'transform area', t, area)
        check(-t * r == area, 'inverse transform area', t, area)
for t in SMALL_TRANSFORMS:
    for area in SMALL_AREAS:
        r = t * area
        check(
            {t * p for p in area.positions()} == set(r.positions()),
            'transform image',
            t,
            area,
        )
for t, s in itt.product(SMALL_TRANSFORMS, repeat=2):
    for area in rng.sample(SMALL_AREAS, 12):
        check((t * s) * area == t * (s * area), 'successive', t, s, area)

# repeated calls give equal, independent results and leave the operand alone
area = Area((-6, 0), (-1, 5))
first = [o * area for o in ORIENTATIONS]
second = [o * area for o in ORIENTATIONS]
check(first == second and area == Area((-6, 0), (-1, 5)), 'repeatable')

# unsupported operands still refuse politely
for bad in [None, 3, (0, 1), 'F', [Position(0, 0)]]:
    for o in ORIENTATIONS:
        check(o.__mul__(bad) is NotImplemented, 'NotImplemented', bad)
        try:
            o * bad
        except TypeError:
            check(True)
        else:
            check(False, 'no TypeError', o, bad)

# ---------------------------------------------------------------------------
# 4. pose transforms: monoid with inverses, action compatible with product
# ---------------------------------------------------------------------------
IDENTITY = Transform(Position(0, 0), O_.F)
for t in TRANSFORMS:
    check(t * IDENTITY == t and IDENTITY * t == t, 'identity', t)
    check(t * -t == IDENTITY and -t * t == IDENTITY, 'inverse', t)
    check(as_ref(-t) == ref_inverse(as_ref(t)), 'ref inverse', t)
    check(-(-t) == t, 'involution', t)
    for o in ORIENTATIONS:
        check(t * o is ref_mul(t.orientation, o), 'orientation', t, o)
    for p in rng.sample(POSITIONS, 20):
        check((t * p).yx == ref_transform(as_ref(t), p.yx), 'act', t, p)
        check(-t * (t * p) == p, 'undo', t, p)
for t, s in itt.product(TRANSFORMS, repeat=2):
    check(as_ref(t * s) == ref_compose(as_ref(t), as_ref(s)), 'compose', t, s)
    p = rng.choice(POSITIONS)
    check((t * s) * p == t * (s * p), 'successive', t, s, p)
    check(-(t * s) == -s * -t, 'inverse of product', t, s)
for _ in range(4000):
    t, s, u = (rng.choice(TRANSFORMS) for _ in range(3))
    check((t * s) * u == t * (s * u), 'assoc', t, s, u)

# ---------------------------------------------------------------------------
# 5. grids: rotation rearranges but preserves the objects, inverse undoes it
# ---------------------------------------------------------------------------
def make_grid(height, width):
    palette = [
        Floor,
        Wall,
        Exit,
        lambda: Key(Color.NONE),
        lambda: Key(Color.RED),
        lambda: Door(Door.Status.LOCKED, Color.NONE),
        lambda: Door(Door.Status.OPEN, Color.BLUE),
    ]
    return Grid(
        [
            [palette[(3 * y + 5 * x + y * x) % len(palette)]() for x in range(width)]
            for y in range(height)
        ]
    )


for height, width in [(1, 1), (1, 5), (6, 1), (2, 3), (3, 2), (4, 4), (5, 7)]:
    grid = make_grid(height, width)
    ids = sorted(id(grid[p]) for p in grid.area.positions())
    centre_free = Area((0, height - 1), (0, width - 1))
    for o in ORIENTATIONS:
        rotated = o * grid
        check(grid * o == rotated, 'rmul', o)
        check(
            sorted(id(rotated[p]) for p in rotated.area.positions()) == ids,
            'same objects',
            o,
        )
        check(-o * rotated == grid, 'undone by inverse', o)
        # where each object lands follows the area / position algebra:
        # rotate about the origin, then shift the rotated box back to (0, 0)
        box = -o * centre_free
        shift = Position(-box.ymin, -box.xmin)
        check(shift + box == rotated.area, 'rotated area', o, box)
        for p in grid.area.positions():
            check(rotated[shift + (-o * p)] is grid[p], 'placement', o, p)
        for o2 in ORIENTATIONS:
            check(o2 * rotated == (o2 * o) * grid, 'grid action', o, o2)

# ---------------------------------------------------------------------------
# 6. tentative next position agrees with the pose algebra
# ---------------------------------------------------------------------------
MOVES = {
    Action.MOVE_FORWARD: O_.F,
    Action.MOVE_LEFT: O_.L,
    Action.MOVE_RIGHT: O_.R,
    Action.MOVE_BACKWARD: O_.B,
}
for t in TRANSFORMS:
    for action in Action:
        result = get_next_position(t.position, t.orientation, action)
        if action in MOVES:
            step = Position.from_orientation(MOVES[action])
            check(result == t * step, 'next position', t, action)
            check(
                result.yx
                == ref_transform(as_ref(t), ref_rot(MOVES[action], (-1, 0))),
                'next position ref',
                t,
                action,
            )
            check(Position.manhattan_distance(result, t.position) == 1)
        else:
            check(result == t.position, 'non-move', t, action)

print(f'OK ({checks} checks)')
