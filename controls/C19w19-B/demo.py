"""Demo for change B (Agent.pov_area / Agent.pov_position used by from_visibility).

Runs on the pristine tree and with the patch applied;  exits 0 on both.

Checks

1. property C19 on the ray functions themselves (origin, inside the area,
   no repeats, adjacent steps, ends on the border, the fan reaches every cell,
   determinism and independence from the cache and from the order of queries),
   against a reference ray tracer embedded here;
2. that the ray-traced observation is built around the right origin and the
   right piece of the grid:  an unobstructed ray-traced view shows exactly the
   cells which an independent cell-by-cell reference says it should, for
   non-square grids, agents on borders / in corners, all four headings,
   asymmetric view areas, view areas with 1 row / 1 column, held objects with
   colour NONE, repeated calls and several areas interleaved;
3. obstructed views against the reference ray tracer;
4. view areas which do not contain the agent are rejected by ray tracing, as
   before;
5. if the new helpers exist, that they equal the reference formulas.
"""
import itertools as itt
import math
import os
import sys

sys.path.insert(0, os.getcwd())  # the worktree root, not the demo's folder

import numpy as np  # noqa: E402

from gym_gridverse.agent import Agent
from gym_gridverse.envs import observation_functions as obs_fs
from gym_gridverse.envs import visibility_functions as vis_fs
from gym_gridverse.geometry import Area, Orientation, Position
from gym_gridverse.grid import Grid
from gym_gridverse.grid_object import (
    Beacon,
    Color,
    Exit,
    Floor,
    Hidden,
    Key,
    MovingObstacle,
    NoneGridObject,
    Telepod,
    Wall,
)
from gym_gridverse.state import State
from gym_gridverse.utils import raytracing

failures = []


def check(condition, message):
    if not condition:
        failures.append(message)
        if len(failures) <= 20:
            print('FAIL:', message)


# ---------------------------------------------------------------- references


def ref_ray(origin, ys, xs, radians, step_size=0.01):
    """reference ray tracer on plain tuples;  ys, xs are inclusive bounds"""
    y0, x0 = float(origin[0]), float(origin[1])
    dy = step_size * math.sin(radians)
    dx = step_size * math.cos(radians)
    cells = []
    seen = set()
    i = 0
    while True:
        cell = (round(y0 + i * dy), round(x0 + i * dx))
        if not (ys[0] <= cell[0] <= ys[1] and xs[0] <= cell[1] <= xs[1]):
            break
        if cell not in seen:
            seen.add(cell)
            cells.append(cell)
        i += 1
    return cells


def ref_fancy_radians(origin, ys, xs):
    height = ys[1] - ys[0] + 1
    width = xs[1] - xs[0] + 1
    cys = np.linspace(ys[0], ys[1] + 1, num=height + 1) - 0.5 - origin[0]
    cxs = np.linspace(xs[0], xs[1] + 1, num=width + 1) - 0.5 - origin[1]
    yys, xxs = np.meshgrid(cys, cxs)
    return np.sort(np.arctan2(yys, xxs), axis=None)


_ref_fancy_memo = {}


def ref_rays_fancy(origin, ys, xs):
    key = origin, ys, xs
    if key not in _ref_fancy_memo:
        _ref_fancy_memo[key] = [
            ref_ray(origin, ys, xs, rad)
            for rad in ref_fancy_radians(origin, ys, xs)
        ]
    return _ref_fancy_memo[key]


def as_tuples(rays):
    return [[(p.y, p.x) for p in ray] for ray in rays]


def ref_rotate(orientation, y, x):
    """agent-relative offset -> grid offset, written out by hand"""
    if orientation is Orientation.F:
        return y, x
    if orientation is Orientation.B:
        return -y, -x
    if orientation is Orientation.R:
        return x, -y
    if orientation is Orientation.L:
        return -x, y
    raise AssertionError


# --------------------------------------------------- 1. the rays themselves


def check_ray_property(rays, origin, ys, xs, label):
    cells_all = {
        (y, x)
        for y in range(ys[0], ys[1] + 1)
        for x in range(xs[0], xs[1] + 1)
    }
    reached = set()
    for k, ray in enumerate(rays):
        tag = f'{label} ray {k}'
        check(len(ray) > 0 and ray[0] == origin, f'{tag}: does not start at origin')
        check(all(c in cells_all for c in ray), f'{tag}: leaves the area')
        check(len(set(ray)) == len(ray), f'{tag}: repeats a cell')
        check(
            all(
                max(abs(a[0] - b[0]), abs(a[1] - b[1])) == 1
                for a, b in zip(ray, ray[1:])
            ),
            f'{tag}: non-adjacent step',
        )
        last = ray[-1]
        check(
            last[0] in ys or last[1] in xs,
            f'{tag}: does not end on the border',
        )
        reached.update(ray)
    check(reached == cells_all, f'{label}: fan does not reach every cell')


RAY_AREAS = [
    ((0, 0), (0, 0)),
    ((0, 0), (0, 4)),
    ((0, 5), (0, 0)),
    ((0, 1), (0, 2)),
    ((0, 2), (0, 1)),
    ((0, 6), (0, 6)),
    ((0, 6), (0, 4)),
    ((0, 3), (0, 8)),
    ((-2, 3), (-1, 1)),
    ((3, 5), (-7, -4)),
]


def section_rays():
    queries = []
    for ys, xs in RAY_AREAS:
        area = Area(ys, xs)
        for y in range(ys[0], ys[1] + 1):
            for x in range(xs[0], xs[1] + 1):
                queries.append((area, (y, x)))

    first_answers = {}
    for area, origin in queries:
        position = Position(*origin)
        label = f'fancy area={area.ys, area.xs} origin={origin}'
        rays = as_tuples(raytracing.compute_rays_fancy(position, area))
        check_ray_property(rays, origin, area.ys, area.xs, label)
        check(
            rays == ref_rays_fancy(origin, area.ys, area.xs),
            f'{label}: differs from reference',
        )
        first_answers[area, origin] = rays

    # cache: any order of earlier queries, repeated queries, equal-but-distinct keys
    for area, origin in itt.chain(reversed(queries), queries[::3], queries[::-7]):
        area_again = Area(tuple(area.ys), tuple(area.xs))
        rays = as_tuples(
            raytracing.cached_compute_rays_fancy(Position(*origin), area_again)
        )
        check(
            rays == first_answers[area, origin],
            f'cached fancy area={area.ys, area.xs} origin={origin}: differs',
        )

    # 1-degree fan on a few areas
    for ys, xs in [((0, 0), (0, 0)), ((0, 2), (0, 4)), ((0, 4), (0, 3)), ((-2, 3), (-1, 1))]:
        area = Area(ys, xs)
        for y in range(ys[0], ys[1] + 1):
            for x in range(xs[0], xs[1] + 1):
                label = f'degrees area={ys, xs} origin={(y, x)}'
                rays = as_tuples(raytracing.compute_rays(Position(y, x), area))
                check(len(rays) == 360, f'{label}: not 360 rays')
                check_ray_property(rays, (y, x), ys, xs, label)
                expected = [
                    ref_ray((y, x), ys, xs, deg * (math.pi / 180.0))
                    for deg in range(360)
                ]
                check(rays == expected, f'{label}: differs from reference')
                cached = as_tuples(
                    raytracing.cached_compute_rays(Position(y, x), area)
                )
                check(cached == rays, f'{label}: cached differs')

    # origins outside the area are rejected
    for area, position in [
        (Area((0, 2), (0, 2)), Position(3, 0)),
        (Area((0, 2), (0, 2)), Position(0, -1)),
        (Area((-2, -1), (0, 2)), Position(0, 0)),
    ]:
        for f in (
            raytracing.compute_rays,
            raytracing.compute_rays_fancy,
            raytracing.cached_compute_rays_fancy,
        ):
            try:
                f(position, area)
            except ValueError:
                pass
            else:
                check(False, f'{f} accepted origin {position} outside {area}')


# ------------------------------------------- 2-4. the ray-traced observation

PALETTE = (
    [Floor(), Exit(), Exit(Color.RED), MovingObstacle()]
    + [Key(color) for color in Color]
    + [Telepod(color) for color in Color]
    + [Beacon(color) for color in Color]
)
assert not any(obj.blocks_vision for obj in PALETTE)


def make_grid(height, width, walls=()):
    grid = Grid.from_shape((height, width))
    for y in range(height):
        for x in range(width):
            grid[Position(y, x)] = PALETTE[(7 * y + 3 * x + y * x) % len(PALETTE)]
    for y, x in walls:
        grid[Position(y, x)] = Wall()
    return grid


def ref_view(grid, height, width, agent_yx, orientation, area):
    """reference content of the un-occluded view, cell by cell

    returns a dict view cell (row, column) -> object, and the agent's cell
    """
    view = {}
    for y in range(area.ys[0], area.ys[1] + 1):
        for x in range(area.xs[0], area.xs[1] + 1):
            dy, dx = ref_rotate(orientation, y, x)
            gy, gx = agent_yx[0] + dy, agent_yx[1] + dx
            inside = 0 <= gy < height and 0 <= gx < width
            view[y - area.ys[0], x - area.xs[0]] = (
                grid[Position(gy, gx)] if inside else Hidden()
            )
    return view, (-area.ys[0], -area.xs[0])


def ref_raytraced(view, origin, height, width):
    """reference visibility (absolute counts, threshold 1) of a view"""
    visible = set()
    for ray in ref_rays_fancy(origin, (0, height - 1), (0, width - 1)):
        for cell in ray:
            visible.add(cell)
            if view[cell].blocks_vision:
                break
    return visible


VIEW_AREAS = [
    Area((-6, 0), (-3, 3)),  # the usual 7x7 view
    Area((-3, 0), (-1, 1)),  # 4x3
    Area((-2, 1), (-1, 3)),  # asymmetric, agent not on the view's border
    Area((0, 2), (0, 3)),  # agent in the view's top-left corner
    Area((-3, 0), (-2, 0)),  # agent in the view's bottom-right corner
    Area((0, 0), (-2, 2)),  # one row
    Area((-3, 1), (0, 0)),  # one column
    Area((0, 0), (0, 0)),  # only the agent's own cell
    Area((-1, 1), (-4, 4)),  # wider than the grids below
]

GRIDS = [
    (1, 1, ()),
    (1, 4, ()),
    (3, 2, ()),
    (4, 6, ()),
    (4, 6, ((1, 1), (2, 4), (0, 3))),
    (5, 3, ((2, 1),)),
]

HELD = [None, Key(Color.NONE), Key(Color.BLUE), NoneGridObject()]


def agent_positions(height, width):
    """corners, border midpoints and an inside cell"""
    ys = sorted({0, height // 2, height - 1})
    xs = sorted({0, width // 2, width - 1})
    return [(y, x) for y in ys for x in xs]


def section_observations():
    raytracing_visibility = vis_fs.factory('raytracing')
    observation_functions = {
        'raytracing': lambda state, area: obs_fs.raytracing(state, area=area),
        'from_visibility': lambda state, area: obs_fs.from_visibility(
            state, area=area, visibility_function=raytracing_visibility
        ),
        'factory': lambda state, area: obs_fs.factory(
            'raytracing', area=area
        )(state),
    }

    count = 0
    for (height, width, walls), area in itt.product(GRIDS, VIEW_AREAS):
        for agent_yx, orientation in itt.product(
            agent_positions(height, width), Orientation
        ):
            held = HELD[count % len(HELD)]
            count += 1

            grid = make_grid(height, width, walls)
            pristine_grid = make_grid(height, width, walls)
            agent = Agent(Position(*agent_yx), orientation, held)
            state = State(grid, agent)
            label = (
                f'grid={height}x{width} walls={walls} area={area.ys, area.xs} '
                f'agent={agent_yx} {orientation.name}'
            )

            view, origin = ref_view(
                pristine_grid, height, width, agent_yx, orientation, area
            )
            visible = ref_raytraced(view, origin, area.height, area.width)
            if not walls:
                # unobstructed: hidden cells only where the view leaves the grid
                # (those block vision themselves but are still `seen`)
                inside_cells = {
                    cell for cell, obj in view.items() if obj != Hidden()
                }
                # an out-of-grid cell may shadow cells behind it, so only claim
                # full visibility when the whole view lies inside the grid
                if inside_cells == set(view):
                    check(
                        visible == set(view),
                        f'{label}: reference unobstructed view is not complete',
                    )

            for name, function in observation_functions.items():
                for repeat in range(2):
                    observation = function(state, area)
                    tag = f'{label} via {name} #{repeat}'
                    check(
                        observation.grid.shape.as_tuple
                        == (area.height, area.width),
                        f'{tag}: wrong shape',
                    )
                    check(
                        observation.agent.position.yx == origin,
                        f'{tag}: wrong agent position {observation.agent.position}',
                    )
                    check(
                        observation.agent.orientation is Orientation.F,
                        f'{tag}: wrong agent orientation',
                    )
                    check(
                        observation.agent.grid_object
                        == (NoneGridObject() if held is None else held),
                        f'{tag}: wrong held object',
                    )
                    for cell, obj in view.items():
                        expected = obj if cell in visible else Hidden()
                        check(
                            observation.grid[Position(*cell)] == expected,
                            f'{tag}: cell {cell} is '
                            f'{observation.grid[Position(*cell)]!r}, '
                            f'expected {expected!r}',
                        )

            # the state was not touched
            check(state.grid == pristine_grid, f'{label}: state grid mutated')
            check(
                state.agent == Agent(Position(*agent_yx), orientation, held),
                f'{label}: state agent mutated',
            )

    # the full view from the middle of a big empty room shows everything
    for height, width, area in [
        (15, 17, Area((-6, 0), (-3, 3))),
        (15, 17, Area((-4, 2), (-1, 5))),
        (21, 19, Area((-8, 0), (-4, 4))),
    ]:
        for orientation in [Orientation.F, Orientation.B, Orientation.L, Orientation.R]:
            grid = make_grid(height, width)
            state = State(grid, Agent(Position(height // 2, width // 2), orientation))
            observation = obs_fs.raytracing(state, area=area)
            view, origin = ref_view(
                grid, height, width, (height // 2, width // 2), orientation, area
            )
            check(
                all(
                    observation.grid[Position(*cell)] == obj
                    for cell, obj in view.items()
                ),
                f'open room {height}x{width} {orientation.name} '
                f'area={area.ys, area.xs}: the view is not complete',
            )
            check(
                not any(
                    isinstance(observation.grid[pos], Hidden)
                    for pos in observation.grid.area.positions()
                ),
                f'open room {height}x{width} {orientation.name}: hidden cells',
            )

    # 4. view areas without the agent:  no origin for the rays, rejected
    state = State(make_grid(4, 6), Agent(Position(2, 2), Orientation.R))
    for area in [
        Area((-3, -1), (-1, 1)),
        Area((1, 2), (0, 0)),
        Area((-1, 1), (1, 3)),
        Area((0, 0), (-3, -1)),
    ]:
        try:
            obs_fs.raytracing(state, area=area)
        except ValueError:
            pass
        else:
            check(False, f'area {area} without the agent was accepted')
        # whereas the full-visibility function never needed an origin
        observation = obs_fs.fully_transparent(state, area=area)
        view, origin = ref_view(state.grid, 4, 6, (2, 2), Orientation.R, area)
        check(
            observation.agent.position.yx == origin,
            f'fully_transparent area={area}: wrong agent position',
        )
        check(
            all(
                observation.grid[Position(*cell)] == obj
                for cell, obj in view.items()
            ),
            f'fully_transparent area={area}: wrong content',
        )


# --------------------------------------------------- 5. helpers, if present


def section_helpers():
    if not (hasattr(Agent, 'pov_area') and hasattr(Agent, 'pov_position')):
        print('(Agent.pov_area / Agent.pov_position absent: pristine tree)')
        return

    for area in VIEW_AREAS + [Area((2, 5), (-9, -3)), Area((-7, -2), (4, 4))]:
        origin = Agent.pov_position(area)
        check(type(origin) is Position, 'pov_position: not a Position')
        check(
            origin.yx == (-area.ymin, -area.xmin),
            f'pov_position({area}) = {origin}',
        )
        check(
            type(origin.y) is int and type(origin.x) is int,
            'pov_position: not ints',
        )
        for yx, orientation in itt.product(
            [(0, 0), (3, 1), (-2, 5)],
            [Orientation.F, Orientation.B, Orientation.L, Orientation.R],
        ):
            agent = Agent(Position(*yx), orientation, Key(Color.NONE))
            corners = [
                ref_rotate(orientation, y, x)
                for y in area.ys
                for x in area.xs
            ]
            expected = Area(
                (
                    yx[0] + min(c[0] for c in corners),
                    yx[0] + max(c[0] for c in corners),
                ),
                (
                    yx[1] + min(c[1] for c in corners),
                    yx[1] + max(c[1] for c in corners),
                ),
            )
            check(
                agent.pov_area(area) == expected,
                f'pov_area({area}) of {agent} = {agent.pov_area(area)}',
            )
            # instances work too, and nothing is mutated
            check(agent.pov_position(area) == origin, 'pov_position on instance')
            check(
                agent == Agent(Position(*yx), orientation, Key(Color.NONE)),
                'helpers mutated the agent',
            )


def main():
    section_rays()
    section_observations()
    section_helpers()

    if failures:
        print(f'{len(failures)} check(s) failed')
        return 1

    print('all checks passed')
    return 0


if __name__ == '__main__':
    sys.exit(main())
