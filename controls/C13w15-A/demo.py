"""Demo for change A (dynamic_obstacles validates its arguments up front).

Run from the worktree root:  /venv/bin/python _seed/A/demo.py

Exits 0 on the pristine tree and with the patch applied.  It checks property
C13 (well-formed initial states, ValueError for impossible parameters) on a
broad corpus for all eight reset functions, pins the exact outcomes (states and
amount of randomness consumed) with a digest computed on the pristine tree, and
compares `dynamic_obstacles` against an embedded reference implementation.
"""
import hashlib
import itertools as itt
import os
import sys

sys.path.insert(0, os.getcwd())

import numpy as np  # noqa: E402

from gym_gridverse.envs import reset_functions as rf  # noqa: E402
from gym_gridverse.geometry import Orientation, Position, Shape  # noqa: E402
from gym_gridverse.grid_object import (  # noqa: E402
    Beacon,
    Color,
    Door,
    Exit,
    Floor,
    Key,
    MovingObstacle,
    NoneGridObject,
    Telepod,
    Wall,
)
from gym_gridverse.rng import make_rng  # noqa: E402
from gym_gridverse.state import State  # noqa: E402


# --------------------------------------------------------------------------
# property C13: well-formedness of initial states
# --------------------------------------------------------------------------


def cells(state, object_type):
    return [
        position
        for position in state.grid.area.positions()
        if type(state.grid[position]) is object_type
    ]


def check_common(state, shape):
    assert isinstance(state, State)
    grid, agent = state.grid, state.agent
    assert (grid.shape.height, grid.shape.width) == (shape.height, shape.width)
    # unbroken wall boundary
    for position in grid.area.positions('border'):
        assert type(grid[position]) is Wall, (position, grid[position])
    # agent inside, empty-handed, on a free cell
    y, x = agent.position.y, agent.position.x
    assert 0 < y < shape.height - 1 and 0 < x < shape.width - 1, agent
    assert isinstance(agent.orientation, Orientation)
    assert type(agent.grid_object) is NoneGridObject
    under = grid[agent.position]
    assert not under.blocks_movement, under
    assert not isinstance(under, (Exit, MovingObstacle, Telepod)), under


def only_types(state, allowed):
    for position in state.grid.area.positions():
        assert type(state.grid[position]) in allowed, state.grid[position]


def check_empty(state, shape, random_agent=False, random_exit=False):
    check_common(state, shape)
    only_types(state, {Wall, Floor, Exit})
    assert len(cells(state, Exit)) == 1
    assert len(cells(state, Wall)) == 2 * shape.height + 2 * shape.width - 4
    if not random_exit:
        assert cells(state, Exit) == [
            Position(shape.height - 2, shape.width - 2)
        ]
    if not random_agent:
        assert state.agent.position == Position(1, 1)
        assert state.agent.orientation is Orientation.R


def check_rooms(state, shape, layout):
    check_common(state, shape)
    only_types(state, {Wall, Floor, Exit})
    assert len(cells(state, Exit)) == 1


def check_dynamic_obstacles(state, shape, num_obstacles, random_agent=False):
    check_common(state, shape)
    only_types(state, {Wall, Floor, Exit, MovingObstacle})
    assert len(cells(state, Exit)) == 1
    assert len(cells(state, MovingObstacle)) == num_obstacles
    assert len(cells(state, Wall)) == 2 * shape.height + 2 * shape.width - 4
    if not random_agent:
        assert state.agent.position == Position(1, 1)


def check_keydoor(state, shape):
    check_common(state, shape)
    only_types(state, {Wall, Floor, Exit, Door, Key})
    assert len(cells(state, Exit)) == 1
    (door_position,) = cells(state, Door)
    (key_position,) = cells(state, Key)
    door = state.grid[door_position]
    assert door.is_locked and door.color is Color.YELLOW
    assert state.grid[key_position].color is door.color
    # the door is the only opening of a full-height dividing wall
    x_wall = door_position.x
    assert 2 <= x_wall <= shape.width - 3
    for y in range(1, shape.height - 1):
        if y != door_position.y:
            assert type(state.grid[y, x_wall]) is Wall
    assert key_position.x < x_wall and state.agent.position.x < x_wall
    assert cells(state, Exit)[0].x > x_wall


def check_crossing(state, shape, num_rivers, object_type):
    check_common(state, shape)
    only_types(state, {Wall, Floor, Exit, object_type})
    assert len(cells(state, Exit)) == 1
    assert state.agent.position == Position(1, 1)
    # exit reachable from agent through non-river cells
    seen, stack = {state.agent.position}, [state.agent.position]
    while stack:
        p = stack.pop()
        for dy, dx in [(0, 1), (1, 0), (0, -1), (-1, 0)]:
            q = Position(p.y + dy, p.x + dx)
            if q not in seen and type(state.grid[q]) in (Floor, Exit):
                seen.add(q)
                stack.append(q)
    assert cells(state, Exit)[0] in seen


def check_teleport(state, shape):
    check_common(state, shape)
    only_types(state, {Wall, Floor, Exit, Telepod})
    assert len(cells(state, Exit)) == 1
    telepods = [state.grid[p] for p in cells(state, Telepod)]
    assert len(telepods) == 2
    assert telepods[0].color is telepods[1].color is Color.RED
    assert telepods[0] is not telepods[1]


def check_memory(state, shape, colors):
    check_common(state, shape)
    only_types(state, {Wall, Floor, Exit, Beacon})
    exits = [state.grid[p] for p in cells(state, Exit)]
    beacons = [state.grid[p] for p in cells(state, Beacon)]
    assert len(exits) == 2 and len(beacons) == 2
    assert exits[0].color is not exits[1].color
    assert {e.color for e in exits} <= set(colors)
    assert Color.NONE not in {e.color for e in exits}
    assert beacons[0].color is beacons[1].color
    assert sum(e.color is beacons[0].color for e in exits) == 1


def check_memory_rooms(state, shape, layout, colors, num_beacons, num_exits):
    check_common(state, shape)
    only_types(state, {Wall, Floor, Exit, Beacon})
    exits = [state.grid[p] for p in cells(state, Exit)]
    beacons = [state.grid[p] for p in cells(state, Beacon)]
    assert len(exits) == num_exits and len(beacons) == num_beacons
    exit_colors = [e.color for e in exits]
    assert len(set(exit_colors)) == len(exit_colors)
    assert set(exit_colors) <= set(colors)
    assert Color.NONE not in exit_colors
    assert len({b.color for b in beacons}) == 1
    assert exit_colors.count(beacons[0].color) == 1


CHECKS = {
    'empty': check_empty,
    'rooms': check_rooms,
    'dynamic_obstacles': check_dynamic_obstacles,
    'keydoor': check_keydoor,
    'crossing': check_crossing,
    'teleport': check_teleport,
    'memory': check_memory,
    'memory_rooms': check_memory_rooms,
}


# --------------------------------------------------------------------------
# canonical serialization of outcomes (used for hard-coded expectations)
# --------------------------------------------------------------------------


def serialize_state(state):
    rows = []
    for y in range(state.grid.shape.height):
        row = []
        for x in range(state.grid.shape.width):
            obj = state.grid[y, x]
            row.append(
                f'{type(obj).__name__}.{obj.color.name}.{obj.state_index}'
            )
        rows.append(','.join(row))
    agent = state.agent
    return (
        ';'.join(rows)
        + f'|{int(agent.position.y)},{int(agent.position.x)}'
        + f',{agent.orientation.name},{type(agent.grid_object).__name__}'
    )


def describe(value):
    """process-independent description of a parameter value"""
    if isinstance(value, (set, frozenset)):
        return 'set:' + ','.join(sorted(c.name for c in value))
    if isinstance(value, type):
        return value.__name__
    if isinstance(value, Shape):
        return f'{value.height}x{value.width}'
    return repr(value)


def outcome(name, args, seed, check=True):
    """runs a reset function, checks C13, returns a canonical outcome string

    the outcome includes the next draw of the rng, i.e., it also pins how much
    randomness is consumed by the reset function
    """
    rng = make_rng(seed)
    function = getattr(rf, name)
    try:
        state = function(*args, rng=rng)
    except ValueError:
        # the only failure allowed by C13
        return 'ValueError'
    if check:
        CHECKS[name](state, *args)
    return serialize_state(state) + f'|{int(rng.integers(1 << 30))}'


# --------------------------------------------------------------------------
# corpus shared by the pinned-digest check
# --------------------------------------------------------------------------

C = Color
COLOR_SETS = [
    set(),
    {C.RED},
    {C.NONE, C.RED},
    {C.NONE, C.RED, C.GREEN},
    {C.RED, C.GREEN},
    {C.YELLOW, C.BLUE},
    frozenset({C.BLUE, C.GREEN, C.RED}),
    {C.RED, C.GREEN, C.BLUE, C.YELLOW},
]


def corpus():
    """yields (name, args, seed) over awkward and ordinary parameters"""
    seeds = [0, 1, 7, 2**31 - 1]
    for h, w in itt.product(range(1, 9), range(1, 10)):
        shape = Shape(h, w)
        capacity = (h - 2) * (w - 2) - 2
        for seed in seeds:
            for random_agent in (False, True):
                for random_exit in (False, True):
                    yield 'empty', (shape, random_agent, random_exit), seed
                for n in (-1, 0, 1, 3, capacity - 1, capacity, capacity + 1, 99):
                    yield 'dynamic_obstacles', (shape, n, random_agent), seed
            for layout in [(1, 1), (1, 2), (2, 1), (2, 2), (3, 2), (2, 3)]:
                yield 'rooms', (shape, layout), seed
            yield 'keydoor', (shape,), seed
            yield 'teleport', (shape,), seed
            for n in (0, 1, 2, 3, 10):
                for object_type in (Wall, MovingObstacle):
                    yield 'crossing', (shape, n, object_type), seed
    for h, w in [(3, 5), (4, 5), (5, 4), (5, 5), (5, 7), (6, 9), (9, 5), (7, 11)]:
        shape = Shape(h, w)
        for seed in seeds:
            for colors in COLOR_SETS:
                yield 'memory', (shape, colors), seed
    for h, w in [(3, 3), (5, 5), (5, 9), (9, 6), (11, 13)]:
        shape = Shape(h, w)
        for seed in seeds:
            for layout in [(1, 1), (2, 2), (2, 3), (5, 1)]:
                for colors in COLOR_SETS:
                    for num_beacons, num_exits in [
                        (0, 2),
                        (1, 1),
                        (1, 2),
                        (3, 2),
                        (1, 3),
                        (2, 4),
                        (1, 5),
                        (200, 2),
                    ]:
                        yield (
                            'memory_rooms',
                            (shape, layout, colors, num_beacons, num_exits),
                            seed,
                        )


def corpus_digest():
    sha = hashlib.sha256()
    counts = {}
    for name, args, seed in corpus():
        result = outcome(name, args, seed)
        kind = 'ValueError' if result == 'ValueError' else 'State'
        counts[name, kind] = counts.get((name, kind), 0) + 1
        line = '|'.join([name, *map(describe, args), str(seed), result])
        sha.update(line.encode() + b'\n')
    return sha.hexdigest(), counts


# --------------------------------------------------------------------------
# checks specific to `dynamic_obstacles` (the function touched by change A)
# --------------------------------------------------------------------------

EXPECTED_DIGEST = (
    '1390392371fed55fe5136b79b17240006b8fbc4fcc04cfb401e7264c5b11ec59'
)


def reference_dynamic_obstacles(shape, num_obstacles, random_agent, *, rng):
    """the pristine implementation, spelled with public API only"""
    state = rf.empty(shape, random_agent, rng=rng)
    vacant_positions = [
        position
        for position in state.grid.area.positions()
        if isinstance(state.grid[position], Floor)
        and position != state.agent.position
    ]
    indices = rng.choice(
        len(vacant_positions), size=num_obstacles, replace=False
    )
    for i in indices:
        state.grid[vacant_positions[i]] = MovingObstacle()
    return state


def check_against_reference():
    n_states = n_errors = 0
    for h, w in itt.product(range(1, 10), range(1, 11)):
        shape = Shape(h, w)
        capacity = (h - 2) * (w - 2) - 2
        for random_agent, seed in itt.product((False, True), range(6)):
            for n in sorted({0, 1, 2, capacity // 2, capacity - 1, capacity}):
                rng, rng_ref = make_rng(seed), make_rng(seed)
                if h < 4 or w < 4 or n < 0:
                    try:
                        rf.dynamic_obstacles(shape, n, random_agent, rng=rng)
                    except ValueError:
                        n_errors += 1
                    else:
                        assert False, (shape, n)
                    continue

                state = rf.dynamic_obstacles(shape, n, random_agent, rng=rng)
                check_dynamic_obstacles(state, shape, n, random_agent)
                state_ref = reference_dynamic_obstacles(
                    shape, n, random_agent, rng=rng_ref
                )
                assert serialize_state(state) == serialize_state(state_ref)
                assert state.grid == state_ref.grid
                assert state.agent == state_ref.agent
                # same amount of randomness consumed
                assert rng.integers(1 << 62) == rng_ref.integers(1 << 62)
                # numpy integers are as good as ints
                state_np = rf.dynamic_obstacles(
                    shape, np.int64(n), random_agent, rng=make_rng(seed)
                )
                assert serialize_state(state_np) == serialize_state(state)
                n_states += 1

            # full board: exactly `capacity` fits, not one more
            if h >= 4 and w >= 4:
                state = rf.dynamic_obstacles(
                    shape, capacity, random_agent, rng=make_rng(seed)
                )
                floors = cells(state, Floor)
                assert floors == [state.agent.position], floors

            for n in (capacity + 1, capacity + 2, 10**6, -1, -7):
                try:
                    rf.dynamic_obstacles(
                        shape, n, random_agent, rng=make_rng(seed)
                    )
                except ValueError as error:
                    assert str(error)
                    n_errors += 1
                else:
                    assert False, (shape, n)

    return n_states, n_errors


def check_global_rng_and_repeats():
    from gym_gridverse.rng import reset_gv_rng

    shape = Shape(6, 9)
    for random_agent in (False, True):
        # module-level rng (rng=None) behaves like an explicit one
        reset_gv_rng(123)
        implicit = [
            serialize_state(rf.dynamic_obstacles(shape, 4, random_agent))
            for _ in range(5)
        ]
        rng = make_rng(123)
        explicit = [
            serialize_state(
                rf.dynamic_obstacles(shape, 4, random_agent, rng=rng)
            )
            for _ in range(5)
        ]
        assert implicit == explicit
        # re-seeding replays the sequence
        reset_gv_rng(123)
        replay = [
            serialize_state(rf.dynamic_obstacles(shape, 4, random_agent))
            for _ in range(5)
        ]
        assert replay == implicit
        assert len(set(implicit)) > 1

        # a failed call in the middle is still a ValueError, and later calls
        # still give well-formed states
        rng = make_rng(5)
        for n in (3, 1000, 0, -1, 26, 27, 2):
            try:
                state = rf.dynamic_obstacles(shape, n, random_agent, rng=rng)
            except ValueError:
                assert n in (1000, -1, 27)
            else:
                check_dynamic_obstacles(state, shape, n, random_agent)


def check_factory_and_environments():
    from gym_gridverse.action import Action
    from gym_gridverse.envs.gridworld import GridWorld
    from gym_gridverse.spaces import (
        ActionSpace,
        ObservationSpace,
        StateSpace,
    )

    def make_env(shape, num_obstacles, random_agent):
        reset_function = rf.factory(
            'dynamic_obstacles',
            shape=shape,
            num_obstacles=num_obstacles,
            random_agent=random_agent,
        )
        object_types = [Floor, Wall, Exit, MovingObstacle]
        return GridWorld(
            StateSpace(shape, object_types, [Color.NONE]),
            ActionSpace(list(Action)),
            ObservationSpace(Shape(3, 3), object_types, [Color.NONE]),
            reset_function,
            lambda state, action, *, rng=None: None,
            lambda state, *, rng=None: None,
            lambda state, action, next_state, *, rng=None: 0.0,
            lambda state, action, next_state, *, rng=None: False,
        )

    configs = [
        (Shape(4, 4), 2, False),
        (Shape(5, 8), 7, True),
        (Shape(9, 4), 0, True),
    ]
    envs = [make_env(*config) for config in configs]
    for seed in (0, 11):
        for env in envs:
            env.set_seed(seed)
        # interleaved resets of several environments
        observed = [[] for _ in envs]
        for _ in range(4):
            for i, env in enumerate(envs):
                env.reset()
                assert env.state_space.contains(env.state)
                check_dynamic_obstacles(env.state, *configs[i])
                observed[i].append(serialize_state(env.state))
        # each environment equals an independent replay
        for i, config in enumerate(configs):
            rng = make_rng(seed)
            replay = [
                serialize_state(rf.dynamic_obstacles(*config, rng=rng))
                for _ in range(4)
            ]
            assert replay == observed[i]

    # missing / impossible factory arguments
    try:
        rf.factory('dynamic_obstacles', shape=Shape(5, 5))
    except ValueError:
        pass
    else:
        assert False
    impossible = rf.factory(
        'dynamic_obstacles', shape=Shape(5, 5), num_obstacles=8
    )
    try:
        impossible(rng=make_rng(0))
    except ValueError:
        pass
    else:
        assert False


def main():
    digest, counts = corpus_digest()
    assert digest == EXPECTED_DIGEST, digest
    print('corpus digest ok:', sum(counts.values()), 'scenarios')
    print('vs reference (states, errors):', check_against_reference())
    check_global_rng_and_repeats()
    check_factory_and_environments()
    print('OK')


if __name__ == '__main__':
    main()
