"""Demo for change A (transition `factory`: non-protocol parameters split once).

Run from the worktree root:  /venv/bin/python _seed/A/demo.py

Exits 0 on the pristine tree and with the patch applied.  Checks

1. `transition_functions.factory` against a reference implementation embedded
   here (the pre-change code), on every registered name and on freshly
   registered custom functions with mixed required / optional parameters;
2. that a `chain` built through the factory runs every configured part exactly
   once, in order, on the same state / action / rng objects;
3. property C09 (objects are conserved) over a broad set of states x actions x
   built-in transition functions and compositions built through the factory;
4. `pickndrop` against a reference implementation embedded here;
5. C09 along histories of the key-door and dynamic-obstacle environments wired
   through `GridWorld` exactly as the YAML files configure them.
"""
import warnings

warnings.filterwarnings("ignore")

import inspect
import itertools as itt
import os
import sys
from functools import partial

import numpy.random as rnd

sys.path.insert(0, os.getcwd())  # the worktree root (run from there)

from gym_gridverse.action import Action
from gym_gridverse.agent import Agent
from gym_gridverse.envs import observation_functions as obs_fs
from gym_gridverse.envs import reset_functions as reset_fs
from gym_gridverse.envs import reward_functions as reward_fs
from gym_gridverse.envs import terminating_functions as term_fs
from gym_gridverse.envs import transition_functions as tf
from gym_gridverse.envs.gridworld import GridWorld
from gym_gridverse.geometry import Area, Orientation, Position, Shape
from gym_gridverse.grid import Grid
from gym_gridverse.grid_object import (
    Beacon,
    Box,
    Color,
    Door,
    Exit,
    Floor,
    Key,
    MovingObstacle,
    NoneGridObject,
    Telepod,
    Wall,
)
from gym_gridverse.spaces import ActionSpace, ObservationSpace, StateSpace
from gym_gridverse.state import State

CHECKS = 0


def check(condition, *message):
    global CHECKS
    CHECKS += 1
    if not condition:
        print('FAILED:', *message)
        sys.exit(1)


# --------------------------------------------------------------------------
# scenarios
# --------------------------------------------------------------------------

# cell specifications: (constructor, args); args may nest specifications
FLOOR = (Floor, ())
PALETTE = [
    FLOOR,
    FLOOR,
    FLOOR,
    (Wall, ()),
    (Exit, ()),
    (Exit, (Color.GREEN,)),
    (Door, (Door.Status.OPEN, Color.RED)),
    (Door, (Door.Status.CLOSED, Color.NONE)),
    (Door, (Door.Status.LOCKED, Color.YELLOW)),
    (Key, (Color.YELLOW,)),
    (Key, (Color.NONE,)),
    (Key, (Color.RED,)),
    (MovingObstacle, ()),
    (MovingObstacle, ()),
    (Box, ((Key, (Color.YELLOW,)),)),
    (Box, (FLOOR,)),
    (Box, ((Box, ((Key, (Color.BLUE,)),)),)),
    (Telepod, (Color.BLUE,)),
    (Telepod, (Color.BLUE,)),
    (Telepod, (Color.NONE,)),
    (Beacon, (Color.GREEN,)),
]

HELD = [None, (Key, (Color.YELLOW,)), (Key, (Color.NONE,))]

SHAPES = [(1, 1), (1, 4), (3, 1), (2, 3), (4, 6), (5, 3)]

SCENERY = (Wall, Door, Exit, Telepod, Beacon)


def build(spec):
    constructor, args = spec
    return constructor(
        *(
            build(arg)
            if isinstance(arg, tuple) and arg and callable(arg[0])
            else arg
            for arg in args
        )
    )


def grid_specs():
    """deterministic pseudo-random grid layouts, non-square ones included"""
    rng = rnd.default_rng(20260927)
    for height, width in SHAPES:
        for fill in range(3):
            yield [
                [
                    FLOOR
                    if fill == 0 and (y + x) % 2
                    else PALETTE[rng.integers(len(PALETTE))]
                    for x in range(width)
                ]
                for y in range(height)
            ]


def make_state(grid_spec, position, orientation, held_spec):
    grid = Grid([[build(spec) for spec in row] for row in grid_spec])
    held = None if held_spec is None else build(held_spec)
    return State(grid, Agent(position, orientation, held))


def scenarios():
    for grid_spec in grid_specs():
        height, width = len(grid_spec), len(grid_spec[0])
        for y, x in itt.product(range(height), range(width)):
            for orientation in Orientation:
                for held_spec in HELD:
                    yield grid_spec, Position(y, x), orientation, held_spec


# --------------------------------------------------------------------------
# property C09 on one in-place transition
# --------------------------------------------------------------------------


def descendants(obj):
    """obj, its content, the content of its content, ..."""
    chain = [obj]
    while isinstance(chain[-1], Box):
        chain.append(chain[-1].content)
    return chain


def snapshot(state):
    cells = {
        position: state.grid[position]
        for position in state.grid.area.positions()
    }
    looks = {}
    for obj in list(cells.values()) + [state.agent.grid_object]:
        for d in descendants(obj):
            looks[id(d)] = (d, type(d), d.color)
    return cells, state.agent.grid_object, looks


def tracked_ids(cells, held):
    objs = [obj for obj in cells.values() if not isinstance(obj, Floor)]
    if not isinstance(held, NoneGridObject):
        objs.append(held)
    return sorted(id(obj) for obj in objs)


def check_conservation(before, state, action, max_box_openings, label):
    cells0, held0, looks0 = before
    cells1, held1, _ = snapshot(state)

    check(set(cells0) == set(cells1), label, 'grid area changed')
    check(
        state.grid.shape
        == Shape(len(state.grid.objects), len(state.grid.objects[0])),
        label,
        'grid shape changed',
    )
    check(
        len(cells0) == sum(len(row) for row in state.grid.objects),
        label,
        'grid rows changed',
    )

    # the hand holds nothing or something holdable
    check(
        isinstance(held1, NoneGridObject) or held1.holdable,
        label,
        'non-holdable object in hand',
        held1,
    )

    # nothing recoloured / retyped, nothing unknown appears (but fresh floors)
    for obj in list(cells1.values()) + [held1]:
        if isinstance(obj, (Floor, NoneGridObject)):
            continue
        check(id(obj) in looks0, label, 'object created', obj)
        _, type0, color0 = looks0[id(obj)]
        check(type(obj) is type0 and obj.color == color0, label, 'recoloured')

    # scenery never moves (a scenery object is only ever found where it was)
    for position, obj in cells0.items():
        if isinstance(obj, SCENERY):
            check(cells1[position] is obj, label, 'scenery moved', position)
    check(not isinstance(held1, SCENERY), label, 'scenery in hand')

    # the multiset of non-floor objects (grid + hand) is conserved ...
    ids0 = tracked_ids(cells0, held0)
    ids1 = tracked_ids(cells1, held1)
    if ids0 == ids1:
        return 0

    # ... except that boxes may have been opened (box -> content)
    check(
        action is Action.ACTUATE and max_box_openings > 0,
        label,
        'objects not conserved',
    )
    openings = 0
    expected = []
    remaining = list(ids1)
    for obj in [cells0[p] for p in cells0] + [held0]:
        if isinstance(obj, (Floor, NoneGridObject)):
            continue
        chain = descendants(obj)
        present = [d for d in chain if id(d) in remaining]
        if isinstance(chain[-1], Floor) and not present:
            # opened down to its floor content
            openings += len(chain) - 1
            continue
        check(len(present) == 1, label, 'object destroyed or duplicated')
        # NOTE: by identity (grid-objects compare equal by type/state/colour)
        openings += [id(d) for d in chain].index(id(present[0]))
        remaining.remove(id(present[0]))
        expected.append(id(present[0]))
    check(not remaining, label, 'object created', remaining)
    check(0 < openings <= max_box_openings, label, 'too many box openings')
    # an opened box is replaced in place (an obstacle may then wander onto
    # the floor that an empty box leaves behind)
    for position, obj in cells0.items():
        if isinstance(obj, Box) and cells1[position] is not obj:
            check(
                any(cells1[position] is d for d in descendants(obj)[1:])
                or (
                    isinstance(descendants(obj)[-1], Floor)
                    and isinstance(cells1[position], MovingObstacle)
                ),
                label,
                'box not replaced by its content',
            )
    return openings


# --------------------------------------------------------------------------
# reference pick-and-drop
# --------------------------------------------------------------------------

FRONT = {
    Orientation.F: (-1, 0),
    Orientation.B: (1, 0),
    Orientation.L: (0, -1),
    Orientation.R: (0, 1),
}


def reference_pickndrop(state, action):
    """expected (cells, held) after pickndrop; None stands for `a floor`"""
    cells = {
        position: state.grid[position]
        for position in state.grid.area.positions()
    }
    held = state.agent.grid_object
    if action is not Action.PICK_N_DROP:
        return cells, held

    dy, dx = FRONT[state.agent.orientation]
    front = Position(state.agent.position.y + dy, state.agent.position.x + dx)
    if front not in cells:
        return cells, held

    obj = cells[front]
    empty_hand = isinstance(held, NoneGridObject)
    if obj.holdable:
        cells[front] = None if empty_hand else held  # pick or swap
        held = obj
    elif isinstance(obj, Floor) and not empty_hand:
        cells[front] = held  # drop
        held = NoneGridObject
    return cells, held


def check_pickndrop_against_reference(state, action, label):
    expected_cells, expected_held = reference_pickndrop(state, action)
    pose = (state.agent.position, state.agent.orientation)
    tf.pickndrop(state, action)
    check(
        (state.agent.position, state.agent.orientation) == pose,
        label,
        'pickndrop moved the agent',
    )
    for position, expected in expected_cells.items():
        obj = state.grid[position]
        if expected is None:
            check(isinstance(obj, Floor), label, 'floor expected', position)
        elif isinstance(expected, Floor):
            check(isinstance(obj, Floor), label, 'floor expected', position)
        else:
            check(obj is expected, label, 'wrong object', position, obj)
    if expected_held is NoneGridObject or isinstance(
        expected_held, NoneGridObject
    ):
        check(isinstance(state.agent.grid_object, NoneGridObject), label)
    else:
        check(state.agent.grid_object is expected_held, label, 'wrong hand')


# --------------------------------------------------------------------------
# 1. factory against the embedded reference (pre-change) implementation
# --------------------------------------------------------------------------


def reference_factory(name, **kwargs):
    registry = tf.transition_function_registry
    try:
        function = registry[name]
    except KeyError as error:
        raise ValueError(f'invalid transition function name {name}') from error

    signature = inspect.signature(function)
    required_keys = [
        parameter.name
        for parameter in registry.get_nonprotocol_parameters(signature)
        if parameter.default is inspect.Parameter.empty
    ]
    optional_keys = [
        parameter.name
        for parameter in registry.get_nonprotocol_parameters(signature)
        if parameter.default is not inspect.Parameter.empty
    ]
    for key in required_keys:
        if key not in kwargs:
            raise ValueError(f'missing keyword argument `{key}`')
    keys = required_keys + optional_keys
    kwargs = {key: value for key, value in kwargs.items() if key in keys}
    return partial(function, **kwargs)


def outcome(factory, name, kwargs):
    try:
        function = factory(name, **kwargs)
    except Exception as error:  # pylint: disable=broad-except
        return ('raises', type(error), str(error))
    return (
        'partial',
        function.func,
        function.args,
        list(function.keywords.items()),  # order matters too
    )


def demo_custom_a(state, action, *, beta, alpha=1, gamma, rng=None, delta=()):
    state.agent.orientation *= Orientation.F


def demo_custom_b(state, action, *, rng=None):
    pass


def demo_custom_c(state, action, first, second=2, *, rng=None, third):
    pass


def check_factory():
    registry = tf.transition_function_registry
    for function in (demo_custom_a, demo_custom_b, demo_custom_c):
        if function.__name__ not in registry:
            registry.register(function)

    parts = [tf.factory('move_agent'), tf.factory('turn_agent')]
    pool = {
        'transition_functions': parts,
        'alpha': 'A',
        'beta': 'B',
        'gamma': 'C',
        'delta': [],
        'first': 1,
        'second': None,
        'third': 3,
        'rng': 'not-a-configurable-key',
        'state': 'nor-this',
        'unknown': object(),
    }
    names = sorted(registry) + ['no_such_function', '', 'Chain']
    keys = list(pool)
    subsets = [()]
    subsets += [(key,) for key in keys]
    subsets += list(itt.combinations(keys, 2))
    subsets += [tuple(keys), tuple(reversed(keys))]
    subsets += [
        ('gamma', 'delta', 'beta', 'unknown', 'alpha'),
        ('third', 'second', 'first'),
        ('third', 'first'),
        ('delta', 'gamma', 'beta'),
    ]
    for name in names:
        for subset in subsets:
            kwargs = {key: pool[key] for key in subset}
            got = outcome(tf.factory, name, kwargs)
            want = outcome(reference_factory, name, kwargs)
            check(got == want, 'factory', name, subset, got, want)

    # the hard-coded expectations themselves
    f = tf.factory('demo_custom_a', delta=4, unknown=0, gamma=3, beta=2)
    check(f.func is demo_custom_a and f.args == ())
    check(list(f.keywords.items()) == [('delta', 4), ('gamma', 3), ('beta', 2)])
    check(
        outcome(tf.factory, 'demo_custom_a', {'alpha': 0})
        == ('raises', ValueError, 'missing keyword argument `beta`')
    )
    check(
        outcome(tf.factory, 'demo_custom_a', {'beta': 0})
        == ('raises', ValueError, 'missing keyword argument `gamma`')
    )
    check(
        outcome(tf.factory, 'demo_custom_c', {'third': 0})
        == ('raises', ValueError, 'missing keyword argument `first`')
    )
    check(
        outcome(tf.factory, 'chain', {})
        == (
            'raises',
            ValueError,
            'missing keyword argument `transition_functions`',
        )
    )
    for name in (
        'move_agent turn_agent pickndrop move_obstacles actuate_door '
        'actuate_box teleport demo_custom_b'
    ).split():
        f = tf.factory(name, unknown=1, rng=2, state=3)
        check(f.func is registry[name] and f.args == () and f.keywords == {})
    check(outcome(tf.factory, 'no_such_function', {})[1] is ValueError)

    # repeated calls build independent partials
    f1 = tf.factory('chain', transition_functions=parts)
    f2 = tf.factory('chain', transition_functions=[])
    check(f1 is not f2 and f1.keywords['transition_functions'] is parts)
    check(f2.keywords == {'transition_functions': []})
    check(parts == [parts[0], parts[1]] and len(parts) == 2)


# --------------------------------------------------------------------------
# 2. a chain built through the factory runs every part once, in order
# --------------------------------------------------------------------------


def check_chain_wiring():
    for n in (0, 1, 2, 5):
        calls = []

        def make_part(i, calls=calls):
            def part(state, action, *, rng=None):
                calls.append((i, state, action, rng))

            return part

        parts = [make_part(i) for i in range(n)]
        chain = tf.factory('chain', transition_functions=parts)
        nested = tf.factory('chain', transition_functions=[chain, chain])
        state = make_state([[FLOOR]], Position(0, 0), Orientation.F, None)
        for rng in (None, rnd.default_rng(3)):
            for action in Action:
                del calls[:]
                check(chain(state, action, rng=rng) is None)
                check([c[0] for c in calls] == list(range(n)), 'chain order')
                check(
                    all(
                        c[1] is state and c[2] is action and c[3] is rng
                        for c in calls
                    ),
                    'chain arguments',
                )
                del calls[:]
                nested(state, action, rng=rng)
                check([c[0] for c in calls] == 2 * list(range(n)))
                check(all(c[3] is rng for c in calls))
        check(len(parts) == n)


# --------------------------------------------------------------------------
# 3 + 4. conservation over states x actions x functions x compositions
# --------------------------------------------------------------------------


def compositions():
    names = [
        'move_agent',
        'turn_agent',
        'pickndrop',
        'move_obstacles',
        'actuate_door',
        'actuate_box',
        'teleport',
    ]
    singles = {name: tf.factory(name) for name in names}
    result = [(name, function, name.count('box')) for name, function in singles.items()]

    def chain_of(*parts):
        return tf.factory(
            'chain',
            transition_functions=[
                singles[p] if isinstance(p, str) else p for p in parts
            ],
        )

    keydoor = chain_of('move_agent', 'turn_agent', 'actuate_door', 'pickndrop')
    obstacles = chain_of('move_agent', 'turn_agent', 'move_obstacles')
    result += [
        ('chain()', chain_of(), 0),
        ('chain(keydoor)', keydoor, 0),
        ('chain(obstacles)', obstacles, 0),
        (
            'chain(everything)',
            chain_of(*names),
            1,
        ),
        (
            'chain(reversed, twice)',
            chain_of(*(list(reversed(names)) + names)),
            2,
        ),
        (
            'chain(chain, teleport, box, chain, pickndrop x2)',
            chain_of(
                keydoor,
                'teleport',
                'actuate_box',
                obstacles,
                'pickndrop',
                'pickndrop',
            ),
            1,
        ),
    ]
    return result


def check_all_states():
    functions = compositions()
    rng = rnd.default_rng(17)
    count = 0
    openings = 0
    for index, scenario in enumerate(scenarios()):
        for action in Action:
            state = make_state(*scenario)
            check_pickndrop_against_reference(
                state, action, ('pickndrop-ref', scenario[1:], action)
            )

            # the single functions relevant to this scenario, and two of the
            # compositions (all of them are visited round-robin)
            selected = functions[:7] if index % 3 == 0 else []
            selected = selected + [
                functions[7 + (index + k) % (len(functions) - 7)]
                for k in range(2)
            ]
            for name, function, max_openings in selected:
                for use_rng in (rng, None):
                    if use_rng is None and index % 7:
                        continue
                    state = make_state(*scenario)
                    before = snapshot(state)
                    function(state, action, rng=use_rng)
                    openings += check_conservation(
                        before,
                        state,
                        action,
                        max_openings,
                        (name, scenario[1:], action),
                    )
                    count += 1
    check(count > 50000, 'too few scenarios', count)
    check(openings > 100, 'boxes were never opened', openings)
    return count


# --------------------------------------------------------------------------
# 5. histories of the key-door and obstacle environments
# --------------------------------------------------------------------------


def chain_from_data(data):
    # as envs/yaml/factory.py does it
    return tf.factory(
        'chain',
        transition_functions=[tf.factory(**entry) for entry in data],
    )


def make_keydoor(shape):
    objects = [Wall, Floor, Exit, Door, Key]
    colors = [Color.NONE, Color.YELLOW]
    reset = reset_fs.factory('keydoor', shape=shape)
    area = Area((-6, 0), (-3, 3))
    return GridWorld(
        StateSpace(shape, objects, colors),
        ActionSpace(list(Action)),
        ObservationSpace(Shape(7, 7), objects, colors),
        reset,
        chain_from_data(
            [
                {'name': 'move_agent'},
                {'name': 'turn_agent'},
                {'name': 'actuate_door'},
                {'name': 'pickndrop'},
            ]
        ),
        obs_fs.factory('partially_occluded', area=area),
        reward_fs.factory('living_reward', reward=-0.05),
        term_fs.factory('reach_exit'),
    )


def make_obstacles(shape, num_obstacles):
    objects = [Wall, Floor, Exit, MovingObstacle]
    colors = [Color.NONE]
    actions = [
        Action.MOVE_FORWARD,
        Action.MOVE_BACKWARD,
        Action.MOVE_LEFT,
        Action.MOVE_RIGHT,
        Action.TURN_LEFT,
        Action.TURN_RIGHT,
    ]
    area = Area((-6, 0), (-3, 3))
    return GridWorld(
        StateSpace(shape, objects, colors),
        ActionSpace(actions),
        ObservationSpace(Shape(7, 7), objects, colors),
        reset_fs.factory(
            'dynamic_obstacles',
            shape=shape,
            num_obstacles=num_obstacles,
            random_agent=False,
        ),
        chain_from_data(
            [
                {'name': 'move_agent'},
                {'name': 'turn_agent'},
                {'name': 'move_obstacles'},
            ]
        ),
        obs_fs.factory('partially_occluded', area=area),
        reward_fs.factory('living_reward', reward=-0.05),
        term_fs.factory('reach_exit'),
    )


def inventory(state):
    """multiset of non-floor (type, colour) on the grid and in the hand"""
    objs = [
        state.grid[position]
        for position in state.grid.area.positions()
        if not isinstance(state.grid[position], Floor)
    ]
    if not isinstance(state.agent.grid_object, NoneGridObject):
        objs.append(state.agent.grid_object)
    return sorted((type(obj).__name__, obj.color.name) for obj in objs)


def scenery_map(state):
    return {
        position: (type(state.grid[position]).__name__, state.grid[position].color)
        for position in state.grid.area.positions()
        if isinstance(state.grid[position], SCENERY)
    }


def run_history(env, seed, steps, policy_seed):
    env.set_seed(seed)
    env.reset()
    policy = rnd.default_rng(policy_seed)
    actions = env.action_space.actions
    trace = []
    for _ in range(steps):
        state = env.state
        inv, scenery = inventory(state), scenery_map(state)
        action = actions[policy.integers(len(actions))]
        _, done = env.step(action)
        next_state = env.state
        check(next_state is not state, 'step works on a copy')
        check(inventory(state) == inv, 'step leaves its input alone')
        check(inventory(next_state) == inv, 'history inventory', seed, action)
        check(scenery_map(next_state) == scenery, 'history scenery', seed)
        check(
            isinstance(next_state.agent.grid_object, (NoneGridObject, Key)),
            'history hand',
        )
        env.observation  # wiring of the observation function keeps working
        trace.append((hash(next_state.grid), next_state.agent.position.yx))
        if done:
            env.reset()
    return trace


def check_histories():
    envs = [
        make_keydoor(Shape(5, 5)),
        make_keydoor(Shape(4, 9)),
        make_keydoor(Shape(7, 6)),
        make_obstacles(Shape(7, 7), 2),
        make_obstacles(Shape(4, 8), 5),
        make_obstacles(Shape(4, 4), 2),
        make_obstacles(Shape(5, 4), 0),
    ]
    # several environments in one process, interleaved, re-seeded
    for seed in (0, 1, 7):
        traces = [run_history(env, seed, 120, seed + 100) for env in envs]
        again = [run_history(env, seed, 120, seed + 100) for env in reversed(envs)]
        check(traces == list(reversed(again)), 're-seeding reproduces', seed)


def main():
    check_factory()
    check_chain_wiring()
    count = check_all_states()
    check_histories()
    print(f'OK: {CHECKS} checks, {count} transitions')


if __name__ == '__main__':
    main()
