"""C05 demo: observations are sound (they never show what is not there).

Runs on the pristine tree and on the patched tree alike;  every check is made
against a reference implementation embedded in this file (own rotation
arithmetic, own slicing) or against hard-coded expectations.

    /venv/bin/python _seed/<X>/demo.py        (from the worktree root)
"""
import inspect
import itertools as itt
import os
import sys

import numpy as np

sys.path.insert(0, os.getcwd())  # the worktree root

from gym_gridverse.agent import Agent
from gym_gridverse.envs import observation_functions as obs_fs
from gym_gridverse.envs import reset_functions as reset_fs
from gym_gridverse.envs.visibility_functions import visibility_function_registry
from gym_gridverse.geometry import (
    Area,
    Orientation,
    Position,
    Shape,
    Transform,
)
from gym_gridverse.grid import Grid
from gym_gridverse.grid_object import (
    Beacon,
    Box,
    Color,
    Door,
    Exit,
    Floor,
    Hidden,
    Key,
    MovingObstacle,
    NoneGridObject,
    Telepod,
    Wall,
)
from gym_gridverse.rng import make_rng, reset_gv_rng
from gym_gridverse.state import State

n_checks = 0


def check(condition, *info):
    global n_checks
    n_checks += 1
    if not condition:
        print('FAILED:', *info)
        sys.exit(1)


# ---------------------------------------------------------------------------
# reference implementation (independent spelling)
# ---------------------------------------------------------------------------

# heading -> (forward vector, right-hand vector), as (dy, dx)
REF_AXES = {
    Orientation.F: ((-1, 0), (0, 1)),
    Orientation.R: ((0, 1), (1, 0)),
    Orientation.B: ((1, 0), (0, -1)),
    Orientation.L: ((0, -1), (-1, 0)),
}

ORIENTATIONS = [Orientation.F, Orientation.R, Orientation.B, Orientation.L]


def ref_rotate(orientation, y, x):
    """relative (y, x) in the agent's frame -> displacement in the world"""
    (fy, fx), (ry, rx) = REF_AXES[orientation]
    ahead, right = -y, x
    return ahead * fy + right * ry, ahead * fx + right * rx


def ref_world_yx(position, orientation, area, i, j):
    """world cell under cell (i, j) of the view"""
    dy, dx = ref_rotate(orientation, area.ymin + i, area.xmin + j)
    return position.y + dy, position.x + dx


def ref_view(state, area):
    """matrix of world objects (None when outside of the grid)"""
    height, width = state.grid.shape.height, state.grid.shape.width
    view = []
    for i in range(area.ymax - area.ymin + 1):
        row = []
        for j in range(area.xmax - area.xmin + 1):
            y, x = ref_world_yx(
                state.agent.position, state.agent.orientation, area, i, j
            )
            inside = 0 <= y < height and 0 <= x < width
            row.append(state.grid.objects[y][x] if inside else None)
        view.append(row)
    return view


def snapshot(state):
    return (
        [list(row) for row in state.grid.objects],
        [id(row) for row in state.grid.objects],
        state.agent.position,
        state.agent.orientation,
        state.agent.grid_object,
    )


def check_unchanged(state, snap, *info):
    objects, row_ids, position, orientation, item = snap
    check(len(state.grid.objects) == len(objects), 'grid height', *info)
    for row, row_, row_id in zip(state.grid.objects, objects, row_ids):
        check(id(row) == row_id, 'grid row replaced', *info)
        check(len(row) == len(row_), 'grid width', *info)
        check(all(a is b for a, b in zip(row, row_)), 'grid mutated', *info)
    check(state.agent.position == position, 'agent position', *info)
    check(state.agent.orientation is orientation, 'agent heading', *info)
    check(state.agent.grid_object is item, 'agent item', *info)


OBSERVATION_FUNCTIONS = [
    'fully_transparent',
    'partially_occluded',
    'raytracing',
    'stochastic_raytracing',
]


def call(function, *args, **kwargs):
    try:
        return 'ok', function(*args, **kwargs)
    except Exception as error:  # pylint: disable=broad-except
        return type(error).__name__, None


def check_observation(state, area, name, seed):
    info = (
        name,
        state.grid.shape,
        state.agent.position,
        state.agent.orientation,
        area,
        seed,
    )
    view = ref_view(state, area)
    height, width = len(view), len(view[0])
    anchor = Position(-area.ymin, -area.xmin)

    # reference outcome:  the library visibility function applied to a view
    # which is built by the reference code
    ref_grid = Grid(
        [[Hidden() if o is None else o for o in row] for row in view]
    )
    ref_status, ref_visibility = call(
        visibility_function_registry[name], ref_grid, anchor, rng=make_rng(seed)
    )

    snap = snapshot(state)
    function = obs_fs.observation_function_registry[name]
    status, observation = call(function, state, area=area, rng=make_rng(seed))
    check_unchanged(state, snap, *info)

    check(status == ref_status, 'outcome', status, ref_status, *info)
    if name == 'partially_occluded':
        # documented limitation: the agent must be on the bottom row
        expected = 'ok' if area.ymax == 0 else 'NotImplementedError'
        if area.contains(Position(0, 0)):
            check(status == expected, 'partially_occluded', status, *info)
    if name == 'fully_transparent':
        check(status == 'ok', 'fully_transparent raised', status, *info)
    if status != 'ok':
        return False

    grid = observation.grid
    check(grid.shape == Shape(height, width), 'shape', grid.shape, *info)
    check(len(grid.objects) == height, 'rows', *info)
    check(all(len(row) == width for row in grid.objects), 'columns', *info)
    check(grid.area == Area((0, height - 1), (0, width - 1)), 'area', *info)
    check(observation.agent.position == anchor, 'anchor', *info)
    check(observation.agent.orientation is Orientation.F, 'heading', *info)
    check(
        observation.agent.grid_object is state.agent.grid_object,
        'held item',
        *info,
    )

    seen = set()
    for i in range(height):
        for j in range(width):
            obj = grid.objects[i][j]
            truth = view[i][j]
            # soundness
            if truth is None:
                check(type(obj) is Hidden, 'outside is shown', i, j, *info)
            else:
                check(
                    type(obj) is Hidden or obj is truth,
                    'unsound cell',
                    i,
                    j,
                    obj,
                    truth,
                    *info,
                )
            # exact result
            if truth is not None and ref_visibility[i, j]:
                check(obj is truth, 'visible cell', i, j, obj, truth, *info)
            else:
                check(type(obj) is Hidden, 'hidden cell', i, j, obj, *info)
            # completeness of the transparent function
            if name == 'fully_transparent' and truth is not None:
                check(obj is truth, 'transparent cell', i, j, *info)
            # hidden cells are not one shared object
            if type(obj) is Hidden and type(truth) is not Hidden:
                check(id(obj) not in seen, 'shared Hidden', i, j, *info)
                seen.add(id(obj))

    # the observation can be edited without touching the state
    for row in grid.objects:
        for j in range(len(row)):
            row[j] = Wall()
    check_unchanged(state, snap, 'after editing the observation', *info)

    # repeated call, same seed -> same result
    status2, observation2 = call(
        function, state, area=area, rng=make_rng(seed)
    )
    check(status2 == 'ok', 'second call', *info)
    for i in range(height):
        for j in range(width):
            obj = observation2.grid.objects[i][j]
            if view[i][j] is not None and ref_visibility[i, j]:
                check(obj is view[i][j], 'second call cell', i, j, *info)
            else:
                check(type(obj) is Hidden, 'second call hidden', i, j, *info)
    return True


# ---------------------------------------------------------------------------
# scenarios
# ---------------------------------------------------------------------------


def random_object(rng):
    colors = list(Color)
    color = colors[rng.integers(len(colors))]
    kind = rng.integers(14)
    if kind <= 4:
        return Floor()
    if kind <= 6:
        return Wall()
    if kind == 7:
        return Exit(color)
    if kind == 8:
        statuses = list(Door.Status)
        return Door(statuses[rng.integers(len(statuses))], color)
    if kind == 9:
        return Key(color)
    if kind == 10:
        return MovingObstacle()
    if kind == 11:
        return Box(Key(color))
    if kind == 12:
        return Telepod(color)
    return Beacon(color) if rng.integers(2) else Hidden()


def random_grid(rng, height, width):
    return Grid(
        [[random_object(rng) for _ in range(width)] for _ in range(height)]
    )


SHAPES = [(1, 1), (1, 4), (5, 1), (2, 3), (3, 3), (4, 6), (7, 3)]

AREAS = [
    Area((0, 0), (0, 0)),  # just the agent
    Area((-1, 0), (-1, 1)),
    Area((-2, 0), (-1, 1)),
    Area((-6, 0), (-3, 3)),  # default minigrid-like view
    Area((-3, 0), (-1, 2)),  # asymmetric, agent on the bottom row
    Area((-3, 0), (0, 2)),  # agent in the bottom-left corner
    Area((-2, 0), (-3, 0)),  # agent in the bottom-right corner
    Area((-2, 1), (-2, 1)),  # sees behind itself
    Area((-1, 3), (-1, 2)),
    Area((0, 2), (0, 3)),  # agent in the top-left corner
    Area((-9, 9), (-9, 9)),  # larger than any grid here
    Area((-3, -1), (-1, 1)),  # agent not in the view
    Area((1, 2), (2, 4)),  # agent not in the view, off-axis
    Area((-1, 1), (-4, -4)),  # one column wide
    Area((-2, -2), (-1, 2)),  # one row high
]


def scenario_states():
    rng = make_rng(20240605)
    for height, width in SHAPES:
        grid = random_grid(rng, height, width)
        items = [None, Key(Color.NONE), Key(Color.RED), NoneGridObject()]
        for k, (y, x) in enumerate(itt.product(range(height), range(width))):
            border = y in (0, height - 1) or x in (0, width - 1)
            if not border and (y + x) % 2:
                continue  # every border / corner cell, half of the interior
            for orientation in ORIENTATIONS:
                item = items[(k + orientation.value) % len(items)]
                yield State(grid, Agent(Position(y, x), orientation, item))


def run_observation_scenarios():
    n_ok = {name: 0 for name in OBSERVATION_FUNCTIONS}
    n_all = 0
    for n, state in enumerate(scenario_states()):
        for m, area in enumerate(AREAS):
            for name in OBSERVATION_FUNCTIONS:
                if name in ('raytracing', 'stochastic_raytracing'):
                    # ray tracing is expensive:  thin out the scenarios
                    if (n + m) % 3 or area.height * area.width > 100:
                        continue
                seeds = [0, 7] if name == 'stochastic_raytracing' else [3]
                for seed in seeds:
                    n_all += 1
                    n_ok[name] += check_observation(state, area, name, seed)
    return n_all, n_ok


def run_hard_coded():
    """3x4 grid, hand-written expectations"""
    W, F = Wall, Floor
    a, b, c, d = Key(Color.RED), Exit(), Beacon(Color.BLUE), Key(Color.NONE)
    objects = [
        [a, F(), F(), b],
        [F(), F(), W(), F()],
        [c, F(), F(), d],
    ]
    grid = Grid(objects)
    o = objects
    H = None  # stands for Hidden in the tables

    item = Key(Color.GREEN)
    area = Area((-1, 0), (-1, 2))  # asymmetric: two cells to the right
    expectations = {
        # agent in the top-left corner
        (0, 0, Orientation.F): [[H, H, H, H], [H, a, o[0][1], o[0][2]]],
        (0, 0, Orientation.R): [
            [H, o[0][1], o[1][1], o[2][1]],
            [H, a, o[1][0], c],
        ],
        (0, 0, Orientation.B): [
            [o[1][1], o[1][0], H, H],
            [o[0][1], a, H, H],
        ],
        (0, 0, Orientation.L): [[H, H, H, H], [o[1][0], a, H, H]],
        # agent in the bottom-right corner
        (2, 3, Orientation.F): [[o[1][2], o[1][3], H, H], [o[2][2], d, H, H]],
        (2, 3, Orientation.R): [[H, H, H, H], [o[1][3], d, H, H]],
        (2, 3, Orientation.B): [[H, H, H, H], [H, d, o[2][2], o[2][1]]],
        (2, 3, Orientation.L): [
            [H, o[2][2], o[1][2], o[0][2]],
            [H, d, o[1][3], b],
        ],
    }
    for (y, x, orientation), expected in expectations.items():
        state = State(grid, Agent(Position(y, x), orientation, item))
        observation = obs_fs.fully_transparent(state, area=area)
        check(observation.grid.shape == Shape(2, 4), 'hard-coded shape')
        check(observation.agent.position == Position(1, 1), 'hard-coded anchor')
        check(observation.agent.orientation is Orientation.F, 'hard-coded F')
        check(observation.agent.grid_object is item, 'hard-coded item')
        for i, j in itt.product(range(2), range(4)):
            obj = observation.grid[Position(i, j)]
            if expected[i][j] is None:
                check(type(obj) is Hidden, 'hard-coded hidden', y, x, i, j)
            else:
                check(obj is expected[i][j], 'hard-coded', y, x, i, j, obj)

    # a wall right in front of the agent hides what is behind it
    state = State(grid, Agent(Position(1, 3), Orientation.L))
    observation = obs_fs.partially_occluded(state, area=Area((-3, 0), (-1, 1)))
    rows = [[type(x) for x in row] for row in observation.grid.objects]
    check(rows[3] == [Key, Floor, Exit], 'occlusion row 3', rows)
    check(rows[2][1] is Wall, 'occlusion wall', rows)
    check(rows[1][1] is Hidden and rows[0][1] is Hidden, 'occlusion', rows)
    check(observation.grid[(3, 2)] is b, 'occlusion identity')
    check(observation.grid[(3, 0)] is d, 'occlusion identity')


def run_subgrid():
    """Grid.subgrid against the reference slicing"""
    rng = make_rng(99)
    has_factory = 'factory' in inspect.signature(Grid.subgrid).parameters
    for height, width in SHAPES:
        grid = random_grid(rng, height, width)
        rows = [list(row) for row in grid.objects]
        bounds = [(-3, -1), (-2, 0), (-1, 1), (0, 0), (0, 2), (1, 9), (8, 9)]
        for ys, xs in itt.product(bounds, bounds):
            area = Area(ys, xs)
            for kwargs in [{}] + ([{'factory': Hidden}] if has_factory else []):
                subgrid = grid.subgrid(area, **kwargs)
                check(subgrid is not grid, 'subgrid is the grid')
                check(
                    subgrid.shape == Shape(area.height, area.width),
                    'subgrid shape',
                    area,
                )
                fresh = set()
                for i, y in enumerate(range(ys[0], ys[1] + 1)):
                    check(
                        all(subgrid.objects[i] is not row for row in rows),
                        'subgrid shares a row',
                    )
                    for j, x in enumerate(range(xs[0], xs[1] + 1)):
                        obj = subgrid.objects[i][j]
                        if 0 <= y < height and 0 <= x < width:
                            check(obj is rows[y][x], 'subgrid cell', area, y, x)
                        else:
                            check(type(obj) is Hidden, 'subgrid out', area, y, x)
                            check(id(obj) not in fresh, 'subgrid shared Hidden')
                            fresh.add(id(obj))
            if has_factory:
                subgrid = grid.subgrid(area, factory=Wall)
                for i, y in enumerate(range(ys[0], ys[1] + 1)):
                    for j, x in enumerate(range(xs[0], xs[1] + 1)):
                        obj = subgrid.objects[i][j]
                        if 0 <= y < height and 0 <= x < width:
                            check(obj is rows[y][x], 'factory cell', area, y, x)
                        else:
                            check(type(obj) is Wall, 'factory out', area, y, x)
        check(
            all(
                a is b
                for row, row_ in zip(grid.objects, rows)
                for a, b in zip(row, row_)
            ),
            'subgrid mutated the grid',
        )


def run_geometry():
    """Orientation / Transform products against the reference rotation"""
    hard_coded = {
        Orientation.F: (Position(2, -5), Area((-3, 1), (-2, 4))),
        Orientation.B: (Position(-2, 5), Area((-1, 3), (-4, 2))),
        Orientation.R: (Position(-5, -2), Area((-2, 4), (-1, 3))),
        Orientation.L: (Position(5, 2), Area((-4, 2), (-3, 1))),
    }
    for orientation, (position, area) in hard_coded.items():
        check(orientation * Position(2, -5) == position, 'hard-coded position')
        check(Position(2, -5) * orientation == position, 'hard-coded rmul')
        check(orientation * Area((-3, 1), (-2, 4)) == area, 'hard-coded area')
        check(Area((-3, 1), (-2, 4)) * orientation == area, 'hard-coded rmul')

    values = [-7, -2, -1, 0, 1, 3, 10]
    for orientation in ORIENTATIONS:
        for y, x in itt.product(values, values):
            result = orientation * Position(y, x)
            check(type(result) is Position, 'position type')
            check(result.yx == ref_rotate(orientation, y, x), 'rotation', y, x)
            check(type(result.y) is int and type(result.x) is int, 'int kind')
        origin = orientation * Position(0, 0)
        check(origin == Position(0, 0), 'origin')

        bounds = [(a, b) for a, b in itt.product(values, values) if a <= b]
        for ys, xs in itt.product(bounds, bounds):
            area = Area(ys, xs)
            result = orientation * area
            check(type(result) is Area, 'area type')
            corners = [
                ref_rotate(orientation, y, x) for y in ys for x in xs
            ]
            expected = Area(
                (min(c[0] for c in corners), max(c[0] for c in corners)),
                (min(c[1] for c in corners), max(c[1] for c in corners)),
            )
            check(result == expected, 'area rotation', orientation, area)
            check(type(result.ys) is tuple and type(result.xs) is tuple, 'tuples')
            check(
                all(type(v) is int for v in result.ys + result.xs), 'int bounds'
            )
            transform = Transform(Position(4, -6), orientation)
            moved = transform * area
            check(
                moved
                == Area(
                    (expected.ymin + 4, expected.ymax + 4),
                    (expected.xmin - 6, expected.xmax - 6),
                ),
                'transform area',
            )
            # the cells of the rotated area are the rotated cells
            if area.height * area.width <= 12:
                cells = {(orientation * p).yx for p in area.positions()}
                check(cells == {p.yx for p in result.positions()}, 'cells')

        for other in ORIENTATIONS:
            product = orientation * other
            check(isinstance(product, Orientation), 'orientation product')
            p = Position(2, 5)
            check(product * p == orientation * (other * p), 'composition')

    # numpy integers keep working as coordinates
    p = Orientation.R * Position(np.int64(2), np.int64(5))
    check(p == Position(5, -2), 'numpy position')
    check(Orientation.B * Area((np.int64(-1), np.int64(2)), (0, 1))
          == Area((-2, 1), (-1, 0)), 'numpy area')

    for value in [3, 'F', None, (1, 2)]:
        status, _ = call(lambda v=value: Orientation.L * v)
        check(status == 'TypeError', 'unsupported operand', value, status)


def run_environments():
    """several environments in one process, re-seeding"""
    area = Area((-6, 0), (-3, 3))
    makers = [
        lambda rng: reset_fs.keydoor(Shape(7, 9), rng=rng),
        lambda rng: reset_fs.empty(Shape(4, 8), random_agent=True, rng=rng),
        lambda rng: reset_fs.teleport(Shape(9, 6), rng=rng),
        lambda rng: reset_fs.dynamic_obstacles(
            Shape(6, 7), num_obstacles=3, random_agent=True, rng=rng
        ),
    ]
    for _ in range(2):  # the second round re-seeds everything
        reset_gv_rng(11)
        states = [maker(make_rng(5 + k)) for k, maker in enumerate(makers)]
        for state in states:
            for name in OBSERVATION_FUNCTIONS:
                ok = check_observation(state, area, name, 13)
                check(ok, 'environment observation', name)
        # module-level generator (rng=None), twice with the same seed
        results = []
        for _ in range(2):
            reset_gv_rng(21)
            observation = obs_fs.stochastic_raytracing(states[0], area=area)
            results.append(
                [[type(o) is Hidden for o in r] for r in observation.grid.objects]
            )
        check(results[0] == results[1], 're-seeding the module generator')


def main():
    run_hard_coded()
    run_geometry()
    run_subgrid()
    run_environments()
    n_all, n_ok = run_observation_scenarios()
    for name in OBSERVATION_FUNCTIONS:
        check(n_ok[name] > 100, 'too few completed scenarios', name, n_ok)
    print(f'scenarios={n_all} completed={n_ok} checks={n_checks}')
    print('OK')


if __name__ == '__main__':
    main()
