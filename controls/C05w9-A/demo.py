"""Demo for change A (Grid.subgrid slices rows instead of testing every cell).

Runs identically on the pristine tree and with the patch applied; exits 0 when

* Grid.subgrid agrees, cell by cell and by object identity, with a reference
  implementation embedded below (the pristine per-cell spelling), for every
  area in a broad sweep (inside, overlapping each border / corner, entirely
  outside on each side, single cells, huge paddings, non-square grids);
* every built-in observation function is sound (property C05) and agrees with
  an embedded reference of the whole observation pipeline.
"""
import itertools as itt
import os
import sys

sys.path.insert(0, os.getcwd())  # run from the root of the tree under test

import numpy as np
import numpy.random as rnd

from gym_gridverse.agent import Agent
from gym_gridverse.envs import observation_functions as ofs
from gym_gridverse.envs.visibility_functions import visibility_function_registry
from gym_gridverse.geometry import Area, Orientation, Position
from gym_gridverse.grid import Grid
from gym_gridverse.grid_object import (
    Color,
    Door,
    Floor,
    Hidden,
    Key,
    NoneGridObject,
    Wall,
)
from gym_gridverse.state import State

checks = 0


def check(condition, message):
    global checks
    checks += 1
    if not condition:
        print('FAIL:', message)
        sys.exit(1)


# ---------------------------------------------------------------- references


def reference_subgrid_cells(grid: Grid, area: Area):
    """per cell: the world object, or None where a Hidden is expected"""
    height, width = grid.shape.height, grid.shape.width
    return [
        [
            grid.objects[y][x] if 0 <= y < height and 0 <= x < width else None
            for x in range(area.xmin, area.xmax + 1)
        ]
        for y in range(area.ymin, area.ymax + 1)
    ]


def world_cell(state: State, area: Area, i: int, j: int):
    """world position shown at row i, column j of the view"""
    rel = Position(area.ymin + i, area.xmin + j)
    return state.agent.position + state.agent.orientation * rel


_rotations = {
    Orientation.F: lambda d: d,
    Orientation.R: lambda d: [list(r) for r in zip(*d)][::-1],
    Orientation.B: lambda d: [r[::-1] for r in d[::-1]],
    Orientation.L: lambda d: [list(r) for r in zip(*d[::-1])],
}


def reference_observation(state, area, visibility_function, rng):
    """pristine from_visibility, spelled with plain lists;  cells are the world
    object or None for Hidden"""
    pov_area = state.agent.position + state.agent.orientation * area
    pov_position = Position(-area.ymin, -area.xmin)
    cells = reference_subgrid_cells(state.grid, pov_area)
    cells = _rotations[state.agent.orientation](cells)
    view = Grid(
        [[Hidden() if c is None else c for c in row] for row in cells]
    )
    visibility = visibility_function(view, pov_position, rng=rng)
    if visibility.shape != (area.height, area.width):
        raise ValueError('shape')
    return [
        [c if visibility[i, j] else None for j, c in enumerate(row)]
        for i, row in enumerate(cells)
    ]


# ------------------------------------------------------------------ scenarios


def make_grid(height, width, seed):
    rng = rnd.default_rng(seed)
    colors = list(Color)
    factories = [
        Floor,
        Floor,
        Floor,
        Wall,
        lambda: Key(colors[rng.integers(len(colors))]),
        lambda: Door(Door.Status.OPEN, Color.NONE),
        lambda: Door(Door.Status.CLOSED, colors[rng.integers(len(colors))]),
        lambda: Door(Door.Status.LOCKED, Color.NONE),
        Hidden,
    ]
    return Grid(
        [
            [factories[rng.integers(len(factories))]() for _ in range(width)]
            for _ in range(height)
        ]
    )


SHAPES = [(1, 1), (1, 4), (5, 1), (2, 3), (4, 4), (3, 6), (6, 5)]


def test_subgrid():
    for (height, width), seed in zip(SHAPES, itt.count()):
        grid = make_grid(height, width, seed)
        snapshot = [list(row) for row in grid.objects]
        bounds_y = [-7, -2, -1, 0, 1, height - 2, height - 1, height, height + 3]
        bounds_x = [-7, -2, -1, 0, 1, width - 2, width - 1, width, width + 3]
        for y0, y1 in itt.combinations_with_replacement(sorted(set(bounds_y)), 2):
            for x0, x1 in itt.combinations_with_replacement(
                sorted(set(bounds_x)), 2
            ):
                area = Area((y0, y1), (x0, x1))
                expected = reference_subgrid_cells(grid, area)
                for _ in range(2):  # repeated calls
                    sub = grid.subgrid(area)
                    check(
                        sub.shape.as_tuple == (area.height, area.width),
                        f'subgrid shape {grid.shape} {area}',
                    )
                    check(
                        all(len(row) == area.width for row in sub.objects),
                        f'subgrid row lengths {grid.shape} {area}',
                    )
                    hidden_ids = set()
                    for i, j in itt.product(
                        range(area.height), range(area.width)
                    ):
                        got, exp = sub.objects[i][j], expected[i][j]
                        if exp is None:
                            check(
                                type(got) is Hidden,
                                f'outside cell not Hidden {grid.shape} {area} {(i, j)}',
                            )
                            hidden_ids.add(id(got))
                        else:
                            check(
                                got is exp,
                                f'inside cell differs {grid.shape} {area} {(i, j)}',
                            )
                    n_hidden = sum(c is None for row in expected for c in row)
                    check(
                        len(hidden_ids) == n_hidden,
                        f'padding cells are not distinct objects {grid.shape} {area}',
                    )
                    # the rows of the result are fresh lists
                    check(
                        all(
                            row is not orig
                            for row in sub.objects
                            for orig in grid.objects
                        ),
                        'subgrid row aliases a world row',
                    )
                    sub.objects[0][0] = Wall()
                check(
                    all(
                        a is b
                        for ra, rb in zip(grid.objects, snapshot)
                        for a, b in zip(ra, rb)
                    )
                    and [len(r) for r in grid.objects]
                    == [len(r) for r in snapshot],
                    'world grid modified through the subgrid',
                )

    # huge paddings and far away areas
    grid = make_grid(3, 5, 99)
    for area in [
        Area((-1000, -990), (-3, 7)),
        Area((1, 1), (-400, 400)),
        Area((-300, 300), (4, 4)),
        Area((10**6, 10**6 + 2), (10**6, 10**6 + 1)),
        Area((-(10**6) - 2, -(10**6)), (0, 4)),
    ]:
        expected = reference_subgrid_cells(grid, area)
        sub = grid.subgrid(area)
        check(sub.shape.as_tuple == (area.height, area.width), f'far {area}')
        check(
            all(
                (type(g) is Hidden) if e is None else (g is e)
                for rg, re in zip(sub.objects, expected)
                for g, e in zip(rg, re)
            ),
            f'far cells {area}',
        )


AREAS = [
    Area((0, 0), (0, 0)),
    Area((-2, 0), (-1, 1)),
    Area((-6, 0), (-3, 3)),
    Area((-3, 0), (-1, 4)),  # asymmetric
    Area((-1, 2), (-3, 0)),  # asymmetric, agent not on the bottom row
    Area((-2, 2), (-2, 2)),
    Area((0, 3), (0, 2)),  # agent in the top-left corner of the view
    Area((-9, 0), (-9, 9)),  # much larger than any grid
    Area((-1, 0), (0, 0)),
    Area((0, 0), (-2, 5)),
]

FUNCTIONS = [
    'fully_transparent',
    'partially_occluded',
    'raytracing',
    'stochastic_raytracing',
]


def test_observations():
    for (height, width), gseed in zip(SHAPES, itt.count(10)):
        grid = make_grid(height, width, gseed)
        positions = sorted(
            {
                (0, 0),
                (0, width - 1),
                (height - 1, 0),
                (height - 1, width - 1),
                (height // 2, width // 2),
                (0, width // 2),
                (height // 2, 0),
            }
        )
        items = [None, Key(Color.NONE), Key(Color.RED)]
        for (y, x), orientation, area in itt.product(
            positions, Orientation, AREAS
        ):
            item = items[(y + x + orientation.value) % len(items)]
            state = State(grid, Agent(Position(y, x), orientation, item))
            snapshot = [list(row) for row in grid.objects]
            for name in FUNCTIONS:
                function = getattr(ofs, name)
                visibility_function = visibility_function_registry[name]
                label = f'{name} {grid.shape} {(y, x)} {orientation} {area}'
                for seed in (0, 7):
                    try:
                        expected = reference_observation(
                            state,
                            area,
                            visibility_function,
                            rnd.default_rng(seed),
                        )
                    except NotImplementedError:
                        expected = NotImplementedError
                    try:
                        observation = function(
                            state, area=area, rng=rnd.default_rng(seed)
                        )
                    except NotImplementedError:
                        check(expected is NotImplementedError, 'raise ' + label)
                        continue
                    check(expected is not NotImplementedError, 'noraise ' + label)

                    check(
                        observation.grid.shape.as_tuple
                        == (area.height, area.width),
                        'shape ' + label,
                    )
                    check(
                        observation.agent.position
                        == Position(-area.ymin, -area.xmin)
                        and observation.agent.orientation is Orientation.F,
                        'agent pose ' + label,
                    )
                    check(
                        observation.agent.grid_object is state.agent.grid_object,
                        'held item ' + label,
                    )
                    if item is None:
                        check(
                            type(observation.agent.grid_object)
                            is NoneGridObject,
                            'no item ' + label,
                        )
                    for i, j in itt.product(
                        range(area.height), range(area.width)
                    ):
                        got = observation.grid[Position(i, j)]
                        world = world_cell(state, area, i, j)
                        inside = (
                            0 <= world.y < height and 0 <= world.x < width
                        )
                        # soundness
                        check(
                            type(got) is Hidden
                            or (inside and got is grid[world]),
                            f'unsound cell {(i, j)} ' + label,
                        )
                        if name == 'fully_transparent' and inside:
                            check(
                                got is grid[world],
                                f'transparent hides {(i, j)} ' + label,
                            )
                        # agreement with the embedded reference
                        exp = expected[i][j]
                        check(
                            (type(got) is Hidden)
                            if exp is None
                            else (got is exp),
                            f'differs from reference {(i, j)} ' + label,
                        )
            check(
                all(
                    a is b
                    for ra, rb in zip(grid.objects, snapshot)
                    for a, b in zip(ra, rb)
                ),
                'observation modified the state',
            )


def test_module_rng():
    # re-seeding the module generator reproduces stochastic observations
    from gym_gridverse.rng import reset_gv_rng

    grid = make_grid(6, 5, 3)
    state = State(grid, Agent(Position(3, 2), Orientation.L))
    area = Area((-4, 0), (-2, 2))

    def run():
        reset_gv_rng(123)
        return [
            [
                [type(o) is Hidden for o in row]
                for row in ofs.stochastic_raytracing(
                    state, area=area
                ).grid.objects
            ]
            for _ in range(3)
        ]

    check(run() == run(), 're-seeding is not reproducible')


def test_factory():
    grid = make_grid(4, 4, 5)
    state = State(grid, Agent(Position(0, 3), Orientation.R, Key(Color.BLUE)))
    area = Area((-2, 0), (-1, 2))
    for name in FUNCTIONS:
        a = ofs.factory(name, area=area)(state, rng=rnd.default_rng(1))
        b = getattr(ofs, name)(state, area=area, rng=rnd.default_rng(1))
        check(a == b and a.agent == b.agent, 'factory ' + name)
        check(
            all(
                p is q
                for ra, rb in zip(a.grid.objects, b.grid.objects)
                for p, q in zip(ra, rb)
                if type(p) is not Hidden
            ),
            'factory identities ' + name,
        )


if __name__ == '__main__':
    test_subgrid()
    test_observations()
    test_module_rng()
    test_factory()
    print(f'OK ({checks} checks)')
