"""Check program for commit B (new `Grid.colors()`, used by the `contains`
predicates of StateSpace and ObservationSpace).

Compares the space-membership predicates with an independent re-implementation
on many grids (square and not), tampered states/observations, unusual space
parameters, and the states/observations reached in colourful environments.
Must exit 0 on the clean tree and with the commit applied (the direct tests of
`Grid.colors` only run when the method exists).
"""
import itertools as itt
import math
import os
import sys
from functools import partial

sys.path.insert(0, os.getcwd())

import numpy as np  # noqa: E402

from gym_gridverse.action import Action  # noqa: E402
from gym_gridverse.agent import Agent  # noqa: E402
from gym_gridverse.debugging import gv_debug, reset_gv_debug  # noqa: E402
from gym_gridverse.envs import observation_functions as observation_fs  # noqa: E402
from gym_gridverse.envs import reset_functions as reset_fs  # noqa: E402
from gym_gridverse.envs import reward_functions as reward_fs  # noqa: E402
from gym_gridverse.envs import terminating_functions as terminating_fs  # noqa: E402
from gym_gridverse.envs import transition_functions as transition_fs  # noqa: E402
from gym_gridverse.envs.gridworld import GridWorld  # noqa: E402
from gym_gridverse.geometry import Area, Orientation, Position, Shape  # noqa: E402
from gym_gridverse.grid import Grid  # noqa: E402
from gym_gridverse.grid_object import (  # noqa: E402
    Beacon,
    Box,
    Color,
    Door,
    Exit,
    Floor,
    GridObject,
    Hidden,
    Key,
    MovingObstacle,
    NoneGridObject,
    Telepod,
    Wall,
)
from gym_gridverse.observation import Observation  # noqa: E402
from gym_gridverse.spaces import ActionSpace, ObservationSpace, StateSpace  # noqa: E402
from gym_gridverse.state import State  # noqa: E402

CHECKS = 0
OUTCOMES = {True: 0, False: 0}


def check(condition, *info):
    global CHECKS
    CHECKS += 1
    if not condition:
        raise AssertionError(info)


# --------------------------------------------------------------------------
# independent reference predicates, on the raw list of lists
# --------------------------------------------------------------------------


def cells_of(grid):
    """objects the grid exposes:  `shape` many rows/columns of `objects`"""
    return [
        grid.objects[y][x]
        for y in range(grid.shape.height)
        for x in range(grid.shape.width)
    ]


def ref_state_contains(shape, object_types, colors, state):
    allowed_colors = set(colors) | {Color.NONE}
    grid, agent = state.grid, state.agent
    if (grid.shape.height, grid.shape.width) != (shape.height, shape.width):
        return False
    for obj in cells_of(grid):
        if not any(type(obj) is t for t in object_types):
            return False
    for obj in cells_of(grid):
        if obj.color not in allowed_colors:
            return False
    if not (
        0 <= agent.position.y < shape.height
        and 0 <= agent.position.x < shape.width
    ):
        return False
    if not isinstance(agent.orientation, Orientation):
        return False
    held = agent.grid_object
    if type(held) is not NoneGridObject and not any(
        type(held) is t for t in object_types
    ):
        return False
    return held.color in allowed_colors


def ref_observation_contains(shape, object_types, colors, observation):
    allowed_colors = set(colors) | {Color.NONE}
    grid, agent = observation.grid, observation.agent
    ok = (grid.shape.height, grid.shape.width) == (shape.height, shape.width)
    for obj in cells_of(grid):
        if type(obj) is not Hidden and not any(
            type(obj) is t for t in object_types
        ):
            ok = False
        if obj.color not in allowed_colors:
            ok = False
    if not (
        0 <= agent.position.y < shape.height
        and 0 <= agent.position.x < shape.width
    ):
        ok = False
    held = agent.grid_object
    if type(held) is not NoneGridObject and not any(
        type(held) is t for t in object_types
    ):
        ok = False
    if held.color not in allowed_colors:
        ok = False
    return ok


# --------------------------------------------------------------------------
# random material
# --------------------------------------------------------------------------

COLORS = list(Color)
ALL_TYPES = [Floor, Wall, Exit, Door, Key, MovingObstacle, Box, Telepod, Beacon]


def make_object(object_type, color, gen):
    if object_type in (Floor, Wall, MovingObstacle, Hidden, NoneGridObject):
        return object_type()
    if object_type is Exit:
        return Exit(color)
    if object_type is Door:
        return Door(list(Door.Status)[gen.integers(len(Door.Status))], color)
    if object_type is Box:
        return Box(Key(color))
    return object_type(color)


def random_grid(gen, shape, object_types, colors):
    return Grid(
        [
            [
                make_object(
                    object_types[gen.integers(len(object_types))],
                    colors[gen.integers(len(colors))],
                    gen,
                )
                for _ in range(shape[1])
            ]
            for _ in range(shape[0])
        ]
    )


SHAPES = [
    (1, 1),
    (1, 2),
    (2, 1),
    (1, 5),
    (5, 1),
    (2, 3),
    (3, 2),
    (3, 3),
    (3, 7),
    (7, 3),
    (4, 6),
    (6, 5),
    (5, 5),
]

SPACE_PARAMETERS = [
    ([Floor, Wall], []),
    ([Floor, Wall, Exit, Key], [Color.NONE]),
    ([Floor, Wall, Exit, Door, Key], [Color.NONE, Color.YELLOW]),
    ([Floor, Wall, Exit, Door, Key], [Color.YELLOW]),  # NONE is implied
    ([Floor, Key, Telepod, Beacon], [Color.RED, Color.RED, Color.BLUE]),
    (ALL_TYPES, COLORS),
    ((Floor, Telepod), (Color.GREEN,)),  # tuples instead of lists
    ([Key], [Color.BLUE]),
]


def snapshot(grid):
    return [[(id(obj), obj.color) for obj in row] for row in grid.objects]


def agreed(result, expected, *info):
    check(type(result) is bool, *info)
    check(result is expected, result, expected, *info)
    OUTCOMES[result] += 1


# --------------------------------------------------------------------------
# 1. StateSpace.contains
# --------------------------------------------------------------------------


def test_state_space():
    gen = np.random.default_rng(11)
    for shape, (object_types, colors) in itt.product(SHAPES, SPACE_PARAMETERS):
        height, width = shape
        space = StateSpace(Shape(*shape), object_types, colors)
        check(space.colors == set(colors) | {Color.NONE})
        declared_colors = sorted(space.colors, key=lambda c: c.value)
        reference = partial(
            ref_state_contains, Shape(*shape), list(object_types), list(colors)
        )

        def verdict(state):
            before = snapshot(state.grid)
            for _ in range(2):  # repeated calls agree
                agreed(space.contains(state), reference(state), shape, colors)
            check(snapshot(state.grid) == before)

        for _ in range(4):
            # conforming state, agent at each corner and in the middle
            grid = random_grid(gen, shape, list(object_types), declared_colors)
            for y, x in {(0, 0), (0, width - 1), (height - 1, 0),
                         (height - 1, width - 1), (height // 2, width // 2)}:
                for orientation in Orientation:
                    state = State(grid, Agent(Position(y, x), orientation))
                    verdict(state)
                    check(space.contains(state) is True)

            # agent just outside each side
            for y, x in [(-1, 0), (height, 0), (0, -1), (0, width),
                         (height, width), (-1, -1), (width, height)]:
                verdict(State(grid, Agent(Position(y, x), Orientation.F)))

            # held items of any type and colour
            for held_type, color in itt.product(
                ALL_TYPES + [NoneGridObject, Hidden], COLORS
            ):
                held = make_object(held_type, color, gen)
                verdict(State(grid, Agent(Position(0, 0), Orientation.B, held)))

            # orientation that is not an orientation
            agent = Agent(Position(0, 0), Orientation.F)
            agent.orientation = 0
            verdict(State(grid, agent))

            # one foreign cell (any type, any colour) at a corner, a border
            # or anywhere else
            for y, x in {(0, 0), (0, width - 1), (height - 1, 0),
                         (height - 1, width - 1),
                         (int(gen.integers(height)), int(gen.integers(width)))}:
                for cell_type, color in itt.product(ALL_TYPES + [Hidden], COLORS):
                    tampered = Grid([list(row) for row in grid.objects])
                    tampered[y, x] = make_object(cell_type, color, gen)
                    verdict(
                        State(tampered, Agent(Position(0, 0), Orientation.L))
                    )

            # grids of arbitrary content
            wild = random_grid(gen, shape, ALL_TYPES, COLORS)
            verdict(State(wild, Agent(Position(0, 0), Orientation.R)))

        # other shapes (transposed, one more row, one more column)
        for other in [(width, height), (height + 1, width), (height, width + 1)]:
            grid = random_grid(gen, other, list(object_types), declared_colors)
            verdict(State(grid, Agent(Position(0, 0), Orientation.F)))


class Moody(GridObject, register=False):
    """grid-object whose color can be made unreadable"""

    state_index = 0
    blocks_movement = False
    blocks_vision = False
    holdable = False
    broken = False

    @property
    def color(self):
        if Moody.broken:
            raise RuntimeError('no color today')
        return Color.NONE

    @classmethod
    def can_be_represented_in_state(cls):
        return True

    @classmethod
    def num_states(cls):
        return 1


def outcome(function, *args):
    try:
        return ('ok', function(*args))
    except Exception as error:  # pylint: disable=broad-except
        return ('raise', type(error))


def test_evaluation_order():
    """which parts of a state are looked at, and when"""
    shape = Shape(2, 3)
    grid = Grid.from_shape(shape)
    grid[1, 2] = Moody()

    without = StateSpace(shape, [Floor], [])
    including = StateSpace(shape, [Floor, Moody], [])
    state = State(grid, Agent(Position(0, 0), Orientation.F))

    check(outcome(without.contains, state) == ('ok', False))
    check(outcome(including.contains, state) == ('ok', True))
    Moody.broken = True
    try:
        # types are checked before colours:  colours are never read here
        check(outcome(without.contains, state) == ('ok', False))
        # declared type:  the colour is read and the error surfaces
        check(outcome(including.contains, state) == ('raise', RuntimeError))
        # wrong shape:  nothing else is looked at
        check(
            outcome(StateSpace(Shape(3, 2), [Floor, Moody], []).contains, state)
            == ('ok', False)
        )
        # observation spaces evaluate every criterion
        space = ObservationSpace(Shape(2, 3), [Floor], [])
        observation = Observation(grid, Agent(Position(1, 1), Orientation.F))
        check(outcome(space.contains, observation) == ('raise', RuntimeError))
    finally:
        Moody.broken = False

    # the agent is looked at only once the grid conforms
    check(outcome(without.contains, State(grid, None)) == ('ok', False))
    check(
        outcome(including.contains, State(grid, None))
        == ('raise', AttributeError)
    )
    check(
        outcome(
            StateSpace(shape, [Floor], []).contains,
            State(Grid.from_shape((2, 3)), None),
        )
        == ('raise', AttributeError)
    )
    blue = Grid.from_shape((2, 3))
    blue[0, 2] = Key(Color.BLUE)
    check(
        outcome(StateSpace(shape, [Floor, Key], []).contains, State(blue, None))
        == ('ok', False)
    )

    # only `shape` many columns of the rows are part of the grid
    ragged = Grid([[Floor()], [Floor(), Key(Color.BLUE)]])
    check(ragged.shape == Shape(2, 1))
    state = State(ragged, Agent(Position(1, 0), Orientation.F))
    check(outcome(StateSpace(Shape(2, 1), [Floor], []).contains, state) == ('ok', True))
    short = Grid([[Floor(), Floor()], [Floor()]])
    state = State(short, Agent(Position(0, 0), Orientation.F))
    check(
        outcome(StateSpace(Shape(2, 2), [Floor], []).contains, state)
        == ('raise', IndexError)
    )


# --------------------------------------------------------------------------
# 2. ObservationSpace.contains
# --------------------------------------------------------------------------


def test_observation_space():
    gen = np.random.default_rng(12)
    for shape in [(2, 2), (3, 4), (1, 6), (4, 0 + 2)]:
        try:
            ObservationSpace(Shape(*shape), [Floor], [])
        except ValueError:
            pass
        else:
            raise AssertionError('even width accepted')

    odd_shapes = [s for s in SHAPES if s[1] % 2 == 1]
    for shape, (object_types, colors) in itt.product(
        odd_shapes, SPACE_PARAMETERS
    ):
        height, width = shape
        space = ObservationSpace(Shape(*shape), object_types, colors)
        check(space.colors == set(colors) | {Color.NONE})
        declared_colors = sorted(space.colors, key=lambda c: c.value)
        reference = partial(
            ref_observation_contains,
            Shape(*shape),
            list(object_types),
            list(colors),
        )

        def verdict(observation):
            before = snapshot(observation.grid)
            for _ in range(2):
                agreed(
                    space.contains(observation),
                    reference(observation),
                    shape,
                    colors,
                )
            check(snapshot(observation.grid) == before)

        for _ in range(4):
            grid = random_grid(
                gen, shape, list(object_types) + [Hidden], declared_colors
            )
            conforming = Observation(
                grid, Agent(space.agent_position, Orientation.F)
            )
            verdict(conforming)
            check(space.contains(conforming) is True)

            for y, x in [(0, 0), (height - 1, width - 1), (-1, 0), (height, 0),
                         (0, -1), (0, width), (width, height)]:
                verdict(Observation(grid, Agent(Position(y, x), Orientation.F)))

            for held_type, color in itt.product(
                ALL_TYPES + [NoneGridObject, Hidden], COLORS
            ):
                held = make_object(held_type, color, gen)
                verdict(
                    Observation(
                        grid, Agent(space.agent_position, Orientation.F, held)
                    )
                )

            for y, x in {(0, 0), (0, width - 1), (height - 1, 0),
                         (height - 1, width - 1),
                         (int(gen.integers(height)), int(gen.integers(width)))}:
                for cell_type, color in itt.product(ALL_TYPES + [Hidden], COLORS):
                    tampered = Grid([list(row) for row in grid.objects])
                    tampered[y, x] = make_object(cell_type, color, gen)
                    verdict(
                        Observation(
                            tampered, Agent(space.agent_position, Orientation.F)
                        )
                    )

            wild = random_grid(gen, shape, ALL_TYPES + [Hidden], COLORS)
            verdict(Observation(wild, Agent(space.agent_position, Orientation.F)))

        for other in [(width, height), (height + 1, width), (height, width + 2)]:
            grid = random_grid(gen, other, list(object_types), declared_colors)
            verdict(Observation(grid, Agent(space.agent_position, Orientation.F)))


# --------------------------------------------------------------------------
# 3. Grid.colors itself (only with the commit applied)
# --------------------------------------------------------------------------


def test_grid_colors():
    if not hasattr(Grid, 'colors'):
        return False

    gen = np.random.default_rng(13)
    for shape in SHAPES:
        for colors in [[Color.NONE], [Color.RED], COLORS, [Color.BLUE, Color.GREEN]]:
            grid = random_grid(gen, shape, ALL_TYPES, colors)
            before = snapshot(grid)
            expected = {obj.color for obj in cells_of(grid)}
            result = grid.colors()
            check(type(result) is set)
            check(result == expected)
            check(all(isinstance(color, Color) for color in result))
            # fresh set on every call:  callers may modify what they get
            result.clear()
            result.add('garbage')
            again = grid.colors()
            check(again is not result and again == expected)
            check(snapshot(grid) == before)
            # follows later modifications of the grid (nothing is cached)
            grid[shape[0] - 1, shape[1] - 1] = Key(Color.YELLOW)
            check(grid.colors() == {obj.color for obj in cells_of(grid)})
            check(Color.YELLOW in grid.colors())
            grid[shape[0] - 1, shape[1] - 1] = Floor()
            check(grid.colors() == {obj.color for obj in cells_of(grid)})
            # derived grids
            for orientation in Orientation:
                check((grid * orientation).colors() == grid.colors())
            outside = grid.subgrid(Area((-2, -1), (-2, -1)))
            check(outside.colors() == {Color.NONE})
    check(Grid.from_shape((3, 4)).colors() == {Color.NONE})
    check(Grid.from_shape(Shape(1, 1), factory=lambda: Key(Color.RED)).colors() == {Color.RED})
    return True


# --------------------------------------------------------------------------
# 4. environments:  every reachable state / observation is in its space
# --------------------------------------------------------------------------


def make_env(kind, shape):
    if kind == 'keydoor':
        object_types = [Wall, Floor, Exit, Door, Key]
        colors = [Color.NONE, Color.YELLOW]
        reset = partial(reset_fs.keydoor, shape)
        transitions = [
            transition_fs.move_agent,
            transition_fs.turn_agent,
            transition_fs.actuate_door,
            transition_fs.pickndrop,
        ]
        terminations = [terminating_fs.reach_exit]
        rewards = [
            partial(reward_fs.reach_exit, reward_on=5.0, reward_off=0.0),
            partial(reward_fs.pickndrop, object_type=Key, reward_pick=1.0,
                    reward_drop=-1.0),
            partial(reward_fs.actuate_door, reward_open=1.0, reward_close=-1.0),
            partial(reward_fs.living_reward, reward=-0.05),
        ]
        actions = list(Action)
    elif kind == 'memory':
        object_types = [Wall, Floor, Exit, Beacon]
        colors = [Color.NONE, Color.RED, Color.GREEN, Color.BLUE]
        reset = partial(
            reset_fs.memory, shape, {Color.RED, Color.GREEN, Color.BLUE}
        )
        transitions = [transition_fs.move_agent, transition_fs.turn_agent]
        terminations = [terminating_fs.reach_exit]
        rewards = [
            partial(reward_fs.reach_exit_memory, reward_good=5.0, reward_bad=-5.0),
            partial(reward_fs.living_reward, reward=-0.05),
        ]
        actions = list(Action)[:6]
    elif kind == 'teleport':
        object_types = [Wall, Floor, Exit, Telepod]
        colors = [Color.RED]
        reset = partial(reset_fs.teleport, shape)
        transitions = [
            transition_fs.move_agent,
            transition_fs.turn_agent,
            transition_fs.teleport,
        ]
        terminations = [terminating_fs.reach_exit]
        rewards = [partial(reward_fs.living_reward, reward=-0.05)]
        actions = list(Action)[:6]
    else:
        raise AssertionError(kind)

    observation_area = Area((-4, 0), (-2, 2))
    env = GridWorld(
        StateSpace(shape, object_types, colors),
        ActionSpace(actions),
        ObservationSpace(Shape(5, 5), object_types, colors),
        reset,
        partial(transition_fs.chain, transition_functions=transitions),
        partial(observation_fs.partially_occluded, area=observation_area),
        partial(reward_fs.reduce_sum, reward_functions=rewards),
        partial(terminating_fs.reduce_any, terminating_functions=terminations),
    )
    return env, object_types, colors


ENV_SPECS = [
    ('keydoor', Shape(7, 7)),
    ('keydoor', Shape(4, 9)),
    ('keydoor', Shape(8, 6)),
    ('memory', Shape(5, 5)),
    ('memory', Shape(9, 7)),
    ('memory', Shape(6, 11)),
    ('teleport', Shape(5, 5)),
    ('teleport', Shape(4, 8)),
    ('teleport', Shape(9, 4)),
]


def test_environments():
    check(reset_gv_debug(True) is True and gv_debug() is True)
    policy = np.random.default_rng(14)
    for kind, shape in ENV_SPECS:
        env, object_types, colors = make_env(kind, shape)
        twin, _, _ = make_env(kind, shape)  # second environment, same process
        state_reference = partial(
            ref_state_contains, shape, object_types, colors
        )
        observation_reference = partial(
            ref_observation_contains, Shape(5, 5), object_types, colors
        )
        for seed in range(5):
            env.set_seed(seed)
            twin.set_seed(seed)
            env.reset()
            twin.reset()
            for step in range(50):
                state, observation = env.state, env.observation
                agreed(env.state_space.contains(state), state_reference(state))
                agreed(
                    env.observation_space.contains(observation),
                    observation_reference(observation),
                )
                check(env.state_space.contains(state))
                check(env.observation_space.contains(observation))
                check(twin.state_space.contains(state))
                check(twin.observation_space.contains(twin.observation))

                action = env.action_space.int_to_action(
                    int(policy.integers(env.action_space.num_actions))
                )
                reward, terminal = env.step(action)
                check((reward, terminal) == twin.step(action))
                check(isinstance(reward, float) and math.isfinite(reward))
                check(isinstance(terminal, bool))
                check(env.state.grid.shape == shape)

                if step % 10 == 0:
                    # a state that left the state space is refused by the
                    # (debugging) environment
                    foreign = State(
                        Grid([list(row) for row in env.state.grid.objects]),
                        Agent(
                            env.state.agent.position,
                            env.state.agent.orientation,
                        ),
                    )
                    foreign.grid[0, shape.width - 1] = Exit(Color.YELLOW if kind != 'keydoor' else Color.BLUE)
                    agreed(
                        env.state_space.contains(foreign),
                        state_reference(foreign),
                    )
                    check(not env.state_space.contains(foreign))
                    check(
                        outcome(env.functional_step, foreign, action)
                        == ('raise', ValueError)
                    )
                    foreign.grid[0, shape.width - 1] = Wall()
                    check(env.state_space.contains(foreign))
                    check(outcome(env.functional_step, foreign, action)[0] == 'ok')

                if terminal:
                    env.reset()
                    twin.reset()
    reset_gv_debug(None)


def main():
    test_state_space()
    test_evaluation_order()
    test_observation_space()
    have_method = test_grid_colors()
    test_environments()
    # both verdicts were exercised plenty
    check(OUTCOMES[True] > 10000 and OUTCOMES[False] > 10000, OUTCOMES)
    print(
        f'OK ({CHECKS} checks, verdicts {OUTCOMES}, '
        f'Grid.colors {"present" if have_method else "absent"})'
    )


if __name__ == '__main__':
    main()
