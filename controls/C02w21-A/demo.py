"""C02 demo (change A): optional draws of move_obstacles / teleport.

Exits 0 on the pristine tree and with the patch applied.  Checks

1. the library's ``move_obstacles`` and ``teleport`` transition functions
   against reference implementations embedded here (the pre-refactoring
   spelling): same resulting state AND same generator state afterwards (same
   number of draws, none when there is no candidate), on random and on
   hand-made awkward states;
2. env-level reproducibility of seeded GridWorlds (same seed -> same
   trajectory, alone / interleaved / re-seeded / across PYTHONHASHSEED), and
   isolation from the library-level generator, ``numpy.random`` and ``random``.
"""
import hashlib
import os
import random
import subprocess
import sys
from functools import partial

sys.path.insert(0, os.getcwd())

import numpy as np
import numpy.random as rnd

import gym_gridverse.rng as gv_rng
from gym_gridverse.action import Action
from gym_gridverse.agent import Agent
from gym_gridverse.envs import observation_functions as observation_fs
from gym_gridverse.envs import reset_functions as reset_fs
from gym_gridverse.envs import reward_functions as reward_fs
from gym_gridverse.envs import terminating_functions as terminating_fs
from gym_gridverse.envs import transition_functions as transition_fs
from gym_gridverse.envs.gridworld import GridWorld
from gym_gridverse.geometry import (
    Area,
    Orientation,
    Position,
    Shape,
    get_manhattan_boundary,
)
from gym_gridverse.grid import Grid
from gym_gridverse.grid_object import (
    Color,
    Exit,
    Floor,
    MovingObstacle,
    Telepod,
    Wall,
)
from gym_gridverse.spaces import ActionSpace, ObservationSpace, StateSpace
from gym_gridverse.state import State

# ---------------------------------------------------------------- utilities


def obj_key(obj):
    return (type(obj).__name__, int(obj.state_index), obj.color.name)


def state_key(state):
    grid = tuple(
        obj_key(state.grid[Position(y, x)])
        for y in range(state.grid.shape.height)
        for x in range(state.grid.shape.width)
    )
    agent = (
        state.agent.position.y,
        state.agent.position.x,
        state.agent.orientation.name,
        obj_key(state.agent.grid_object),
    )
    return (state.grid.shape.height, state.grid.shape.width, grid, agent)


def rng_key(rng):
    s = rng.bit_generator.state
    return repr(s)


# ------------------------------------------- reference (old) implementations


def ref_move_obstacles(state, action, *, rng):
    positions = [
        position
        for position in state.grid.area.positions()
        if isinstance(state.grid[position], MovingObstacle)
    ]
    for position in positions:
        next_positions = [
            next_position
            for next_position in get_manhattan_boundary(position, distance=1)
            if state.grid.area.contains(next_position)
            and isinstance(state.grid[next_position], Floor)
        ]
        try:
            i = rng.choice(len(next_positions))
        except ValueError:
            pass
        else:
            next_position = next_positions[i]
            state.grid.swap(position, next_position)


def ref_teleport(state, action, *, rng):
    telepod = state.grid[state.agent.position]
    if isinstance(telepod, Telepod):
        positions = [
            position
            for position in state.grid.area.positions()
            if position != state.agent.position
            and isinstance(state.grid[position], Telepod)
            and state.grid[position].color == telepod.color
        ]
        try:
            i = rng.choice(len(positions))
        except ValueError:
            pass
        else:
            state.agent.position = positions[i]


# ------------------------------------------------------------ random states


def random_state(gen: random.Random, height, width):
    def make():
        r = gen.random()
        if r < 0.35:
            return MovingObstacle()
        if r < 0.50:
            return Wall()
        if r < 0.62:
            return Telepod(gen.choice([Color.RED, Color.BLUE, Color.NONE]))
        return Floor()

    objects = [[make() for _ in range(width)] for _ in range(height)]
    agent = Agent(
        Position(gen.randrange(height), gen.randrange(width)),
        gen.choice(list(Orientation)),
    )
    return objects, agent


def clone(objects, agent):
    import copy

    return State(
        Grid(copy.deepcopy(objects)),
        Agent(agent.position, agent.orientation, agent.grid_object),
    )


def check_against_reference(objects, agent, seed, steps=4):
    s_lib, s_ref = clone(objects, agent), clone(objects, agent)
    r_lib, r_ref = rnd.default_rng(seed), rnd.default_rng(seed)
    assert state_key(s_lib) == state_key(s_ref)
    for _ in range(steps):
        for action in (Action.MOVE_FORWARD, Action.ACTUATE):
            transition_fs.move_obstacles(s_lib, action, rng=r_lib)
            ref_move_obstacles(s_ref, action, rng=r_ref)
            assert state_key(s_lib) == state_key(s_ref)
            assert rng_key(r_lib) == rng_key(r_ref)
            transition_fs.teleport(s_lib, action, rng=r_lib)
            ref_teleport(s_ref, action, rng=r_ref)
            assert state_key(s_lib) == state_key(s_ref)
            assert rng_key(r_lib) == rng_key(r_ref)


def test_reference_equivalence():
    gen = random.Random(20260927)
    shapes = [(1, 1), (1, 5), (5, 1), (2, 3), (3, 2), (4, 7), (7, 4), (6, 6)]
    n = 0
    for height, width in shapes:
        for _ in range(25):
            objects, agent = random_state(gen, height, width)
            check_against_reference(objects, agent, gen.randrange(2 ** 32))
            n += 1

    # hand-made awkward cases
    # (a) every cell a moving obstacle: no candidate anywhere, no draw at all
    objects = [[MovingObstacle() for _ in range(4)] for _ in range(3)]
    agent = Agent(Position(0, 0), Orientation.F)
    state = clone(objects, agent)
    rng = rnd.default_rng(5)
    before_rng, before = rng_key(rng), state_key(state)
    transition_fs.move_obstacles(state, Action.TURN_LEFT, rng=rng)
    assert rng_key(rng) == before_rng and state_key(state) == before

    # (b) obstacle in each corner of a wall-less non-square grid
    objects = [[Floor() for _ in range(5)] for _ in range(3)]
    for y, x in [(0, 0), (0, 4), (2, 0), (2, 4)]:
        objects[y][x] = MovingObstacle()
    for seed in range(20):
        check_against_reference(objects, agent, seed)

    # (c) lone telepod / telepod whose only peers have another colour
    for others in ([], [Color.BLUE], [Color.NONE, Color.BLUE]):
        objects = [[Floor() for _ in range(4)] for _ in range(2)]
        objects[0][0] = Telepod(Color.RED)
        for i, color in enumerate(others):
            objects[1][i + 1] = Telepod(color)
        agent = Agent(Position(0, 0), Orientation.R)
        state = clone(objects, agent)
        rng = rnd.default_rng(9)
        before_rng, before = rng_key(rng), state_key(state)
        transition_fs.teleport(state, Action.MOVE_FORWARD, rng=rng)
        assert rng_key(rng) == before_rng and state_key(state) == before

    # (d) colour NONE telepods pair with each other;  target at Position(0, 0)
    objects = [[Floor() for _ in range(3)] for _ in range(2)]
    objects[0][0] = Telepod(Color.NONE)
    objects[1][2] = Telepod(Color.NONE)
    agent = Agent(Position(1, 2), Orientation.B)
    state = clone(objects, agent)
    transition_fs.teleport(state, Action.MOVE_FORWARD, rng=rnd.default_rng(0))
    assert state.agent.position == Position(0, 0)
    for seed in range(10):
        check_against_reference(objects, agent, seed)

    # (e) obstacle whose only free neighbour is Position(0, 0)
    objects = [[Floor(), MovingObstacle()], [Wall(), Wall()]]
    agent = Agent(Position(1, 0), Orientation.F)
    state = clone(objects, agent)
    transition_fs.move_obstacles(
        state, Action.MOVE_FORWARD, rng=rnd.default_rng(0)
    )
    assert isinstance(state.grid[Position(0, 0)], MovingObstacle)
    assert isinstance(state.grid[Position(0, 1)], Floor)
    return n


# ------------------------------------------------------------- environments


def make_env(kind, shape, area):
    if kind == 'dynamic_obstacles':
        reset = partial(
            reset_fs.dynamic_obstacles,
            shape,
            num_obstacles=5,
            random_agent=True,
        )
        object_types = [Floor, Wall, Exit, MovingObstacle]
        colors = [Color.NONE]
    else:
        reset = partial(reset_fs.teleport, shape)
        object_types = [Floor, Wall, Exit, Telepod]
        colors = [Color.NONE, Color.RED]

    transition = partial(
        transition_fs.chain,
        transition_functions=[
            transition_fs.turn_agent,
            transition_fs.move_agent,
            transition_fs.move_obstacles,
            transition_fs.teleport,
        ],
    )
    reward = partial(
        reward_fs.reduce_sum,
        reward_functions=[
            partial(reward_fs.living_reward, reward=-0.1),
            partial(reward_fs.bump_moving_obstacle, reward=-1.0),
            partial(reward_fs.reach_exit, reward_on=5.0, reward_off=0.0),
        ],
    )
    terminating = partial(
        terminating_fs.reduce_any,
        terminating_functions=[
            terminating_fs.reach_exit,
            terminating_fs.bump_moving_obstacle,
        ],
    )
    # asymmetric / agent-not-at-the-bottom areas use the stochastic observation
    # (which draws from the environment's generator, interleaved with the
    # transition draws)
    observation = partial(
        observation_fs.partially_occluded
        if area.ymax == 0 and area.xmin == -area.xmax
        else observation_fs.stochastic_raytracing,
        area=area,
    )

    return GridWorld(
        StateSpace(shape, object_types, colors),
        ActionSpace(list(Action)),
        ObservationSpace(Shape(area.height, area.width), object_types, colors),
        reset,
        transition,
        observation,
        reward,
        terminating,
    )


CONFIGS = [
    ('dynamic_obstacles', Shape(7, 9), Area((-4, 0), (-2, 2))),
    ('dynamic_obstacles', Shape(9, 6), Area((-2, 1), (-1, 3))),
    ('teleport', Shape(6, 8), Area((-3, 0), (-1, 1))),
    ('dynamic_obstacles', Shape(5, 5), Area((-1, 1), (-3, 1))),
    ('teleport', Shape(8, 5), Area((-6, 0), (-3, 3))),
]


def actions_for(seed, n):
    gen = random.Random(seed)
    return [gen.choice(list(Action)) for _ in range(n)]


def step_record(env, action):
    reward, done = env.step(action)
    rec = (
        state_key(env.state),
        state_key(env.observation),
        float(reward),
        bool(done),
    )
    if done:
        env.reset()
        rec += (state_key(env.state), state_key(env.observation))
    return rec


def start(env, seed):
    env.set_seed(seed)
    env.reset()
    return (state_key(env.state), state_key(env.observation))


def rollout(env, seed, actions):
    return [start(env, seed)] + [step_record(env, a) for a in actions]


def global_sources_key():
    return (
        rng_key(gv_rng.get_gv_rng()),
        repr(np.random.get_state()),
        repr(random.getstate()),
    )


def test_envs():
    digest = hashlib.sha256()
    gv_rng.reset_gv_rng(1234)
    np.random.seed(99)
    random.seed(77)
    envs = {i: [make_env(*c) for _ in range(3)] for i, c in enumerate(CONFIGS)}
    # NOTE: constructing envs draws nothing, but pin the globals from here on
    gv_rng.reset_gv_rng(1234)
    globals_before = global_sources_key()

    for i, config in enumerate(CONFIGS):
        a, b, c = envs[i]
        for seed in (0, 1, 7, 2 ** 32 - 1):
            actions = actions_for(seed + i, 60)
            other_actions = actions_for(seed + i + 1000, 60)
            # alone
            t_a = rollout(a, seed, actions)
            # interleaved with another env of another seed
            t_b = [start(b, seed)]
            start(c, seed + 1)
            for action, other in zip(actions, other_actions):
                step_record(c, other)
                t_b.append(step_record(b, action))
                step_record(c, other)
                c.observation
            assert t_a == t_b, (config, seed)
            # re-seeding the same env object
            assert rollout(a, seed, actions) == t_a
            # a different seed gives (here) a different trajectory
            digest.update(repr(t_a).encode())

    assert global_sources_key() == globals_before, 'global rng perturbed'
    return digest.hexdigest()


EXPECTED_DIGEST_PREFIX = '354150f4a6b4fa29'  # same before and after the patch


def main():
    if len(sys.argv) > 1 and sys.argv[1] == '--digest':
        print(test_envs())
        return

    n = test_reference_equivalence()
    here = test_envs()
    digests = set()
    for hashseed in ('0', '4242'):
        out = subprocess.run(
            [sys.executable, os.path.abspath(__file__), '--digest'],
            env={**os.environ, 'PYTHONHASHSEED': hashseed},
            cwd=os.getcwd(),
            check=True,
            capture_output=True,
            text=True,
        )
        digests.add(out.stdout.strip().splitlines()[-1])
    assert digests == {here}, (digests, here)
    assert here.startswith(EXPECTED_DIGEST_PREFIX), here
    debug = subprocess.run(
        [sys.executable, '-O', os.path.abspath(__file__), '--digest'],
        cwd=os.getcwd(),
        check=True,
        capture_output=True,
        text=True,
    )
    assert debug.stdout.strip().splitlines()[-1] == here
    print(f'OK: {n} random states vs reference; env digest {here[:16]}')


if __name__ == '__main__':
    main()
