"""Demo for change B (restructured ``envs/terminating_functions.py``).

Runs on the pristine tree and on the patched tree alike;  exits 0 when

1. ``TerminatingFunctionRegistry.check_signature`` / ``register`` raise and
   warn exactly like the reference implementation embedded here (the
   pre-change spelling) on well-formed and malformed signatures, with a few
   hard-coded texts;  ``factory`` accepts / rejects / filters keyword
   arguments as expected for every built-in function and for a custom one
   with optional parameters;  the reductions evaluate their parts lazily, in
   order, with the same arguments (empty lists included);  ``overlap`` and
   friends return genuine booleans;
2. ``bump_into_wall`` (and ``move_agent``, the reward twin) behave as
   expected on hand-built states with the agent on every border cell facing
   every way, walls ahead or not, and standing on a wall;
3. closure and totality (property C01) hold on random walks through
   environments assembled from the built-in components, and on hand-built
   awkward states (non-square grids without a wall boundary, held items,
   unpaired telepods), with a fixed digest of the deterministic trajectories.
"""
import hashlib
import inspect
import itertools as itt
import math
import os
import sys
import warnings
from functools import partial
from typing import Optional

import numpy as np
import numpy.random as rnd

# run from the worktree root:  make `import gym_gridverse` pick up that tree
sys.path.insert(0, os.getcwd())

from gym_gridverse.action import Action
from gym_gridverse.agent import Agent
from gym_gridverse.envs import observation_functions as observation_fs
from gym_gridverse.envs import reset_functions as reset_fs
from gym_gridverse.envs import reward_functions as reward_fs
from gym_gridverse.envs import terminating_functions as terminating_fs
from gym_gridverse.envs import transition_functions as transition_fs
from gym_gridverse.envs.gridworld import GridWorld
from gym_gridverse.envs.utils import get_next_position
from gym_gridverse.geometry import Area, Orientation, Position, Shape
from gym_gridverse.grid import Grid
from gym_gridverse.grid_object import (
    Beacon,
    Box,
    Color,
    Door,
    Exit,
    Floor,
    Key,
    MovingObstacle,
    NoneGridObject,
    Telepod,
    Wall,
)
from gym_gridverse.spaces import ActionSpace, ObservationSpace, StateSpace
from gym_gridverse.state import State
from gym_gridverse.utils.fast_copy import fast_copy

CHECKS = 0


def check(condition, message):
    global CHECKS
    CHECKS += 1
    if not condition:
        print(f'FAIL: {message}')
        sys.exit(1)


# --------------------------------------------------------------------------
# 1. registry signature checks, factory, reductions
# --------------------------------------------------------------------------


def reference_check_signature(registry, function):
    """the pre-change spelling of `check_signature`, copied verbatim"""
    signature = inspect.signature(function)
    state, action, next_state, rng = registry.get_protocol_parameters(signature)

    if state.kind not in [
        inspect.Parameter.POSITIONAL_OR_KEYWORD,
        inspect.Parameter.POSITIONAL_ONLY,
    ]:
        raise TypeError(
            f'The first argument ({state.name}) '
            f'of a registered terminating function ({function}) '
            'should be allowed to be a positional argument.'
        )

    if action.kind not in [
        inspect.Parameter.POSITIONAL_OR_KEYWORD,
        inspect.Parameter.POSITIONAL_ONLY,
    ]:
        raise TypeError(
            f'The second argument ({action.name}) '
            f'of a registered terminating function ({function}) '
            'should be allowed to be a positional argument.'
        )

    if next_state.kind not in [
        inspect.Parameter.POSITIONAL_OR_KEYWORD,
        inspect.Parameter.POSITIONAL_ONLY,
    ]:
        raise TypeError(
            f'The third argument ({next_state.name}) '
            f'of a registered terminating function ({function}) '
            'should be allowed to be a positional argument.'
        )

    if rng.kind not in [
        inspect.Parameter.POSITIONAL_OR_KEYWORD,
        inspect.Parameter.KEYWORD_ONLY,
    ]:
        raise TypeError(
            f'The `rng` argument ({rng.name}) '
            f'of a registered reward function ({function}) '
            'should be allowed to be a keyword argument.'
        )

    if state.annotation not in [inspect.Parameter.empty, State]:
        warnings.warn(
            f'The first argument ({state.name}) '
            f'of a registered terminating function ({function}) '
            f'has an annotation ({state.annotation}) '
            'which is not `State`.'
        )

    if action.annotation not in [inspect.Parameter.empty, Action]:
        warnings.warn(
            f'The second argument ({action.name}) '
            f'of a registered terminating function ({function}) '
            f'has an annotation ({action.annotation}) '
            'which is not `Action`.'
        )

    if next_state.annotation not in [inspect.Parameter.empty, State]:
        warnings.warn(
            f'The third argument ({next_state.name}) '
            f'of a registered terminating function ({function}) '
            f'has an annotation ({next_state.annotation}) '
            'which is not `State`.'
        )

    if rng.annotation not in [
        inspect.Parameter.empty,
        Optional[rnd.Generator],
    ]:
        warnings.warn(
            f'The `rng` argument ({rng.name}) '
            f'of a registered reward function ({function}) '
            f'has an annotation ({rng.annotation}) '
            'which is not `Optional[rnd.Generator]`.'
        )

    if signature.return_annotation not in [inspect.Parameter.empty, bool]:
        warnings.warn(
            f'The return type of a registered terminating function ({function}) '
            f'has an annotation ({signature.return_annotation}) '
            'which is not `bool`.'
        )


def outcome(call):
    """(exception type, exception text, texts of the warnings in order)"""
    with warnings.catch_warnings(record=True) as caught:
        warnings.simplefilter('always')
        try:
            call()
        except Exception as error:  # pylint: disable=broad-except
            result = (type(error), str(error))
        else:
            result = (None, None)
    return result + (
        [(w.category, str(w.message)) for w in caught],
    )


def signature_samples():
    def good(state, action, next_state, *, rng=None):
        return False

    def good_annotated(
        state: State,
        action: Action,
        next_state: State,
        *,
        rng: Optional[rnd.Generator] = None,
    ) -> bool:
        return False

    def good_extra(state, action, next_state, *, a, b=2, rng=None):
        return False

    def all_positional(state, action, next_state, rng=None):
        return False

    def positional_only(state, action, next_state, /, *, rng=None):
        return False

    def kw_first(*, state, action, next_state, rng=None):
        return False

    def kw_second(state, *, action, next_state, rng=None):
        return False

    def kw_third(state, action, *, next_state, rng=None):
        return False

    def var_first(*state, action, next_state, rng=None):
        return False

    def rng_positional_only(state, action, next_state, rng=None, /):
        return False

    def kw_first_and_bad_rng(*state, action, next_state, **rng):
        return False

    def no_rng(state, action, next_state):
        return False

    def too_few(*args, rng=None):
        return False

    def no_parameters():
        return False

    def bad_annotations(
        state: int, action: str, next_state: float, *, rng: int = 0
    ) -> int:
        return 0

    def some_bad_annotations(
        state: State, action: int, next_state, *, rng: rnd.Generator = None
    ) -> bool:
        return False

    def bad_return_only(state, action, next_state, *, rng=None) -> float:
        return 0.0

    def string_annotations(
        state: 'State', action: 'Action', next_state: 'State', *, rng=None
    ) -> 'bool':
        return False

    def bad_kind_and_annotation(
        state: int, *, action: int, next_state: int, rng: int = 0
    ) -> int:
        return 0

    samples = [
        good,
        good_annotated,
        good_extra,
        all_positional,
        positional_only,
        kw_first,
        kw_second,
        kw_third,
        var_first,
        rng_positional_only,
        kw_first_and_bad_rng,
        no_rng,
        too_few,
        no_parameters,
        bad_annotations,
        some_bad_annotations,
        bad_return_only,
        string_annotations,
        bad_kind_and_annotation,
        lambda s, a, n, *, rng=None: True,
        partial(good_extra, a=1),
    ]
    return samples


# hard-coded expectations (exception type, number of warnings) per sample
EXPECTED_SIGNATURE_OUTCOMES = {
    'good': (None, 0),
    'good_annotated': (None, 0),
    'good_extra': (None, 0),
    'all_positional': (None, 0),
    'positional_only': (None, 0),
    'kw_first': (TypeError, 0),
    'kw_second': (TypeError, 0),
    'kw_third': (TypeError, 0),
    'var_first': (TypeError, 0),
    'rng_positional_only': (TypeError, 0),
    'kw_first_and_bad_rng': (TypeError, 0),
    'no_rng': (TypeError, 0),
    'too_few': (ValueError, 0),
    'no_parameters': (ValueError, 0),
    'bad_annotations': (None, 5),
    'some_bad_annotations': (None, 2),
    'bad_return_only': (None, 1),
    'string_annotations': (None, 4),
    'bad_kind_and_annotation': (TypeError, 0),
    '<lambda>': (None, 0),
    'partial': (None, 0),
}


def check_signatures():
    registry_type = terminating_fs.TerminatingFunctionRegistry
    for function in signature_samples():
        name = getattr(function, '__name__', 'partial')
        registry = registry_type()
        expected = outcome(
            lambda: reference_check_signature(registry, function)
        )
        result = outcome(lambda: registry.check_signature(function))
        check(
            result == expected,
            f'check_signature({name}): {result} != {expected}',
        )
        error_type, n_warnings = EXPECTED_SIGNATURE_OUTCOMES[name]
        check(
            result[0] is error_type and len(result[2]) == n_warnings,
            f'check_signature({name}): unexpected outcome {result}',
        )

        # registration goes through the same checks, and is all-or-nothing
        registry = registry_type()
        result = outcome(lambda: registry.register(function, name='sample'))
        check(result == expected, f'register({name}): {result}')
        check(
            ('sample' in registry) is (error_type is None),
            f'register({name}): registry content',
        )

    # specific texts
    def kw_second(state, *, action, next_state, rng=None):
        return False

    registry = registry_type()
    result = outcome(lambda: registry.check_signature(kw_second))
    check(
        result
        == (
            TypeError,
            'The second argument (action) '
            f'of a registered terminating function ({kw_second}) '
            'should be allowed to be a positional argument.',
            [],
        ),
        f'text for kw_second: {result}',
    )

    def bad(state: int, action, next_state: str, *, rng=None) -> bool:
        return False

    result = outcome(lambda: registry.check_signature(bad))
    check(
        result
        == (
            None,
            None,
            [
                (
                    UserWarning,
                    'The first argument (state) '
                    f'of a registered terminating function ({bad}) '
                    f"has an annotation ({int}) "
                    'which is not `State`.',
                ),
                (
                    UserWarning,
                    'The third argument (next_state) '
                    f'of a registered terminating function ({bad}) '
                    f"has an annotation ({str}) "
                    'which is not `State`.',
                ),
            ],
        ),
        f'text for bad: {result}',
    )

    # the shipped registry still holds exactly the built-in functions
    check(
        sorted(terminating_fs.terminating_function_registry.keys())
        == [
            'bump_into_wall',
            'bump_moving_obstacle',
            'overlap',
            'reach_exit',
            'reduce',
            'reduce_all',
            'reduce_any',
        ],
        'registry content',
    )


def check_factory():
    factory = terminating_fs.factory
    registry = terminating_fs.terminating_function_registry

    # expectations: name -> (required, optional)
    expected_keys = {
        'reduce': (['terminating_functions', 'reduction'], []),
        'reduce_any': (['terminating_functions'], []),
        'reduce_all': (['terminating_functions'], []),
        'overlap': (['object_type'], []),
        'reach_exit': ([], []),
        'bump_moving_obstacle': ([], []),
        'bump_into_wall': ([], []),
    }

    def custom(
        state, action, next_state, *, a, b=3, c, d=None, rng=None, **rest
    ):
        return bool(a)

    custom_name = 'demo_custom_terminating_function'
    if custom_name not in registry:
        registry.register(custom, name=custom_name)
    # NOTE: `rest` (var-keyword) has no default, hence counts as required
    expected_keys[custom_name] = (['a', 'c', 'rest'], ['b', 'd'])

    values = {
        'terminating_functions': [],
        'reduction': any,
        'object_type': Exit,
        'a': 1,
        'b': 2,
        'c': 3,
        'd': 4,
        'rest': 5,
    }

    for name, (required, optional) in expected_keys.items():
        function = registry[name]

        # everything given, plus things to be dropped (order is kept)
        kwargs = {'zzz': 0, 'rng': None, 'state': None}
        for key in reversed(required + optional):
            kwargs[key] = values[key]
        kwargs_before = dict(kwargs)
        made = factory(name, **kwargs)
        check(isinstance(made, partial), f'factory({name}) type')
        check(made.func is function, f'factory({name}) function')
        check(made.args == (), f'factory({name}) args')
        expected_kwargs = {
            key: values[key] for key in reversed(required + optional)
        }
        check(
            made.keywords == expected_kwargs
            and list(made.keywords) == list(expected_kwargs),
            f'factory({name}) keywords {made.keywords}',
        )
        check(kwargs == kwargs_before, f'factory({name}) mutated kwargs')

        # only the required ones
        made = factory(name, **{key: values[key] for key in required})
        check(
            made.keywords == {key: values[key] for key in required},
            f'factory({name}) required only',
        )

        # each missing required key is reported;  the first one wins
        for n_given in range(len(required)):
            for given in itt.combinations(required, n_given):
                missing = [key for key in required if key not in given]
                result = outcome(
                    lambda: factory(
                        name,
                        **{key: values[key] for key in given},
                        **{key: values[key] for key in optional},
                    )
                )
                check(
                    result
                    == (
                        ValueError,
                        f'missing keyword argument `{missing[0]}`',
                        [],
                    ),
                    f'factory({name}) missing {missing}: {result}',
                )

    for bad_name in ['nope', '', 'Reach_exit', 'factory']:
        result = outcome(lambda: factory(bad_name))
        check(
            result
            == (
                ValueError,
                f'invalid terminating function name {bad_name}',
                [],
            ),
            f'factory({bad_name!r}): {result}',
        )

    # two factory products do not share anything
    first = factory('overlap', object_type=Exit)
    second = factory('overlap', object_type=Wall)
    check(
        first.keywords == {'object_type': Exit}
        and second.keywords == {'object_type': Wall},
        'factory products are independent',
    )


class Recorder:
    """a terminating function which records its calls"""

    def __init__(self, log, name, value):
        self.log = log
        self.name = name
        self.value = value

    def __call__(self, state, action, next_state, *, rng=None):
        self.log.append((self.name, state, action, next_state, rng))
        return self.value


def check_reductions():
    state = State(Grid.from_shape((2, 3)), Agent(Position(0, 0), Orientation.F))
    next_state = State(
        Grid.from_shape((2, 3)), Agent(Position(1, 2), Orientation.B)
    )
    action = Action.ACTUATE
    rng = np.random.default_rng(5)

    for n in range(5):
        for values in itt.product([False, True], repeat=n):
            for reduce_name, reduction in [
                ('reduce_any', any),
                ('reduce_all', all),
                ('count2', lambda flags: sum(list(flags)) >= 2),
            ]:
                for use_factory in [False, True]:
                    for rng_ in [None, rng]:
                        log = []
                        functions = [
                            Recorder(log, i, value)
                            for i, value in enumerate(values)
                        ]
                        if reduce_name == 'count2':
                            kwargs = dict(
                                terminating_functions=functions,
                                reduction=reduction,
                            )
                            name = 'reduce'
                        else:
                            kwargs = dict(terminating_functions=functions)
                            name = reduce_name

                        if use_factory:
                            function = terminating_fs.factory(name, **kwargs)
                            result = function(
                                state, action, next_state, rng=rng_
                            )
                        else:
                            function = getattr(terminating_fs, name)
                            result = function(
                                state, action, next_state, rng=rng_, **kwargs
                            )

                        check(
                            result is reduction(iter(values)),
                            f'{reduce_name}{values}: {result!r}',
                        )

                        # parts are evaluated in order, lazily, with the
                        # very same arguments
                        if reduce_name == 'reduce_any':
                            n_calls = (
                                values.index(True) + 1 if True in values else n
                            )
                        elif reduce_name == 'reduce_all':
                            n_calls = (
                                values.index(False) + 1
                                if False in values
                                else n
                            )
                        else:
                            n_calls = n
                        check(
                            [entry[0] for entry in log]
                            == list(range(n_calls)),
                            f'{reduce_name}{values}: evaluated '
                            f'{[entry[0] for entry in log]}',
                        )
                        check(
                            all(
                                entry[1] is state
                                and entry[2] is action
                                and entry[3] is next_state
                                and entry[4] is rng_
                                for entry in log
                            ),
                            f'{reduce_name}{values}: arguments',
                        )

    # nested reductions, as in the shipped dynamic-obstacles configuration
    tf_ = terminating_fs.factory
    nested = tf_(
        'reduce_all',
        terminating_functions=[
            tf_(
                'reduce_any',
                terminating_functions=[
                    tf_('reach_exit'),
                    tf_('bump_moving_obstacle'),
                    tf_('bump_into_wall'),
                ],
            ),
            tf_('reduce_any', terminating_functions=[]),
        ],
    )
    check(nested(state, action, next_state) is False, 'nested reduction')


def check_overlap():
    objects = [
        Floor(),
        Wall(),
        Exit(),
        Exit(Color.RED),
        MovingObstacle(),
        Key(Color.NONE),
        Telepod(Color.BLUE),
        Door(Door.Status.OPEN, Color.RED),
        Box(Floor()),
        Beacon(Color.GREEN),
    ]
    state = State(Grid.from_shape((1, 1)), Agent(Position(0, 0), Orientation.F))
    for obj in objects:
        for height, width in [(1, 1), (2, 3)]:
            for y, x in itt.product(range(height), range(width)):
                grid = Grid.from_shape((height, width))
                grid[y, x] = obj
                for agent_yx in itt.product(range(height), range(width)):
                    next_state = State(
                        grid, Agent(Position(*agent_yx), Orientation.L)
                    )
                    on_object = agent_yx == (y, x)
                    for action in Action:
                        expected = {
                            'reach_exit': on_object and isinstance(obj, Exit),
                            'bump_moving_obstacle': on_object
                            and isinstance(obj, MovingObstacle),
                        }
                        for name, value in expected.items():
                            result = getattr(terminating_fs, name)(
                                state, action, next_state
                            )
                            check(
                                result is value,
                                f'{name} {obj!r} {agent_yx}: {result!r}',
                            )
                        for object_type in [Exit, Wall, Floor, type(obj)]:
                            result = terminating_fs.overlap(
                                state,
                                action,
                                next_state,
                                object_type=object_type,
                            )
                            value = isinstance(
                                grid[Position(*agent_yx)], object_type
                            )
                            check(
                                result is value,
                                f'overlap {object_type} {obj!r}: {result!r}',
                            )


_REFERENCE_MOVE_ORIENTATION = {
    Action.MOVE_FORWARD: Orientation.F,
    Action.MOVE_LEFT: Orientation.L,
    Action.MOVE_RIGHT: Orientation.R,
    Action.MOVE_BACKWARD: Orientation.B,
}


def reference_get_next_position(position, orientation, action):
    """the pre-change spelling, copied verbatim"""
    try:
        move_orientation = _REFERENCE_MOVE_ORIENTATION[action]
    except KeyError:
        return position

    return position + Position.from_orientation(orientation * move_orientation)


ALL_ORIENTATIONS = [
    Orientation.FORWARD,
    Orientation.BACKWARD,
    Orientation.LEFT,
    Orientation.RIGHT,
    Orientation.F,
    Orientation.B,
    Orientation.L,
    Orientation.R,
]


# --------------------------------------------------------------------------
# 2. bump_into_wall and friends on border states
# --------------------------------------------------------------------------


def open_grid(height, width):
    """grid without a wall boundary:  the agent can stand on the very edge"""
    return Grid.from_shape((height, width))


def check_consumers():
    reward_bump = reward_fs.factory('bump_into_wall', reward=-3.0)
    for height, width in [(1, 1), (1, 4), (4, 1), (2, 3), (3, 5), (5, 3)]:
        for y, x in itt.product(range(height), range(width)):
            for orientation in ALL_ORIENTATIONS[:4]:
                for action in Action:
                    for wall_ahead in [False, True]:
                        grid = open_grid(height, width)
                        state = State(
                            grid, Agent(Position(y, x), orientation)
                        )
                        target = reference_get_next_position(
                            Position(y, x), orientation, action
                        )
                        inside = grid.area.contains(target)
                        if wall_ahead and inside and action.is_move():
                            grid[target] = Wall()

                        next_state = fast_copy(state)
                        transition_fs.move_agent(next_state, action)

                        expected_position = (
                            target
                            if action.is_move()
                            and inside
                            and not isinstance(grid[target], Wall)
                            else Position(y, x)
                        )
                        check(
                            next_state.agent.position == expected_position,
                            f'move_agent {height}x{width} {(y, x)} '
                            f'{orientation} {action}',
                        )
                        check(
                            next_state.agent.orientation is orientation,
                            'move_agent changed orientation',
                        )
                        check(
                            next_state.grid == state.grid,
                            'move_agent changed grid',
                        )
                        check(
                            grid.area.contains(next_state.agent.position),
                            'agent left the grid',
                        )

                        bumps = (
                            action.is_move()
                            and inside
                            and isinstance(grid[target], Wall)
                        )
                        terminal = terminating_fs.bump_into_wall(
                            state, action, next_state
                        )
                        check(
                            terminal is bumps,
                            f'terminating bump_into_wall {terminal!r} '
                            f'!= {bumps!r}',
                        )
                        reward = reward_bump(state, action, next_state)
                        check(
                            isinstance(reward, float)
                            and reward == (-3.0 if bumps else 0.0),
                            f'reward bump_into_wall {reward!r}',
                        )

    # agent standing *on* a wall (legal state):  non-move actions leave the
    # tentative position on the agent's own (wall) cell
    grid = open_grid(3, 3)
    grid[1, 1] = Wall()
    state = State(grid, Agent(Position(1, 1), Orientation.L))
    for action in Action:
        expected = not action.is_move()
        check(
            terminating_fs.bump_into_wall(state, action, state) is expected,
            f'agent on wall, {action}',
        )


# --------------------------------------------------------------------------
# 3. closure and totality on assembled environments
# --------------------------------------------------------------------------

ALL_ACTIONS = list(Action)
MOVE_TURN_ACTIONS = [
    Action.MOVE_FORWARD,
    Action.MOVE_BACKWARD,
    Action.MOVE_LEFT,
    Action.MOVE_RIGHT,
    Action.TURN_LEFT,
    Action.TURN_RIGHT,
]


def make_env(
    shape,
    objects,
    colors,
    actions,
    reset,
    transitions,
    rewards,
    observation,
    terminating,
    view=Area((-6, 0), (-3, 3)),
):
    transition_functions = [
        transition_fs.factory(name, **kwargs) for name, kwargs in transitions
    ]
    reward_functions = [
        reward_fs.factory(name, **kwargs) for name, kwargs in rewards
    ]
    reset_name, reset_kwargs = reset
    observation_name, observation_kwargs = observation
    terminating_name, terminating_kwargs = terminating
    return GridWorld(
        StateSpace(shape, objects, colors),
        ActionSpace(actions),
        ObservationSpace(Shape(view.height, view.width), objects, colors),
        reset_fs.factory(reset_name, shape=shape, **reset_kwargs),
        transition_fs.factory(
            'chain', transition_functions=transition_functions
        ),
        observation_fs.factory(
            observation_name, area=view, **observation_kwargs
        ),
        reward_fs.factory('reduce_sum', reward_functions=reward_functions),
        terminating_fs.factory(terminating_name, **terminating_kwargs),
    )


def tf(name, **kwargs):
    return terminating_fs.factory(name, **kwargs)


COMMON_REWARDS = [
    ('reach_exit', dict(reward_on=5.0, reward_off=0.0)),
    (
        'getting_closer',
        dict(
            distance_function=Position.manhattan_distance,
            object_type=Exit,
            reward_closer=0.2,
            reward_further=-0.2,
        ),
    ),
    ('bump_into_wall', dict(reward=-1.0)),
    ('living_reward', dict(reward=-0.05)),
]


def make_envs():
    envs = {}

    envs['empty_4x7'] = make_env(
        Shape(4, 7),
        [Wall, Floor, Exit],
        [Color.NONE],
        MOVE_TURN_ACTIONS,
        ('empty', dict(random_agent=True, random_exit=True)),
        [('move_agent', {}), ('turn_agent', {})],
        COMMON_REWARDS,
        ('fully_transparent', {}),
        ('reach_exit', {}),
    )

    envs['keydoor_5x8'] = make_env(
        Shape(5, 8),
        [Wall, Floor, Exit, Door, Key],
        [Color.NONE, Color.YELLOW],
        ALL_ACTIONS,
        ('keydoor', {}),
        [
            ('move_agent', {}),
            ('turn_agent', {}),
            ('actuate_door', {}),
            ('pickndrop', {}),
        ],
        COMMON_REWARDS
        + [
            (
                'pickndrop',
                dict(object_type=Key, reward_pick=1.0, reward_drop=-1.0),
            ),
            ('actuate_door', dict(reward_open=1.0, reward_close=-1.0)),
        ],
        ('raytracing', {}),
        ('reach_exit', {}),
        view=Area((-4, 1), (-1, 3)),  # asymmetric, sees behind the agent
    )

    envs['dynamic_obstacles_6x5'] = make_env(
        Shape(6, 5),
        [Wall, Floor, Exit, MovingObstacle],
        [Color.NONE],
        MOVE_TURN_ACTIONS,
        ('dynamic_obstacles', dict(num_obstacles=2, random_agent=True)),
        [('move_agent', {}), ('turn_agent', {}), ('move_obstacles', {})],
        COMMON_REWARDS + [('bump_moving_obstacle', dict(reward=-1.0))],
        ('raytracing', {}),
        (
            'reduce_any',
            dict(
                terminating_functions=[
                    tf('reach_exit'),
                    tf('bump_moving_obstacle'),
                    tf('bump_into_wall'),
                ]
            ),
        ),
    )

    envs['teleport_5x7'] = make_env(
        Shape(5, 7),
        [Wall, Floor, Exit, Telepod],
        [Color.NONE, Color.RED],
        MOVE_TURN_ACTIONS,
        ('teleport', {}),
        [('move_agent', {}), ('turn_agent', {}), ('teleport', {})],
        COMMON_REWARDS,
        ('partially_occluded', {}),
        (
            'reduce_all',
            dict(
                terminating_functions=[
                    tf('reach_exit'),
                    tf('overlap', object_type=Exit),
                ]
            ),
        ),
    )

    envs['memory_5x7'] = make_env(
        Shape(5, 7),
        [Wall, Floor, Exit, Beacon],
        [Color.NONE, Color.RED, Color.GREEN, Color.BLUE],
        MOVE_TURN_ACTIONS,
        ('memory', dict(colors=[Color.RED, Color.GREEN, Color.BLUE])),
        [('move_agent', {}), ('turn_agent', {})],
        [
            ('reach_exit_memory', dict(reward_good=5.0, reward_bad=-5.0)),
            ('living_reward', dict(reward=-0.05)),
        ],
        ('partially_occluded', {}),
        ('reach_exit', {}),
        view=Area((-2, 0), (-1, 1)),
    )

    envs['crossing_7x9'] = make_env(
        Shape(7, 9),
        [Wall, Floor, Exit],
        [Color.NONE],
        MOVE_TURN_ACTIONS,
        ('crossing', dict(num_rivers=2, object_type=Wall)),
        [('move_agent', {}), ('turn_agent', {})],
        COMMON_REWARDS,
        ('partially_occluded', {}),
        (
            'reduce_any',
            dict(terminating_functions=[tf('reach_exit'), tf('bump_into_wall')]),
        ),
    )

    envs['four_rooms_7x9'] = make_env(
        Shape(7, 9),
        [Wall, Floor, Exit],
        [Color.NONE],
        ALL_ACTIONS,
        ('rooms', dict(layout=(2, 2))),
        [('move_agent', {}), ('turn_agent', {})],
        COMMON_REWARDS,
        ('raytracing', {}),
        ('reach_exit', {}),
    )

    return envs


def state_signature(state):
    return repr(
        (
            [
                [repr(state.grid[y, x]) for x in range(state.grid.shape.width)]
                for y in range(state.grid.shape.height)
            ],
            state.agent.position.yx,
            state.agent.orientation.name,
            repr(state.agent.grid_object),
        )
    )


def check_transition(env, name, state, action):
    """one step from `state`;  returns (next_state, reward, done)"""
    before = fast_copy(state)
    next_state, reward, done = env.functional_step(state, action)

    check(state == before, f'{name}: input state was mutated')
    check(
        env.state_space.contains(next_state),
        f'{name}: next state outside the state space ({action})',
    )
    check(
        next_state.grid.shape == env.state_space.grid_shape,
        f'{name}: grid shape changed',
    )
    check(
        next_state.grid.area.contains(next_state.agent.position),
        f'{name}: agent outside the grid',
    )
    check(
        type(next_state.agent.grid_object)
        in set(env.state_space.object_types) | {NoneGridObject},
        f'{name}: undeclared held item',
    )
    check(
        isinstance(reward, float) and math.isfinite(reward),
        f'{name}: reward {reward!r}',
    )
    check(isinstance(done, bool), f'{name}: done flag {done!r}')

    observation = env.functional_observation(next_state)
    check(
        env.observation_space.contains(observation),
        f'{name}: observation outside the observation space',
    )
    return next_state, reward, done


def check_invalid_actions(env, name, state):
    before = fast_copy(state)
    invalid = [a for a in Action if not env.action_space.contains(a)]
    for action in invalid + [None, 3, 'MOVE_FORWARD']:
        try:
            env.functional_step(state, action)
        except ValueError:
            pass
        else:
            check(False, f'{name}: invalid action {action!r} accepted')
        check(state == before, f'{name}: rejected action changed the state')


def check_random_walks(envs):
    digest = hashlib.sha256()
    for name, env in envs.items():
        for seed in [0, 1, 2]:
            env.set_seed(seed)
            walk_rng = np.random.default_rng(1000 + seed)
            env.reset()
            check(
                env.state_space.contains(env.state),
                f'{name}: reset state outside the state space',
            )
            check(
                env.observation_space.contains(env.observation),
                f'{name}: reset observation outside the observation space',
            )
            check_invalid_actions(env, name, env.state)

            for _ in range(120):
                actions = env.action_space.actions
                action = actions[walk_rng.integers(len(actions))]
                state = env.state
                next_state, reward, done = check_transition(
                    env, name, state, action
                )
                digest.update(state_signature(next_state).encode())
                digest.update(repr((action.name, reward, done)).encode())
                if done:
                    env.reset()
                else:
                    # continue the walk from the checked next state
                    env._state = next_state
                    env._observation = None

        # every action from the reset state, twice (repeated calls)
        env.set_seed(7)
        env.reset()
        for action in env.action_space.actions * 2:
            check_transition(env, name, env.state, action)

    return digest.hexdigest()


def check_awkward_states():
    """hand-built states:  no wall boundary, agent on edges facing outward"""
    objects = [Wall, Floor, Exit, Door, Key, Box, Telepod, MovingObstacle]
    colors = [Color.NONE, Color.RED, Color.BLUE]
    count = 0
    for shape in [Shape(1, 1), Shape(1, 5), Shape(4, 1), Shape(3, 4)]:
        view = Area((-3, 1), (-2, 2))
        env = GridWorld(
            StateSpace(shape, objects, colors),
            ActionSpace(ALL_ACTIONS),
            ObservationSpace(Shape(view.height, view.width), objects, colors),
            lambda *, rng=None: State(
                Grid.from_shape(shape), Agent(Position(0, 0), Orientation.F)
            ),
            transition_fs.factory(
                'chain',
                transition_functions=[
                    transition_fs.factory(name)
                    for name in [
                        'move_agent',
                        'turn_agent',
                        'actuate_door',
                        'actuate_box',
                        'pickndrop',
                        'teleport',
                        'move_obstacles',
                    ]
                ],
            ),
            observation_fs.factory('raytracing', area=view),
            reward_fs.factory(
                'reduce_sum',
                reward_functions=[
                    reward_fs.factory('bump_into_wall', reward=-1.0),
                    reward_fs.factory('living_reward', reward=-0.1),
                    reward_fs.factory('bump_moving_obstacle', reward=-1.0),
                ],
            ),
            terminating_fs.factory(
                'reduce_any',
                terminating_functions=[
                    tf('reach_exit'),
                    tf('bump_into_wall'),
                    tf('bump_moving_obstacle'),
                ],
            ),
        )
        env.set_seed(3)

        def decorate(grid, variant):
            cells = list(grid.area.positions())
            fillers = [
                [],
                [Telepod(Color.RED)],  # unpaired telepod
                [Wall(), Key(Color.BLUE), Exit()],
                [
                    Door(Door.Status.LOCKED, Color.BLUE),
                    Box(Key(Color.RED)),
                    MovingObstacle(),
                    Telepod(Color.RED),
                    Telepod(Color.RED),
                ],
            ][variant]
            for cell, obj in zip(reversed(cells), fillers):
                grid[cell] = obj

        for variant in range(4):
            for y, x in itt.product(range(shape.height), range(shape.width)):
                for orientation in ALL_ORIENTATIONS[:4]:
                    for held in [None, Key(Color.BLUE), Key(Color.RED)]:
                        grid = Grid.from_shape(shape)
                        decorate(grid, variant)
                        state = State(
                            grid, Agent(Position(y, x), orientation, held)
                        )
                        if not env.state_space.contains(state):
                            continue
                        for action in ALL_ACTIONS:
                            check_transition(
                                env, f'awkward {shape}', state, action
                            )
                            count += 1
    check(count > 2000, f'too few awkward transitions ({count})')


# sha256 over the seeded random walks (recorded on the pristine tree)
EXPECTED_DIGEST = (
    '426b9d61962c60ea5cc1f57c339f2668082a0988502d17c9f9b8a28c79784c68'
)


def main():
    check_signatures()
    check_factory()
    check_reductions()
    check_overlap()
    check_consumers()

    # two independently built sets of environments in one process
    envs = make_envs()
    digest = check_random_walks(envs)
    digest_again = check_random_walks(make_envs())
    check(digest == digest_again, 're-seeded walks are not reproducible')
    if EXPECTED_DIGEST is not None:
        check(
            digest == EXPECTED_DIGEST,
            f'trajectory digest changed: {digest}',
        )

    check_awkward_states()
    print(f'OK ({CHECKS} checks, digest {digest})')


if __name__ == '__main__':
    main()
