#!/usr/bin/env python3
"""Check program for refactoring B (idiom / control-flow rewrite of `crossing`).

Run as:  cd /tmp/wt3-C13 && /venv/bin/python -W ignore _seed/B/demo.py

Every built-in reset function is called through the public API over a sweep
of shapes (valid and invalid), parameters and seeds, and compared with an
independent re-implementation contained in this file (plain lists and tuples,
numpy generator only):  the produced state, the raised error (type and
message), and the final state of the random generator must all coincide.
Valid outputs are additionally checked against the well-formedness property
(shape, wall boundary, agent placement, advertised inventory; for `crossing`
also the number of rivers and that the exit can be reached).

The sweep is densest on `crossing`, whose code is refactored.
"""

FOCUS = {'crossing': 40}


import itertools
import os
import sys

sys.path.insert(0, os.getcwd())

import numpy as np  # noqa: E402

from gym_gridverse.envs import reset_functions as rf  # noqa: E402
from gym_gridverse.geometry import Orientation, Shape  # noqa: E402
from gym_gridverse.grid_object import (  # noqa: E402
    Beacon,
    Color,
    Door,
    Exit,
    Floor,
    Key,
    MovingObstacle,
    NoneGridObject,
    Telepod,
    Wall,
)
from gym_gridverse.rng import reset_gv_rng  # noqa: E402
from gym_gridverse.state import State  # noqa: E402

# ---------------------------------------------------------------------------
# Independent re-implementation ("reference") of the eight reset functions.
#
# It works on plain python data only:  a grid is a list of rows, a cell is a
# tuple (type-name, colour-name, state-index), the agent is a tuple
# (y, x, orientation-name).  Random numbers are drawn directly from a
# numpy Generator, in the order documented for each function, so that the
# reference and the library, given generators with the same seed, must
# produce the same state AND leave the generators in the same final state.
# ---------------------------------------------------------------------------

FLOOR = ('Floor', 'NONE', 0)
WALL = ('Wall', 'NONE', 0)
ORIENTATIONS = ['FORWARD', 'BACKWARD', 'LEFT', 'RIGHT']  # definition order


def cell_exit(color='NONE'):
    return ('Exit', color, 0)


def new_grid(h, w, cell=FLOOR):
    return [[cell for _ in range(w)] for _ in range(h)]


def put(grid, y, x, cell):
    # the library's grid is a list of lists: negative indices wrap, indices
    # beyond the end raise IndexError.  Python lists do the same here.
    grid[y][x] = cell


def floor_cells(grid):
    return [
        (y, x)
        for y, row in enumerate(grid)
        for x, cell in enumerate(row)
        if cell == FLOOR
    ]


def boundary(grid, h, w):
    for x in range(w):
        put(grid, 0, x, WALL)
        put(grid, h - 1, x, WALL)
    for y in range(1, h - 1):
        put(grid, y, 0, WALL)
        put(grid, y, w - 1, WALL)


def pick(rng, data):
    return data[rng.choice(len(data))]


def pick_many(rng, data, size):
    return [data[i] for i in rng.choice(len(data), size=size, replace=False)]


def shuffled(rng, data):
    indices = list(range(len(data)))
    rng.shuffle(indices)
    return [data[i] for i in indices]


def ref_empty(rng, h, w, random_agent=False, random_exit=False):
    if h < 4 or w < 4:
        raise ValueError('height and width need to be at least 4')
    grid = new_grid(h, w)
    boundary(grid, h, w)
    if random_exit:
        inside = [
            (y, x)
            for y in range(1, h - 1)
            for x in range(1, w - 1)
            if random_agent or (y, x) != (1, 1)
        ]
        ey, ex = pick(rng, inside)
    else:
        ey, ex = h - 2, w - 2
    put(grid, ey, ex, cell_exit())
    if random_agent:
        ay, ax = pick(rng, floor_cells(grid))
        orientation = ORIENTATIONS[rng.choice(4)]
    else:
        ay, ax = 1, 1
        orientation = 'RIGHT'
    return grid, (ay, ax, orientation)


def ref_splits(length, n):
    return np.linspace(0, length - 1, num=n + 1, dtype=int)


def ref_room_grid(rng, h, w, ys, xs):
    grid = new_grid(h, w)
    # walls: full rows at the y splits (spanning min..max x split), and full
    # columns at the x splits (spanning min..max y split)
    for y in ys:
        for x in range(min(xs), max(xs) + 1):
            put(grid, y, x, WALL)
    for y in range(min(ys), max(ys) + 1):
        if y not in ys:
            for x in xs:
                put(grid, y, x, WALL)
    # one passage per room side: first the horizontal walls, row by row and
    # left to right;  then the vertical walls, room-row by room-row
    for y in ys[1:-1]:
        for x0, x1 in zip(xs[:-1], xs[1:]):
            x = rng.integers(x0 + 1, x1)
            put(grid, y, x, FLOOR)
    for y0, y1 in zip(ys[:-1], ys[1:]):
        for x in xs[1:-1]:
            y = rng.integers(y0 + 1, y1)
            put(grid, y, x, FLOOR)
    return grid


def ref_rooms(rng, h, w, layout):
    lh, lw = layout
    ys = ref_splits(h, lh)
    if len(set(ys.tolist())) != len(ys):
        raise ValueError(f'insufficient height ({h}) for layout ({layout})')
    xs = ref_splits(w, lw)
    if len(set(xs.tolist())) != len(xs):
        raise ValueError(f'insufficient width ({w}) for layout ({layout})')
    grid = ref_room_grid(rng, h, w, ys, xs)
    (ay, ax), (ey, ex) = pick_many(rng, floor_cells(grid), 2)
    orientation = ORIENTATIONS[rng.choice(4)]
    put(grid, ey, ex, cell_exit())
    return grid, (ay, ax, orientation)


def ref_dynamic_obstacles(rng, h, w, num_obstacles, random_agent=False):
    grid, agent = ref_empty(rng, h, w, random_agent)
    vacant = [p for p in floor_cells(grid) if p != agent[:2]]
    try:
        chosen = pick_many(rng, vacant, num_obstacles)
    except ValueError:
        raise ValueError(
            f'Too many obstacles ({num_obstacles}) and not enough '
            f'vacant positions ({len(vacant)})'
        )
    for y, x in chosen:
        put(grid, y, x, ('MovingObstacle', 'NONE', 0))
    return grid, agent


def ref_keydoor(rng, h, w):
    if h < 3 or w < 5 or (h, w) == (3, 5):
        raise ValueError(
            f'Shape must larger than (3, 5), given Shape(height={h}, width={w})'
        )
    grid, _ = ref_empty(rng, h, w)
    x_wall = rng.integers(2, w - 3, endpoint=True)
    column = list(range(1, h - 1))
    for y in column:
        put(grid, y, x_wall, WALL)
    y_door = pick(rng, column)
    put(grid, y_door, x_wall, ('Door', 'YELLOW', 2))
    y_key = rng.integers(1, h - 2, endpoint=True)
    x_key = rng.integers(1, x_wall - 1, endpoint=True)
    put(grid, y_key, x_key, ('Key', 'YELLOW', 0))
    y_agent = rng.integers(1, h - 2, endpoint=True)
    x_agent = rng.integers(1, x_wall - 1, endpoint=True)
    orientation = ORIENTATIONS[rng.choice(4)]
    return grid, (int(y_agent), int(x_agent), orientation)


def ref_crossing(rng, h, w, num_rivers, river_cell=WALL):
    if h < 5 or h % 2 == 0:
        raise ValueError(f'height ({h}) must be odd and >= 5')
    if w < 5 or w % 2 == 0:
        raise ValueError(f'width ({w}) must be odd and >= 5')
    if num_rivers <= 0:
        raise ValueError(f'number of rivers ({num_rivers}) must be positive')
    grid, _ = ref_empty(rng, h, w)
    candidates = [('row', y) for y in range(2, h - 2, 2)]
    candidates += [('col', x) for x in range(2, w - 2, 2)]
    selected = shuffled(rng, candidates)[:num_rivers]
    rows = sorted(k for kind, k in selected if kind == 'row')
    cols = sorted(k for kind, k in selected if kind == 'col')
    for y in rows:
        for x in range(1, w - 1):
            put(grid, y, x, river_cell)
    for x in cols:
        for y in range(1, h - 1):
            put(grid, y, x, river_cell)
    # a monotone path from the top-left room to the bottom-right room: one
    # 'east' step per column-river, one 'south' step per row-river
    steps = shuffled(rng, ['east'] * len(cols) + ['south'] * len(rows))
    ybounds = [0] + rows + [h - 1]
    xbounds = [0] + cols + [w - 1]
    ri = rj = 0
    for step in steps:
        if step == 'east':
            y = rng.integers(ybounds[ri] + 1, ybounds[ri + 1])
            x = xbounds[rj + 1]
            rj += 1
        else:
            y = ybounds[ri + 1]
            x = rng.integers(xbounds[rj] + 1, xbounds[rj + 1])
            ri += 1
        put(grid, y, x, FLOOR)
    return grid, (1, 1, 'RIGHT')


def ref_teleport(rng, h, w):
    grid, _ = ref_empty(rng, h, w)
    rng.choice(2)  # first orientation draw, overwritten below
    vacant = [p for p in floor_cells(grid) if p != (1, 1)]
    for y, x in pick_many(rng, vacant, 2):
        put(grid, y, x, ('Telepod', 'RED', 0))
    orientation = ['RIGHT', 'BACKWARD'][rng.choice(2)]
    return grid, (1, 1, orientation)


def ref_memory(rng, h, w, colors):
    names = sorted((c.name for c in colors), key=lambda n: Color[n].value)
    if h < 5:
        raise ValueError(f'height ({h}) must be >= 5')
    if w < 5 or w % 2 == 0:
        raise ValueError(f'width ({w}) must be odd and >= 5')
    if 'NONE' in names:
        raise ValueError(f'colors ({colors}) must not include Colors.NONE')
    if len(names) < 2:
        raise ValueError(f'colors ({colors}) must have at least 2 colors')
    grid = new_grid(h, w, WALL)
    for x in range(2, w - 2):
        put(grid, 1, x, FLOOR)
    for x in range(2, w - 2):
        put(grid, h - 2, x, FLOOR)
    for y in range(2, h - 2):
        put(grid, y, w // 2, FLOOR)
    good, bad = pick_many(rng, names, 2)
    x_good, x_bad = pick_many(rng, [1, w - 2], 2)
    put(grid, 1, x_good, cell_exit(good))
    put(grid, 1, x_bad, cell_exit(bad))
    put(grid, h - 2, 1, ('Beacon', good, 0))
    put(grid, h - 2, w - 2, ('Beacon', good, 0))
    return grid, (h // 2, w // 2, 'FORWARD')


def ref_memory_rooms(rng, h, w, layout, colors, num_beacons, num_exits):
    names = sorted((c.name for c in colors), key=lambda n: Color[n].value)
    if 'NONE' in names:
        raise ValueError(f'colors ({colors}) must not include NONE')
    if len(names) < 2:
        raise ValueError(f'colors ({colors}) must have at least 2 colors')
    if num_beacons < 1:
        raise ValueError(f'num_beacons ({num_beacons}) must be positive')
    if num_exits < 2:
        raise ValueError(f'num_exits ({num_exits}) must be >= 2')
    lh, lw = layout
    ys = ref_splits(h, lh)
    if len(set(ys.tolist())) != len(ys):
        raise ValueError(
            f'insufficient shape.height ({h}) for layout ({layout})'
        )
    xs = ref_splits(w, lw)
    if len(set(xs.tolist())) != len(xs):
        raise ValueError(
            f'insufficient shape.width ({w}) for layout ({layout})'
        )
    grid = ref_room_grid(rng, h, w, ys, xs)
    cells = pick_many(rng, floor_cells(grid), 1 + num_beacons + num_exits)
    ay, ax = cells[0]
    orientation = ORIENTATIONS[rng.choice(4)]
    exit_colors = pick_many(rng, names, num_exits)
    for y, x in cells[1 : 1 + num_beacons]:
        put(grid, y, x, ('Beacon', exit_colors[0], 0))
    for (y, x), color in zip(cells[1 + num_beacons :], exit_colors):
        put(grid, y, x, cell_exit(color))
    return grid, (ay, ax, orientation)


# ---------------------------------------------------------------------------
# Comparison of library output and reference output
# ---------------------------------------------------------------------------


def encode_state(state):
    assert isinstance(state, State)
    grid = [
        [
            (type(obj).__name__, obj.color.name, int(obj.state_index))
            for obj in row
        ]
        for row in state.grid.objects
    ]
    assert (state.grid.shape.height, state.grid.shape.width) == (
        len(grid),
        len(grid[0]),
    )
    # no object may be shared between two cells
    ids = [id(obj) for row in state.grid.objects for obj in row]
    assert len(ids) == len(set(ids)), 'aliased grid objects'
    assert isinstance(state.agent.orientation, Orientation)
    agent = (
        int(state.agent.position.y),
        int(state.agent.position.x),
        state.agent.orientation.name,
    )
    assert type(state.agent.grid_object) is NoneGridObject, 'agent not empty-handed'
    return grid, agent


def run(function, *args, **kwargs):
    """outcome of a call: ('ok', value) or ('err', type-name, message)"""
    try:
        return ('ok', function(*args, **kwargs))
    except Exception as e:  # pylint: disable=broad-except
        return ('err', type(e).__name__, str(e))


COUNTS = {'calls': 0, 'ok': 0, 'err': 0, 'wellformed': 0}


def compare(label, lib_call, ref_call, seed, check=None, valid=True):
    """runs library and reference with equal seeds and compares everything

    lib_call(rng) -> State;  ref_call(rng) -> (grid, agent);
    check(grid, agent): well-formedness checker for valid parameters
    """
    rng_lib = np.random.default_rng(seed)
    rng_ref = np.random.default_rng(seed)
    out_lib = run(lib_call, rng_lib)
    out_ref = run(ref_call, rng_ref)
    COUNTS['calls'] += 1

    if out_ref[0] == 'err':
        COUNTS['err'] += 1
        assert out_lib[0] == 'err', f'{label} seed={seed}: expected {out_ref}'
        assert out_lib[1] == out_ref[1], (label, seed, out_lib, out_ref)
        # the library's own messages are compared verbatim;  messages coming
        # from numpy are produced by identical numpy calls in the reference
        assert out_lib[2] == out_ref[2], (label, seed, out_lib, out_ref)
        if valid is not None:
            # the property: what cannot be honoured raises ValueError
            assert out_lib[1] == 'ValueError', (label, seed, out_lib)
    else:
        COUNTS['ok'] += 1
        assert out_lib[0] == 'ok', f'{label} seed={seed}: unexpected {out_lib}'
        encoded = encode_state(out_lib[1])
        assert encoded == out_ref[1], f'{label} seed={seed}: states differ'
        if check is not None and valid:
            check(*encoded)
            COUNTS['wellformed'] += 1

    # same number (and kind) of random draws, also on failure
    state_lib = rng_lib.bit_generator.state
    state_ref = rng_ref.bit_generator.state
    assert state_lib == state_ref, f'{label} seed={seed}: rng streams differ'
    return out_lib


# ---------------------------------------------------------------------------
# Well-formedness checks (the property itself), on the encoded library state
# ---------------------------------------------------------------------------


def count(grid, name):
    return sum(cell[0] == name for row in grid for cell in row)


def cells_of(grid, name):
    return [
        (y, x, cell)
        for y, row in enumerate(grid)
        for x, cell in enumerate(row)
        if cell[0] == name
    ]


def check_common(grid, agent, h, w, allowed):
    assert len(grid) == h and all(len(row) == w for row in grid), 'shape'
    for x in range(w):
        assert grid[0][x] == WALL and grid[h - 1][x] == WALL, 'boundary'
    for y in range(h):
        assert grid[y][0] == WALL and grid[y][w - 1] == WALL, 'boundary'
    ay, ax, orientation = agent
    assert 0 <= ay < h and 0 <= ax < w, 'agent outside grid'
    assert orientation in ORIENTATIONS
    under = grid[ay][ax]
    assert under[0] in ('Floor', 'Key', 'Beacon'), f'agent on {under}'
    for row in grid:
        for cell in row:
            assert cell[0] in allowed, f'unexpected object {cell}'


def reachable(grid, start, passable=('Floor', 'Exit', 'Key', 'Beacon', 'Telepod', 'MovingObstacle')):
    h, w = len(grid), len(grid[0])
    seen = {start}
    todo = [start]
    while todo:
        y, x = todo.pop()
        for ny, nx in ((y + 1, x), (y - 1, x), (y, x + 1), (y, x - 1)):
            if 0 <= ny < h and 0 <= nx < w and (ny, nx) not in seen:
                if grid[ny][nx][0] in passable:
                    seen.add((ny, nx))
                    todo.append((ny, nx))
    return seen


def checker_empty(h, w, random_agent, random_exit):
    def check(grid, agent):
        check_common(grid, agent, h, w, {'Floor', 'Wall', 'Exit'})
        assert count(grid, 'Exit') == 1
        assert count(grid, 'Wall') == 2 * (h + w) - 4
        (ey, ex, cell), = cells_of(grid, 'Exit')
        assert cell == cell_exit()
        assert 1 <= ey <= h - 2 and 1 <= ex <= w - 2
        if not random_exit:
            assert (ey, ex) == (h - 2, w - 2)
        if not random_agent:
            assert agent == (1, 1, 'RIGHT')

    return check


def checker_rooms(h, w, layout):
    def check(grid, agent):
        check_common(grid, agent, h, w, {'Floor', 'Wall', 'Exit'})
        assert count(grid, 'Exit') == 1
        (ey, ex, cell), = cells_of(grid, 'Exit')
        assert cell == cell_exit()
        # all rooms are connected through the passages (only meaningful
        # when no room is degenerate, i.e. every room has an interior)
        ys, xs = ref_splits(h, layout[0]), ref_splits(w, layout[1])
        if min(np.diff(ys)) >= 2 and min(np.diff(xs)) >= 2:
            seen = reachable(grid, agent[:2])
            assert (ey, ex) in seen
            assert len(seen) == count(grid, 'Floor') + 1

    return check


def checker_dynamic_obstacles(h, w, n, random_agent):
    def check(grid, agent):
        check_common(
            grid, agent, h, w, {'Floor', 'Wall', 'Exit', 'MovingObstacle'}
        )
        assert count(grid, 'Exit') == 1
        assert count(grid, 'MovingObstacle') == n
        assert count(grid, 'Wall') == 2 * (h + w) - 4
        assert grid[h - 2][w - 2] == cell_exit()
        if not random_agent:
            assert agent == (1, 1, 'RIGHT')

    return check


def checker_keydoor(h, w):
    def check(grid, agent):
        check_common(grid, agent, h, w, {'Floor', 'Wall', 'Exit', 'Door', 'Key'})
        assert count(grid, 'Exit') == 1 and grid[h - 2][w - 2] == cell_exit()
        (dy, dx, door), = cells_of(grid, 'Door')
        (ky, kx, key), = cells_of(grid, 'Key')
        assert door == ('Door', 'YELLOW', 2)  # locked
        assert key == ('Key', 'YELLOW', 0)
        assert 2 <= dx <= w - 3 and 1 <= dy <= h - 2
        for y in range(1, h - 1):
            assert grid[y][dx][0] in ('Wall', 'Door'), 'dividing wall broken'
        assert 1 <= kx < dx and 1 <= agent[1] < dx, 'key/agent side'
        assert count(grid, 'Wall') == 2 * (h + w) - 4 + (h - 2) - 1

    return check


def checker_crossing(h, w, num_rivers):
    def check(grid, agent):
        check_common(grid, agent, h, w, {'Floor', 'Wall', 'Exit'})
        assert count(grid, 'Exit') == 1 and grid[h - 2][w - 2] == cell_exit()
        assert agent == (1, 1, 'RIGHT')
        assert (h - 2, w - 2) in reachable(grid, (1, 1)), 'exit unreachable'
        rows = [y for y in range(1, h - 1) if sum(grid[y][x] == WALL for x in range(1, w - 1)) >= w - 3 and y % 2 == 0]
        cols = [x for x in range(1, w - 1) if sum(grid[y][x] == WALL for y in range(1, h - 1)) >= h - 3 and x % 2 == 0]
        available = (h - 3) // 2 + (w - 3) // 2
        assert len(rows) + len(cols) == min(num_rivers, available), (rows, cols)

    return check


def checker_teleport(h, w):
    def check(grid, agent):
        check_common(grid, agent, h, w, {'Floor', 'Wall', 'Exit', 'Telepod'})
        assert count(grid, 'Exit') == 1 and grid[h - 2][w - 2] == cell_exit()
        pods = cells_of(grid, 'Telepod')
        assert len(pods) == 2
        assert pods[0][2] == pods[1][2] == ('Telepod', 'RED', 0)
        assert agent[:2] == (1, 1) and agent[2] in ('RIGHT', 'BACKWARD')

    return check


def checker_memory(h, w, colors):
    names = {c.name for c in colors}

    def check(grid, agent):
        check_common(grid, agent, h, w, {'Floor', 'Wall', 'Exit', 'Beacon'})
        exits = cells_of(grid, 'Exit')
        beacons = cells_of(grid, 'Beacon')
        assert len(exits) == 2 and len(beacons) == 2
        assert {(y, x) for y, x, _ in exits} == {(1, 1), (1, w - 2)}
        assert {(y, x) for y, x, _ in beacons} == {(h - 2, 1), (h - 2, w - 2)}
        exit_colors = [cell[1] for _, _, cell in exits]
        assert len(set(exit_colors)) == 2 and set(exit_colors) <= names
        beacon_colors = {cell[1] for _, _, cell in beacons}
        assert len(beacon_colors) == 1 and beacon_colors <= set(exit_colors)
        assert agent == (h // 2, w // 2, 'FORWARD')
        seen = reachable(grid, agent[:2])
        assert all((y, x) in seen for y, x, _ in exits + beacons)

    return check


def checker_memory_rooms(h, w, layout, colors, num_beacons, num_exits):
    names = {c.name for c in colors}

    def check(grid, agent):
        check_common(grid, agent, h, w, {'Floor', 'Wall', 'Exit', 'Beacon'})
        exits = cells_of(grid, 'Exit')
        beacons = cells_of(grid, 'Beacon')
        assert len(exits) == num_exits and len(beacons) == num_beacons
        exit_colors = [cell[1] for _, _, cell in exits]
        assert len(set(exit_colors)) == num_exits and set(exit_colors) <= names
        beacon_colors = {cell[1] for _, _, cell in beacons}
        assert len(beacon_colors) == 1
        assert exit_colors.count(next(iter(beacon_colors))) == 1
        assert grid[agent[0]][agent[1]] == FLOOR

    return check


# ---------------------------------------------------------------------------
# Sweeps
# ---------------------------------------------------------------------------

COLORS = [Color.RED, Color.GREEN, Color.BLUE, Color.YELLOW]


def color_sets(full):
    sets = [set(), {Color.RED}, {Color.NONE, Color.RED, Color.BLUE}]
    sizes = [2, 3, 4] if full else [2, 4]
    for k in sizes:
        for combo in itertools.combinations(COLORS, k):
            sets.append(set(combo))
    return sets


def sweep_empty(seeds, sizes):
    for h, w in itertools.product(sizes, sizes):
        for random_agent, random_exit in itertools.product([False, True], repeat=2):
            n = seeds if (random_agent or random_exit) else 2
            for seed in range(n):
                compare(
                    f'empty({h},{w},{random_agent},{random_exit})',
                    lambda rng: rf.empty(Shape(h, w), random_agent, random_exit, rng=rng),
                    lambda rng: ref_empty(rng, h, w, random_agent, random_exit),
                    seed,
                    checker_empty(h, w, random_agent, random_exit),
                )
    # truthy / keyword flags
    for seed in range(3):
        compare(
            'empty(kw)',
            lambda rng: rf.empty(shape=Shape(5, 6), random_exit=1, random_agent=0, rng=rng),
            lambda rng: ref_empty(rng, 5, 6, False, True),
            seed,
            checker_empty(5, 6, False, True),
        )


def sweep_rooms(seeds, sizes, layouts):
    for h, w in itertools.product(sizes, sizes):
        for layout in layouts:
            valid = True if min(layout) >= 1 else None
            for seed in range(seeds):
                compare(
                    f'rooms({h},{w},{layout})',
                    lambda rng: rf.rooms(Shape(h, w), layout, rng=rng),
                    lambda rng: ref_rooms(rng, h, w, layout),
                    seed,
                    checker_rooms(h, w, layout),
                    valid=valid,
                )


def sweep_dynamic_obstacles(seeds, sizes):
    for h, w in itertools.product(sizes, sizes):
        vacant = max((h - 2) * (w - 2) - 2, 0)
        numbers = sorted({-1, 0, 1, 2, vacant - 1, vacant, vacant + 1, vacant + 5})
        for n in numbers:
            for random_agent in [False, True]:
                for seed in range(seeds):
                    compare(
                        f'dynamic_obstacles({h},{w},{n},{random_agent})',
                        lambda rng: rf.dynamic_obstacles(Shape(h, w), n, random_agent, rng=rng),
                        lambda rng: ref_dynamic_obstacles(rng, h, w, n, random_agent),
                        seed,
                        checker_dynamic_obstacles(h, w, n, random_agent),
                        valid=True if n >= 0 else None,
                    )
    # the chained cause of the 'too many obstacles' error is kept
    try:
        rf.dynamic_obstacles(Shape(4, 4), 3, rng=np.random.default_rng(0))
    except ValueError as e:
        assert isinstance(e.__cause__, ValueError)
    else:
        assert False


def sweep_keydoor(seeds, sizes):
    for h, w in itertools.product(sizes, sizes):
        for seed in range(seeds):
            compare(
                f'keydoor({h},{w})',
                lambda rng: rf.keydoor(Shape(h, w), rng=rng),
                lambda rng: ref_keydoor(rng, h, w),
                seed,
                checker_keydoor(h, w),
            )


def sweep_crossing(seeds, sizes):
    factories = [(Wall, WALL), ((lambda: Wall()), WALL)]
    for h, w in itertools.product(sizes, sizes):
        available = max((h - 3) // 2, 0) + max((w - 3) // 2, 0)
        for n in sorted({-1, 0, 1, 2, 3, available - 1, available, available + 1, available + 4}):
            for k, (factory, river_cell) in enumerate(factories):
                for seed in range(seeds if k == 0 else 2):
                    compare(
                        f'crossing({h},{w},{n})',
                        lambda rng: rf.crossing(Shape(h, w), n, factory, rng=rng),
                        lambda rng: ref_crossing(rng, h, w, n, river_cell),
                        seed,
                        checker_crossing(h, w, n),
                    )


def sweep_teleport(seeds, sizes):
    for h, w in itertools.product(sizes, sizes):
        for seed in range(seeds):
            compare(
                f'teleport({h},{w})',
                lambda rng: rf.teleport(Shape(h, w), rng=rng),
                lambda rng: ref_teleport(rng, h, w),
                seed,
                checker_teleport(h, w),
            )


def sweep_memory(seeds, sizes, full):
    for h, w in itertools.product(sizes, sizes):
        for colors in color_sets(full):
            for seed in range(seeds):
                compare(
                    f'memory({h},{w},{sorted(c.name for c in colors)})',
                    lambda rng: rf.memory(Shape(h, w), colors, rng=rng),
                    lambda rng: ref_memory(rng, h, w, colors),
                    seed,
                    checker_memory(h, w, colors),
                )


def sweep_memory_rooms(seeds, sizes, layouts, full):
    for h, w in itertools.product(sizes, sizes):
        for layout in layouts:
            for colors in color_sets(full)[1:]:
                for num_beacons, num_exits in [(0, 2), (1, 1), (1, 2), (2, 2), (3, 3), (1, 4), (2, 5)]:
                    valid = True if min(layout) >= 1 else None
                    for seed in range(seeds):
                        compare(
                            f'memory_rooms({h},{w},{layout},{sorted(c.name for c in colors)},{num_beacons},{num_exits})',
                            lambda rng: rf.memory_rooms(Shape(h, w), layout, colors, num_beacons, num_exits, rng=rng),
                            lambda rng: ref_memory_rooms(rng, h, w, layout, colors, num_beacons, num_exits),
                            seed,
                            checker_memory_rooms(h, w, layout, colors, num_beacons, num_exits),
                            valid=valid,
                        )


def sweep_factory_and_default_rng():
    """the registered names, the factory, and the library-level generator"""
    expected = [
        'empty',
        'rooms',
        'dynamic_obstacles',
        'keydoor',
        'crossing',
        'teleport',
        'memory',
        'memory_rooms',
    ]
    for name in expected:
        assert name in rf.reset_function_registry, name
        assert rf.reset_function_registry[name] is getattr(rf, name)

    cases = [
        ('empty', dict(shape=Shape(6, 7), random_agent=True, random_exit=True),
         lambda rng: ref_empty(rng, 6, 7, True, True)),
        ('rooms', dict(shape=Shape(9, 11), layout=(2, 3)),
         lambda rng: ref_rooms(rng, 9, 11, (2, 3))),
        ('dynamic_obstacles', dict(shape=Shape(6, 7), num_obstacles=4, random_agent=True),
         lambda rng: ref_dynamic_obstacles(rng, 6, 7, 4, True)),
        ('keydoor', dict(shape=Shape(6, 8)), lambda rng: ref_keydoor(rng, 6, 8)),
        ('crossing', dict(shape=Shape(9, 11), num_rivers=4, object_type=Wall),
         lambda rng: ref_crossing(rng, 9, 11, 4)),
        ('teleport', dict(shape=Shape(6, 8)), lambda rng: ref_teleport(rng, 6, 8)),
        ('memory', dict(shape=Shape(6, 7), colors={Color.RED, Color.BLUE, Color.GREEN}),
         lambda rng: ref_memory(rng, 6, 7, {Color.RED, Color.BLUE, Color.GREEN})),
        ('memory_rooms', dict(shape=Shape(9, 11), layout=(2, 2), colors=set(COLORS), num_beacons=2, num_exits=3),
         lambda rng: ref_memory_rooms(rng, 9, 11, (2, 2), set(COLORS), 2, 3)),
    ]
    for name, kwargs, ref_call in cases:
        function = rf.factory(name, **kwargs)
        for seed in range(10):
            # explicit generator through the factory
            compare(f'factory({name})', lambda rng: function(rng=rng), ref_call, seed)
            # library-level generator (rng=None)
            reset_gv_rng(seed)
            state = function()
            assert encode_state(state) == ref_call(np.random.default_rng(seed)), name
            # two successive resets continue the same stream
            rng_lib = np.random.default_rng(seed)
            rng_ref = np.random.default_rng(seed)
            for _ in range(3):
                assert encode_state(function(rng=rng_lib)) == ref_call(rng_ref)
            # returned states share nothing
            s1 = function(rng=np.random.default_rng(seed))
            s2 = function(rng=np.random.default_rng(seed))
            assert s1.grid is not s2.grid and s1.agent is not s2.agent
            assert s1.grid.objects[0][0] is not s2.grid.objects[0][0]

    try:
        rf.factory('no_such_reset_function')
    except ValueError:
        pass
    else:
        assert False
    try:
        rf.factory('rooms', shape=Shape(5, 5))  # missing layout
    except ValueError:
        pass
    else:
        assert False


def main():
    f = FOCUS
    small = list(range(0, 9))
    sweep_empty(f.get('empty', 10), small)
    sweep_rooms(
        f.get('rooms', 8),
        [1, 2, 3, 4, 5, 7, 8, 10, 13],
        [(1, 1), (1, 2), (2, 1), (2, 2), (3, 2), (2, 3), (3, 3), (4, 1), (0, 1), (1, 0)],
    )
    sweep_dynamic_obstacles(f.get('dynamic_obstacles', 4), [1, 3, 4, 5, 6, 8])
    sweep_keydoor(f.get('keydoor', 15), list(range(1, 11)))
    sweep_crossing(f.get('crossing', 6), [1, 3, 4, 5, 6, 7, 9, 11, 13])
    sweep_teleport(f.get('teleport', 15), list(range(1, 10)))
    sweep_memory(f.get('memory', 4), [1, 4, 5, 6, 7, 8, 9], f.get('full_colors', False))
    sweep_memory_rooms(
        f.get('memory_rooms', 2),
        [3, 5, 8, 11],
        [(1, 1), (2, 2), (1, 3), (3, 2), (0, 1)],
        f.get('full_colors', False),
    )
    sweep_factory_and_default_rng()
    print(
        'OK: {calls} library/reference comparisons '
        '({ok} states, {err} rejected parameter sets, '
        '{wellformed} well-formedness checks)'.format(**COUNTS)
    )


if __name__ == '__main__':
    main()
